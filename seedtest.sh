#!/bin/bash
# ./seedtest.sh <seed-dir> <prop> [tier]  : apply a seeded change to /repo, run the check, undo it.
set -u
D="$1"; P="$2"; T="${3:-quick}"
cd /repo || exit 2
if ! git diff --quiet; then echo "/repo dirty"; exit 2; fi
git apply "$D/patch.diff" || { echo "patch does not apply"; exit 2; }
( cd /verif && ./check "$P" "$T" ); rc=$?
git -C /repo checkout -- . ; git -C /repo clean -fdq -- . 2>/dev/null
echo "seedtest: $D $P exit=$rc"
exit $rc
