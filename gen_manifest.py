#!/usr/bin/env python3
"""Writes MANIFEST.json from the table below (kept in one place so it stays valid)."""
import json, os
ROOT = os.path.dirname(os.path.abspath(__file__))

CHECKS = {
 "C12": dict(
  technique="explicit-state model checking: exhaustive DFS with state-digest dedup over all message sequences <= depth on the real ucdao msg server, lock-step ledger-map reference model",
  engine="E1",
  text="Three start states - the empty ledger, and the ledger as the module's InitGenesis leaves it for a genesis listing balances with the total given and with the total omitted - then every sequence (quick: <=3, thorough: <=5 messages) over an alphabet of ~110 fund/transfer/ratio/amount messages among 3 accounts (sender=recipient included) and 2 denominations is executed on branches of the real deliver state; in every reached state the sum/total/module-balance/index invariants are evaluated and every transition is compared with a ledger-map reference model. Bounded-exhaustive, not a proof.",
  note="Trusted: cosmos-sdk store/bank, the harness' branch hook (baseapp overlay) and msg-router dispatch mirroring baseapp.runMsgs; amounts are small integers, ratios from a 4-value grid.",
  design="DESIGN.md §3 C12"),
 "C13": dict(
  technique="explicit-state model checking: exhaustive enumeration of all block/parameter sequences <= depth through the real app.EndBlock, oracle = independent math/big 18-decimal fixed-point reference stepped in lock-step",
  engine="E1",
  text="Every sequence (quick: <=4, thorough: <=5 steps) over {blocks with dt in a boundary set incl. year/leap-day crossings, a macro step running into the cap, coefficient, max-supply relative to the current supply, enable/disable, real delegations} runs through the real EndBlock of the whole app on branches of the deliver state; minted amount, fee-collector delta, cap clamp, auto-disable, disabled and first-block-after-activation rules are compared with the reference on every block. Bounded-exhaustive.",
  note="Trusted: sdk bank/staking, the virtual block boundary (real EndBlock + transient reset + real BeginBlock, no IAVL commit), parameters set through the keeper. Year length taken from the minting block's year; exact rounding ties accepted either way.",
  design="DESIGN.md §3 C13"),
 "C17": dict(
  technique="exhaustive grid enumeration of the real CalculateBaseFee/EndBlock against a math/big reference plus explicit-state exploration of block sequences through real EndBlock/BeginBlock",
  engine="E3",
  text="Full cartesian product of boundary values (base fee, block gas limit incl. unlimited, elasticity, denominator, min gas price, g around the target) evaluated on the real keeper and compared with a transcription of the statement; monotonicity checked on every adjacent g pair; EndBlock gas-figure clamp on a full grid; all block sequences <= 3 (thorough 4) over 8-12 injected gas figures on 3 parameter fixtures against the recurrence; and all sequences <= 3 (thorough 4) of blocks carrying real Cosmos / Ethereum transactions (7 block contents, base fee active from the start or activated at the second block): stored figure == max(sum of gas limits x multiplier, gas used) and the next base fee follows from it.",
  note="Monotonicity required only where base >= floor(min gas price) (the statement is self-inconsistent below; recorded as observation). T=0 outside the domain. Virtual block boundary in the history part.",
  design="DESIGN.md §3 C17"),
 "C09": dict(
  technique="exhaustive grid enumeration of the schedule functions against a step-function reference plus explicit-state exploration of create/merge/clawback/funder-update sequences on the real msg servers with a lock-step union/cap model",
  engine="E3",
  text="Pure part: every ordered pair of ~107 single-denomination and ~43 multi-denomination period lists (zero-length periods, simultaneous events) x 9 start-offset pairs x every read instant through ReadSchedule, ReadPastPeriodCount, DisjunctPeriods, ConjunctPeriods, account identities and ComputeClawback. Stateful part: all sequences <= 3 (thorough 4) over create, merge via both message paths, clawback by funder/other/to third party, funder updates and time jumps; after each message the stored account is compared with the union/cap reference at every event time +-1, bank deltas must equal the grant / the unvested amount, and the account must pass Validate().",
  note="Union property required for t > max(start), capping outside (minStart,maxStart] (boundary rule of ReadSchedule at t = start). Messages run through the msg-service router; block time set on the branch header.",
  design="DESIGN.md §3 C09"),
 "C11": dict(
  technique="exhaustive grid enumeration of the split arithmetic plus explicit-state exploration (DFS, digest dedup) of liquidate/transfer/redeem/time sequences on the real msg servers with conservation and shadow-world no-early-unlock oracles in every state",
  engine="E1",
  text="Pure part: SubtractAmountFromPeriods on every period list with <=3 periods, amounts 0..4 (thorough 0..6), optional second denomination and every subtrahend 0..total+1; CurrentPeriodShift at every integer time. Stateful part: every sequence <= 3 (thorough 4) of liquidate (amount classes 1/half/all/all+1, to self or another holder), liquid-token transfer, redeem (to self / plain account / another vesting account with earlier or later start) and time jumps; in every state module backing == liquid supply, schedule sum == supply per denom, exact debit/credit per step, account+denom schedule == original schedule after a split, and total locked(t') >= locked in the world where nothing was liquidated for all future event and end times, with every account's locked amount asked of the account object itself (GetLockedUpCoins).",
  note="Messages through the msg-service router; block time set on the branch header; liquid tokens moved by ConvertERC20 + bank send; small integer amounts with minimum liquidation amount parameter set to 1.",
  design="DESIGN.md §3 C11"),
 "C18": dict(
  technique="exhaustive cartesian-grid enumeration of signed transactions through the real wrap / Cosmos-encode / decode / unwrap pipeline with field-by-field and derived-figure comparison",
  engine="E3",
  text="Every combination of boundary field values (nonce, gas, price/tip/cap incl. 0 and 2^256-1, to nil/address/zero, value, data up to 4 KiB, access-list shapes, chain id incl. unprotected legacy, two signing keys) for the three transaction types (~56k signed transactions, thorough more) goes through FromEthereumTx -> ValidateBasic -> BuildTx -> TxEncoder -> TxDecoder -> GetMsgs -> AsTransaction. Hash, binary encoding, recovered sender, every field incl. V,R,S, msg.Hash, envelope fee/gas and Fee/Cost/EffectiveGasPrice/EffectiveFee/EffectiveCost over 6 base fees are compared with go-ethereum; ValidateBasic's verdict is compared with a reference predicate.",
  note="Trusted: go-ethereum's transaction type as the reference for hash/sender/cost; the grid, not arbitrary values.",
  design="DESIGN.md §3 C18"),
 "C03": dict(
  technique="bounded exhaustive exploration of post-signing mutations and submission orders through the real DeliverTx on branches of the deliver state, judged by a reference automaton (sequence number + validly signed payload set)",
  engine="E1",
  text="For seven transaction kinds (eth legacy / access-list / dynamic-fee, Cosmos DIRECT, Cosmos LEGACY_AMINO_JSON, legacy EIP-712 with Web3Tx extension, EIP-712-signed sign doc) every single-field mutation applied after signing (tx fields, signature values incl. malleated s and flipped v, chain id, Cosmos envelope fields, signer info, extension options, sign-doc account number / foreign key) is delivered, each followed by the untouched original; every order <= 3 (thorough 4) over {t(n), t(n+1), t(n+1) and t(n) signed for another chain id, t(n+2), mutated t(n)} is delivered; and every multi-message Ethereum envelope of <= 3 (thorough 4) messages drawn from two senders' {current nonce, next nonce} plus a message signed for another chain id and (legacy) one without chain id. Accepted iff validly signed for the current sequence; accepted transactions advance the sequence by exactly one and transfer exactly once.",
  note="DeliverTx only (CheckTx uses the same ante chain on a state the harness does not branch). Base fee enabled in the fixture so dynamic-fee txs are admissible. Only-if direction; acceptance of every valid kind is required as a vacuity guard.",
  design="DESIGN.md §3 C03"),
 "C06": dict(
  technique="exhaustive enumeration of message forests and extension-option lists through the real DeliverTx (real ante chain) on branches, judged by an independent tree predicate plus state inspection",
  engine="E1",
  text="All ordered message forests with <= 4 (thorough 5) nodes over {authz exec wrapper, bank send, MsgEthereumTx, grant of a blocked type (eth tx / SDK vesting account), grant of an allowed type, packed unregistered vesting message}, exec chains of depth 1..9 and sibling rows of width 6..8 across the nesting cap, crossed with 29 extension-option lists (EthereumTx, Web3Tx, DynamicFeeTx, unknown; pairs; non-critical) — ~90k transactions (quick) correctly signed wherever the route allows. Where the reference predicate says 'must reject' the response code must be non-zero and recipient balance, blocked grants and signer sequence must be untouched.",
  note="Exec wrappers name the signer as grantee (no stored grants needed). Shapes whose legacy EIP-712 typed data cannot be built are delivered with an unsigned Web3Tx option. Only rejections demanded by the statement are required.",
  design="DESIGN.md §3 C06"),
 "C07": dict(
  technique="exhaustive grid enumeration of fee/gas parameters through the real DeliverTx on branches against math/big reference arithmetic and hand-computed EVM gas constants",
  engine="E1",
  text="7 (thorough 10) fee-market fixtures (base fee disabled/7/1e9; min gas price 0/below/equal/fractional; multiplier 0/0.5/1) x {legacy, access-list, dynamic-fee, two-message eth with every ordered pair of prices, Cosmos, Cosmos+DynamicFee option} x gas limits x prices around the floor (floor-1, floor, floor+1, base-1, ...) x tips x {transfer, refund-earning SSTORE clear, revert, out of gas}: acceptance implies fee >= ceil(mgp x gasLimit) and feeCap >= baseFee, for every message of an envelope on its own; for executed eth txs gasUsed = max(EVM gas after refunds, floor(mult x limit)) <= limit, sender pays exactly value + gasUsed x effectivePrice, the collector receives exactly that, response GasUsed/GasWanted agree.",
  note="EVM gas of the four fixed programs is computed by hand from the yellow-paper schedule. Declared fee is what the acceptance clause is checked against (deducted < floor on the Cosmos route is an observation). DeliverTx only.",
  design="DESIGN.md §3 C07"),
 "C16": dict(
  technique="explicit-state exploration of base states (DFS, digest dedup) with an exhaustive fork differential in every state: precompile call vs native message, both through the real DeliverTx, all persistent stores diffed",
  engine="E1",
  text="Base states = every sequence <= 2 (thorough 3) of native delegate / undelegate / redelegate / set-withdraw-address / block boundary (rewards accrue through coinomics). In each state ~205 precompile calls (staking delegate, undelegate, redelegate, cancelUnbondingDelegation, createValidator with 9 argument cases; distribution setWithdrawAddress, withdrawDelegatorRewards, claimRewards, withdrawValidatorCommission signed by a validator's operator; ics20.transfer over the loopback channel with valid / unknown channels, denominations, amounts, timeouts; validators valid/unknown/malformed; amounts 0, 1, mid, all, all+1, 2^256-1; creation heights) are executed by the owner as an Ethereum transaction on one branch and as the corresponding Cosmos transaction on another: success/failure must agree and every persistent store must be identical (EVM-side artefacts whitelisted: precompile account record, account-number counter, signer sequence). Read-only staking methods (delegation, unbondingDelegation, validator, validators over 4 statuses x 4 page requests, redelegation, redelegations) and the bank methods are compared with the modules' own state / the native querier through the public eth_call entry point.",
  note="Gas price 0. Query outputs are checked for containing the module's figures in the native order and for their counts.",
  design="DESIGN.md §3 C16"),
 "C05": dict(
  technique="exhaustive enumeration of a bounded call-tree family, each tree synthesised as EVM bytecode and executed twice through the real DeliverTx (as is / with the failing frames switched off by a storage switch in identical code) with a diff of all persistent stores, logs and supply; plus a model-checked re-entry family",
  engine="E1",
  text="All call trees over {root, child (thorough: grandchild)} x endings {STOP, REVERT, INVALID} per frame x child caught/bubbled x attached value x one precompile leaf (staking delegate for signer / for itself, undelegate, approve; distribution setWithdrawAddress, withdrawDelegatorRewards; ics20.transfer; read-only bank.totalSupply by CALL and STATICCALL, staking.validator by STATICCALL; or none) at every position: 1149 trees (thorough ~3500). A = the program; B = same bytecode with the frames that fail in A made to revert at entry. Revert-leaves-no-trace iff A == B on every persistent store, receipt logs and supply, and A == pre-state (but the nonce) when the top frame fails. Receipt logs are compared as (index, address, topic) lists: every frame logs before and after its items with its own topics. A second family re-enters one parametric contract up to 2 (thorough 3) times with every combination of slot / value (incl. clearing a committed slot) / outcome / attached value and checks final storage and balances against a surviving-calls-only model. A third family lets the contract also SELFDESTRUCT, directly or through a wrapper that survives or reverts: all 584 sequences <= 3 over 8 calls, checked for existence of the contract, storage, four balances and supply against the surviving calls (classic self-destruct semantics).",
  note="Gas price 0. Child frames get a fixed gas allowance so INVALID endings do not starve the parent. The ICS-20 leaf runs over the loopback channel.",
  design="DESIGN.md §3 C05"),
 "C02": dict(
  technique="exhaustive scenario grid, each scenario synthesised as EVM bytecode and run through the real DeliverTx on a branch, compared with a native replay (bank sends + the module's own message) on a sibling branch; supply invariant on every scenario",
  engine="E1",
  text="Grid: topology {EOA->precompile, EOA->contract->precompile, EOA->contract->contract->precompile} x value attached per hop x {staking.delegate for the signer or for the calling contract with amount 1/mid/all/all+1, staking.undelegate, distribution.withdrawDelegatorRewards, claimRewards, setWithdrawAddress, ics20.transfer for the signer or the calling contract over the loopback channel} x pre-state {pending rewards, withdraw address elsewhere, no rewards, contract-as-delegator with rewards} x journal-dirty set {none, signer, withdrawer} (639 scenarios) plus control scenarios (value chains, failing hop, self-destruct to other / to self) and the self-destruct family of C05 (584 programs with reverted / repeated self-destructs of a dirty contract). Oracles: total supply unchanged (self-destruct: exactly minus what the destroyed contract still held); bank, staking, distribution and ibc stores equal to the native replay; success/failure agree. Every clean scenario is run once more with a gas price of 1 gwei: same verdict, supply unchanged, bank store equal to the run at price 0 except that the signer paid exactly gasUsed x price to the fee collector.",
  note="Fee arithmetic itself is C07; here the priced run only demands that the fee is the sole difference. Contract callers hold generic staking grants and a transfer authorization from the signer. Frames that revert are C05's subject.",
  design="DESIGN.md §3 C02"),
 "C04": dict(
  technique="exhaustive identity-matrix grid of synthesised call trees through the real DeliverTx with a frame rule on account snapshots, plus explicit-state exploration (DFS, digest dedup) of allowance histories with a per-step allowance rule",
  engine="E1",
  text="Part A: {signer directly, contract, nested contract} x 16 state-changing staking / distribution / ICS-20 / authorization methods x named account {signer, calling contract, third party, other contract} x grant state {none, signer->caller, third->caller, both}, and where the third party is named also its withdraw address {own, the caller, the signer} (634 scenarios): after the transaction, funds, stake, unbonding entries, pending rewards, withdraw address and granted authorizations of every account other than the signer and the immediate caller must be unchanged (funds may grow), and staking effects on the signer from a contract need a grant. Part B: every sequence <= 3 (thorough 4) over approve / increaseAllowance / decreaseAllowance / revoke / native grant with validator allow-list or of another message type / spend via a contract to two validators with 4 amounts, failure bubbled or swallowed / jump past expiry: a delegation for the signer happens only under a live grant covering validator and amount, a limited grant is reduced by exactly the amount (deleted at 0), and authorization methods do exact arithmetic. Part C: the same exploration over ICS-20 allowance histories on two channels (approve channel-0:10 or channel-0:10 + channel-1:5, increase / decrease 3|all|100 per channel, revoke, transfer via a contract per channel for 3 amounts with failure bubbled or swallowed, expiry jump) with the escrow accounts as spend witness: an allowance change or a spend touches only the allocation of its own channel, a change for a channel without allocation fails, a transfer of the signer's coins from a contract needs a live grant covering channel and amount, reduces the allocation by exactly the amount and leaves the expiry alone. Thorough: depth 5.",
  note="Gas price 0. ICS-20 runs over transfer channel ends written on ibc-go's localhost connection. No ERC-20 precompile is active at this commit.",
  design="DESIGN.md §3 C04"),
 "C08": dict(
  technique="explicit-state exploration: exhaustive enumeration of all operation sequences <= depth per schedule fixture through the real DeliverTx on branches, with an independent step-function reference of the locked amount evaluated after every successful transaction",
  engine="E1",
  text="3 (thorough 5) lockup/vesting schedule fixtures (vested-but-locked and unlocked-but-unvested windows included) x every sequence <= 3 (thorough 4, exhaustive with state dedup: all stores + block time + reference model) over 60 operations: spend attempts on 9 paths (bank send, multi-send, EVM value transfer, transfer forwarded by a contract, fee payment, DAO funding, governance deposit, ICS-20 transfer by message, ICS-20 transfer through the precompile) x {1, spendable, spendable+1, whole balance}; delegation by message / by authz exec / through the staking precompile x {1, max delegatable, max+1}; undelegation; block boundary with unbonding completion; 50% slash; clawback; a second, partly vested grant with automatic staking (MsgConvertIntoVestingAccount stake=true); conversion back to a plain account (MsgConvertVestingAccount); block-time jumps to every schedule event +-1. After every successful non-delegation transaction that lowered the balance, balance >= max(original - unlockedVested - trackedDelegated, unvested) computed from the grant parameters; every successful delegation <= balance - unvested; tracked delegation bounded by the reference's own counter; an account conversion succeeds only when nothing is unvested or locked, and the locked amount stays owed whatever the account type.",
  note="Zero gas prices (explicit fee operation instead). ERC-20 conversion is not in this alphabet (the vesting denomination of the fixtures is the staking/EVM denomination, which cannot be a token pair); liquidation moves locked coins by design and is C11's subject.",
  design="DESIGN.md §3 C08"),
 "C01": dict(
  technique="bounded-exhaustive enumeration of block histories, each executed on a reference node and replayed on independently constructed replicas under enumerated nondeterminism policies (forced map-iteration seed, shifted wall clock, interleaved CheckTx/queries, construction order), all ABCI responses and app hashes compared",
  engine="E2",
  text="1183 histories (quick): every template of a 23-template alphabet (bank, multi-denomination, EVM transfer / create / a call dirtying 5 slots and 4 fresh accounts in unsorted order / bank-precompile query from a contract, staking and distribution precompiles, staking messages, clawback vesting account with two denominations, a grant with automatic staking, a vesting account spending through the EVM three times, DAO fund in two denominations / ratio transfer, liquidation with token-pair registration, ERC20 conversion, ERC20 transfer and ERC20 sent to the module address, full redeem, failing transactions, double-sign evidence, downtime) alone, every ordered pair in consecutive blocks and in one block; four governance flows that really pass (EVM params, fee-market params, ERC20 params, token-pair toggle) alone and followed by every template once in effect; six life-cycle chains (switch off, use, switch on, use; two day-epoch boundaries 24 h apart); thorough adds pairs across a 30-day gap and all triples. The concrete blocks recorded on the reference node are replayed on 7 (thorough 23, triples 7) fresh replicas whose Go map iteration is forced (runtime overlay) to a distinct start bucket/offset, with time.Now shifted by 400 days, CheckTx/gRPC queries interleaved between ABCI calls (including eth_call / estimateGas that execute the EVM at the latest and at old heights, old heights first on some replicas) and a second app object constructed first. DeliverTx (code, data, gas, events, log), EndBlock (validator / consensus-param updates), BeginBlock events and Commit app hash must be identical; divergences are attributed by re-running with the sources separated.",
  note="One forced random word for all maps at a time. Validator set of 2. ABCI level (no consensus engine). The DeliverTx log is compared up to its first line break (SDK errors formatted with %+v append the process call stack; ABCI declares the log non-deterministic).",
  design="DESIGN.md §3 C01"),
 "C20": dict(
  technique="bounded-exhaustive enumeration of block histories x every block boundary as a restart point (crash-point enumeration), restarted replica compared call by call with a never-stopped reference node",
  engine="E2",
  text="301 histories (quick; thorough ~1700): every base template alone, a third (thorough: all) of ordered pairs, governance flows that really pass and execute (EVM params: EnableCreate off and one precompile deactivated; fee-market params with a base-fee activation height; ERC20 params; token-pair conversion toggle) alone and followed by every base template once in effect, and six life-cycle chains: five of 5-6 steps in which a switch is turned off and on again with uses in between (token pair, ERC20 hook, EVM params, fee market), and one crossing two day-epoch boundaries 24 h apart. For EVERY boundary k of every history a replica is stopped after Commit k and a new Haqq is constructed on the database (same DB / key-by-key copy / twice). Compared with the reference: Info() height and app hash, a battery of 27 gRPC queries after every commit, every later ABCI response and app hash.",
  note="MemDB kept across the restart; torn writes inside a commit are not modelled. Software-upgrade plans cannot be exercised (the upgrade module panics by design for a scheduled plan whose handler is already in the binary).",
  design="DESIGN.md §3 C20"),
 "C14": dict(
  technique="explicit-state exploration: exhaustive enumeration of event sequences <= depth on virtual blocks (real BeginBlock/EndBlock) with a conservation oracle around every block boundary",
  engine="E1",
  text="From a fixture with bonded, unbonding and redelegating stake on two validators and a community pool holding a non-integer amount in two denominations (an odd amount of fees was distributed with a 2% community tax): every sequence <= 3 (thorough 4) over double-sign evidence for either validator (early infraction height, so unbonding and redelegation entries are slashed too), a 7-block downtime window, delegate / undelegate / redelegate, a vetoed proposal, a proposal without quorum and an under-funded proposal (deposits in two denominations, all three burn flags on), and plain blocks. Around every block boundary: supply of both denominations unchanged; the coins that left the bonded pool, not-bonded pool and gov account without reaching an account equal the growth of the community pool and of the distribution module account; every registered invariant holds.",
  note="Coinomics off, no fees after the fixture's one distribution. 'Burned' is derived by conservation, not from implementation figures. Virtual block boundary.",
  design="DESIGN.md §3 C14"),
 "C15": dict(
  technique="bounded-exhaustive enumeration of block histories executed with real blocks; every registered invariant evaluated on the committed state after every block",
  engine="E2",
  text="1711 histories (quick): every template alone, every ordered pair in consecutive blocks and in one block over 29 templates (bank, EVM incl. contract creation and multi-account dirtying, staking / distribution precompiles, staking messages, clawback vesting, DAO, liquidation + token-pair registration, ERC20 conversion / transfer / transfer to the module address, full redeem, failing transactions, double-sign evidence, downtime, four governance flows with deposits, and two adversarial templates: coins pushed at the bonded / not-bonded / distribution / gov module accounts by MsgSend, MsgMultiSend with one and two outputs, a foreign denomination and EVM value; a governance deposit in two denominations burnt after a veto); thorough adds all triples of base templates. After each of the ~7700 commits all 12 crisis-keeper invariant routes (bank supply / non-negative, staking pools / shares / power, distribution can-withdraw / reference-count / module-account, gov module-account) are evaluated.",
  note="Invariants are evaluated between blocks on committed state. The E1 drivers C14 and C19 evaluate the same routes in their own states.",
  design="DESIGN.md §3 C15"),
 "C19": dict(
  technique="bounded-exhaustive enumeration of block histories, each followed by an export -> InitChain on a fresh node -> export cycle with a leaf-by-leaf diff of the two genesis documents, a query battery and invariants",
  engine="E2",
  text="233 histories (quick): idle chain, every template (23 base + 4 governance flows) alone exported after settling and exported right after its block, a quarter (thorough: all) of ordered pairs plus curated pairs whose second step consumes what the first created (liquidate then full redeem / convert / liquidate again, delegate then undelegate, ...), the six life-cycle chains exported after (every second; thorough: every) block, thorough: one chain of all templates. A's export is imported into a fresh Haqq by real InitChain + Commit, exported again and the two JSON documents are compared leaf by leaf (per module / field); 27 gRPC queries plus by-key queries for every token pair (by denomination and by contract), liquid denomination and DAO holder of the exporting node are compared on both nodes; each named module's exported state must pass its own ValidateGenesis; all invariants must hold on the imported node.",
  note="ibc 09-localhost latest_height is the exporting height by definition and is excluded from the equality. ValidateGenesis of third-party modules (ibc's connection-localhost) is not demanded. A history that empties the validator set (halted chain) is skipped and counted.",
  design="DESIGN.md §3 C19"),
 "C10": dict(
  technique="explicit-state exploration (DFS, state-digest dedup with the model's counters in the digest): exhaustive enumeration of conversion and IBC sequences <= depth over six token pairs on the real msg servers, DeliverTx and IBC handlers, backing invariants in every state and an exact-or-nothing step oracle",
  engine="E1",
  text="Fixture: one coin-origin pair (module-owned ERC20 deployed by RegisterCoin) and four ERC20-origin pairs: an honest ERC20MinterBurnerDecimals, the repository's ERC20MaliciousDelayed and ERC20DirectBalanceManipulation (deployed from their shipped bytecode and registered by RegisterERC20) and a synthesised token that emits Transfer(x, module, n) logs without moving balances. Every sequence <= 3 (thorough 4) over 63 operations: convertCoin / convertERC20 x {1, half, all, all+1}, ERC20 transfer to the module address (hook path), bank send of the paired denomination (wrapper), pair toggle, holder burn. In every state: coin-origin ERC20 supply <= escrowed coins and escrow - supply == holder burns; ERC20-origin coin supply <= tokens escrowed by the module. Every operation moves exactly the amount between the two representations or changes nothing. Part B (IBC legs): a sixth pair is registered for the IBC voucher of the coin-origin denomination; every sequence <= 4 (thorough 5) over 30 operations - ibcSend of {coin-origin, voucher going home, ERC20-origin} x {1, all of coins+tokens, all+1} to a valid or garbage receiver (real MsgTransfer wrapper: ERC20 -> coin before sending), ibcRecv (erc20 middleware: coin -> ERC20 on arrival), ack, timeout (refund, then coin -> ERC20), conversions of both users, pair toggles: sender debited / recipient credited / refunded by exactly the amount across both representations, every rejected step changes nothing, backing invariants in every state. A second IBC family (B2) runs the same legs over the two misbehaving tokens, with hook-path deposits, a send of exactly the coin balance, and the transferFrom of the third party the malicious token approves on every transfer.",
  note="IBC legs loop packets back to the same chain over two channel ends written on ibc-go's localhost connection; one packet in flight at a time. A transfer to the module address of a disabled pair is let through by design and only over-collateralises (observation).",
  design="DESIGN.md §3 C10"),
}

PENDING = {}

def main():
    props = [json.loads(l) for l in open(os.path.join(ROOT, "properties.jsonl"))]
    checks, na = [], []
    for p in props:
        pid = p["id"]
        if pid in CHECKS:
            c = CHECKS[pid]
            checks.append({
                "property_id": pid,
                "quick_cmd": f"./check {pid} quick",
                "thorough_cmd": f"./check {pid} thorough",
                "evidence_file": f"/verif/evidence/{pid}.json",
                "replay_cmd_template": f"./check --replay {pid} {{path}}",
                "engine": c["engine"],
                "level_claimed": {"category": "model_checking", "text": c["text"], "design_ref": c["design"]},
                "level_note": c["note"],
                "technique": c["technique"],
            })
        else:
            na.append({"property_id": pid, "reason": PENDING.get(pid, "check not built yet in this round (model checking applies; see DESIGN.md §3) — not claimed until its driver exists")})
    m = {
        "version": 1,
        "setup_cmd": "./setup.sh",
        "hooks": {
            "guard": "verif",
            "enable": "no source hooks in /repo: checks build /repo's working tree through a harness module (replace => /repo) with `go build -overlay build/overlay.json`, which patches only Go runtime/time and cosmos-sdk baseapp files outside /repo (generated by overlay/gen.py)",
            "baseline_off_cmd": "cd /repo && GOFLAGS=-mod=mod GOPROXY=off GOSUMDB=off go test -vet=off -count=1 -timeout 25m ./...",
            "source_commits": [],
            "add_only": True,
        },
        "engines": [
            {"name": "E1", "path": "harness/engine/engine.go", "serves_properties": sorted(k for k, v in CHECKS.items() if v["engine"] == "E1"),
             "kind_free_text": "hand-written explicit-state explorer: depth-bounded DFS with iterative deepening and canonical store-digest dedup over branches of the real baseapp deliver state; transitions are real msg-server / DeliverTx / EVM / Begin/EndBlocker calls"},
            {"name": "E2", "path": "harness/engine/replica.go", "serves_properties": sorted(k for k, v in CHECKS.items() if v["engine"] == "E2"),
             "kind_free_text": "replayed-ABCI replica runner: every bounded block history is replayed on fresh apps under every enumerated nondeterminism policy (map iteration seed, wall-clock offset, restart point, query noise, construction order) and compared response-by-response"},
            {"name": "E3", "path": "harness/engine/grid.go", "serves_properties": sorted(k for k, v in CHECKS.items() if v["engine"] == "E3"),
             "kind_free_text": "exhaustive cartesian-grid enumeration of pure functions against math/big reference models"},
        ],
        "checks": checks,
        "not_applicable": na,
        "notes": "All checks: ./check <id> quick|thorough. Known findings: known_findings.json. Seeded property-breaking changes: seeded/.",
    }
    json.dump(m, open(os.path.join(ROOT, "MANIFEST.json"), "w"), indent=1)
    print("MANIFEST.json:", len(checks), "checks,", len(na), "not claimed")

if __name__ == "__main__":
    main()
