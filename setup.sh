#!/bin/bash
# Run once after a fresh restore (offline): generate the overlay from the installed Go / SDK
# sources (anchors asserted) and pre-build the harness binary so that checks only relink.
set -e
ROOT="$(cd "$(dirname "$0")" && pwd)"
export GOFLAGS=-mod=mod GOPROXY=off GOSUMDB=off GOTOOLCHAIN=local
mkdir -p "$ROOT/build/tmp" "$ROOT/bin" "$ROOT/evidence"
python3 "$ROOT/overlay/gen.py"
"$ROOT/check" --build
echo "setup done"
