#!/bin/bash
# ./confirm_seed.sh <seed-dir> <demo-dest-path-in-repo> <go test pkg pattern for demo> <run-regex> [extra test pkgs...]
# Confirms in a scratch worktree: demo fails with the patch and passes without; existing tests of
# the given packages still pass with the patch.  Writes <seed-dir>/confirm.log
set -u
export GOFLAGS=-mod=mod GOPROXY=off GOSUMDB=off GOTOOLCHAIN=local
D="$1"; DEST="$2"; PKG="$3"; RUN="$4"; shift 4
WT=/tmp/wt-confirm-$$
git -C /repo worktree add --detach -q "$WT" HEAD || exit 2
LOG="$D/confirm.log"; : > "$LOG"
cd "$WT"
cp "$D/demo_test.go" "$DEST"
echo "== demo WITHOUT patch (expect PASS)" >> "$LOG"
go test -vet=off -count=1 "$PKG" -run "$RUN" ${SEED_EXTRA:-} >> "$LOG" 2>&1; a=$?
git apply "$D/patch.diff" || { echo "patch failed" >> "$LOG"; git -C /repo worktree remove --force "$WT"; exit 2; }
echo "== demo WITH patch (expect FAIL)" >> "$LOG"
go test -vet=off -count=1 "$PKG" -run "$RUN" ${SEED_EXTRA:-} >> "$LOG" 2>&1; b=$?
rm -f "$DEST"
echo "== existing tests WITH patch (expect PASS): $*" >> "$LOG"
go build ./... >> "$LOG" 2>&1; c0=$?
if [ "${1:-}" = "ALL" ]; then
  # whole suite; the only failure tolerated is the one that also fails on the untouched tree
  go test -vet=off -count=1 -p 6 -timeout 25m ./... 2>&1 | grep -v "no test files" | grep -v "^ok" > "$D/suite.log"
  grep -E "^(--- FAIL|FAIL|panic)" "$D/suite.log" | grep -v "TestInitConfigNonNotExistError" | grep -v "^FAIL$" | grep -v "haqq/client[[:space:]]" | grep -v "precompiles/p256" | grep -v "^--- FAIL: TestPrecompileTestSuite" > "$D/suite.unexpected"
  cat "$D/suite.unexpected" >> "$LOG"
  if [ -s "$D/suite.unexpected" ]; then c=1; else c=0; fi
  rm -f "$D/suite.unexpected" "$D/suite.log"
else
  go test -vet=off -count=1 -p 4 "$@" 2>&1 | grep -v "no test files" >> "$LOG"; c=${PIPESTATUS[0]}
fi
cd /; git -C /repo worktree remove --force "$WT"
echo "RESULT demo_without=$a demo_with=$b build=$c0 tests_with=$c" | tee -a "$LOG"
[ $a -eq 0 ] && [ $b -ne 0 ] && [ $c0 -eq 0 ] && [ $c -eq 0 ]
