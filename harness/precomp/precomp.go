// Package precomp gives the drivers the precompiles' own ABIs (taken from the instances the
// repository constructs, i.e. from its embedded abi.json files) and their addresses.
package precomp

import (
	"github.com/ethereum/go-ethereum/accounts/abi"
	"github.com/ethereum/go-ethereum/common"

	evmkeeper "github.com/haqq-network/haqq/x/evm/keeper"
	bankprecompile "github.com/haqq-network/haqq/precompiles/bank"
	distprecompile "github.com/haqq-network/haqq/precompiles/distribution"
	ics20precompile "github.com/haqq-network/haqq/precompiles/ics20"
	stakingprecompile "github.com/haqq-network/haqq/precompiles/staking"

	"verif/harness/world"
)

var (
	StakingAddr = common.HexToAddress("0x0000000000000000000000000000000000000800")
	DistrAddr   = common.HexToAddress("0x0000000000000000000000000000000000000801")
	ICS20Addr   = common.HexToAddress("0x0000000000000000000000000000000000000802")
	BankAddr    = common.HexToAddress("0x0000000000000000000000000000000000000804")
)

type ABIs struct {
	Staking, Distr, ICS20, Bank abi.ABI
}

// Load instantiates the precompiles exactly as app.NewHaqq does and returns their ABIs.
func Load(w *world.World) ABIs {
	m := evmkeeper.AvailablePrecompiles(w.ChainID, w.App.StakingKeeper, w.App.DistrKeeper, w.App.BankKeeper, w.App.Erc20Keeper,
		w.App.VestingKeeper, w.App.AuthzKeeper, w.App.TransferKeeper, w.App.IBCKeeper.ChannelKeeper)
	var out ABIs
	out.Staking = m[StakingAddr].(*stakingprecompile.Precompile).ABI
	out.Distr = m[DistrAddr].(*distprecompile.Precompile).ABI
	out.ICS20 = m[ICS20Addr].(*ics20precompile.Precompile).ABI
	out.Bank = m[BankAddr].(*bankprecompile.Precompile).ABI
	return out
}

func MustPack(a abi.ABI, method string, args ...interface{}) []byte {
	bz, err := a.Pack(method, args...)
	if err != nil {
		panic(method + ": " + err.Error())
	}
	return bz
}
