package main

import "verif/harness/props/c15"

func init() { drivers["C15"] = driver{Run: c15.Run, Worker: c15.Worker} }
