package main

import "verif/harness/props/c20"

func init() { drivers["C20"] = driver{Run: c20.Run, Worker: c20.Worker} }
