package main

import "verif/harness/props/c05"

func init() { drivers["C05"] = driver{Run: c05.Run, Worker: c05.Worker} }
