package main

import "verif/harness/props/c11"

func init() { drivers["C11"] = driver{Run: c11.Run, Worker: c11.Worker, Replay: c11.Replay} }
