package main

import "verif/harness/props/c19"

func init() { drivers["C19"] = driver{Run: c19.Run, Worker: c19.Worker} }
