package main

import "verif/harness/props/c14"

func init() { drivers["C14"] = driver{Run: c14.Run, Worker: c14.Worker} }
