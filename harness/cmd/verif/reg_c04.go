package main

import "verif/harness/props/c04"

func init() { drivers["C04"] = driver{Run: c04.Run, Worker: c04.Worker} }
