package main

import "verif/harness/props/c16"

func init() { drivers["C16"] = driver{Run: c16.Run, Worker: c16.Worker} }
