package main

import "verif/harness/props/c10"

func init() { drivers["C10"] = driver{Run: c10.Run, Worker: c10.Worker} }
