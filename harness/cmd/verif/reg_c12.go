package main

import "verif/harness/props/c12"

func init() { drivers["C12"] = driver{Run: c12.Run, Worker: c12.Worker, Replay: c12.Replay} }
