package main

import "verif/harness/props/c18"

func init() { drivers["C18"] = driver{Run: c18.Run, Worker: c18.Worker} }
