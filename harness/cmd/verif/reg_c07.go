package main

import "verif/harness/props/c07"

func init() { drivers["C07"] = driver{Run: c07.Run, Worker: c07.Worker} }
