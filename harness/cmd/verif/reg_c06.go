package main

import "verif/harness/props/c06"

func init() { drivers["C06"] = driver{Run: c06.Run, Worker: c06.Worker} }
