package main

import "verif/harness/props/c08"

func init() { drivers["C08"] = driver{Run: c08.Run, Worker: c08.Worker} }
