package main

import "verif/harness/props/c09"

func init() { drivers["C09"] = driver{Run: c09.Run, Worker: c09.Worker, Replay: c09.Replay} }
