package main

import "verif/harness/props/c17"

func init() { drivers["C17"] = driver{Run: c17.Run, Worker: c17.Worker} }
