package main

import "verif/harness/props/c02"

func init() { drivers["C02"] = driver{Run: c02.Run, Worker: c02.Worker} }
