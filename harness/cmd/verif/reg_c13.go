package main

import "verif/harness/props/c13"

func init() { drivers["C13"] = driver{Run: c13.Run, Worker: c13.Worker, Replay: c13.Replay} }
