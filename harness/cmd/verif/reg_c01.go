package main

import "verif/harness/props/c01"

func init() { drivers["C01"] = driver{Run: c01.Run, Worker: c01.Worker} }
