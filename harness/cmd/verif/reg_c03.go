package main

import "verif/harness/props/c03"

func init() { drivers["C03"] = driver{Run: c03.Run, Worker: c03.Worker} }
