// Command verif is the single entry point of the /verif model-checking harness.
//
//	verif run <prop> <quick|thorough>
//	verif worker <prop> <tier> <shard> <n> <outfile>
//	verif replay <prop> <file>
package main

import (
	"encoding/json"
	"fmt"
	"os"
	"strconv"
	"strings"

	"verif/harness/engine"
)

type driver struct {
	Run    func(tier string) int
	Worker engine.ShardFunc
	Replay func(v engine.Violation) []string
}

var drivers = map[string]driver{}

func main() {
	if len(os.Args) < 3 {
		fmt.Fprintln(os.Stderr, "usage: verif run|worker|replay <prop> ...")
		os.Exit(2)
	}
	prop := strings.ToUpper(os.Args[2])
	d, ok := drivers[prop]
	if !ok {
		fmt.Fprintln(os.Stderr, "unknown property", prop)
		os.Exit(2)
	}
	switch os.Args[1] {
	case "run":
		tier := "quick"
		if len(os.Args) > 3 {
			tier = os.Args[3]
		}
		os.Exit(d.Run(tier))
	case "worker":
		shard, _ := strconv.Atoi(os.Args[4])
		n, _ := strconv.Atoi(os.Args[5])
		engine.WriteWorkerResult(os.Args[6], d.Worker(shard, n, os.Args[3]))
	case "replay":
		bz, err := os.ReadFile(os.Args[3])
		if err != nil {
			fmt.Fprintln(os.Stderr, err)
			os.Exit(2)
		}
		var v engine.Violation
		if err := json.Unmarshal(bz, &v); err != nil {
			fmt.Fprintln(os.Stderr, err)
			os.Exit(2)
		}
		if d.Replay == nil {
			d.Replay = genericReplay(d)
		}
		var sigs []string
		if v.ReplayMode == "exploration-order" {
			vs, err := engine.RerunShard(prop, v.Tier, v.Shard, v.NShards)
			if err != nil {
				fmt.Fprintln(os.Stderr, err)
				os.Exit(2)
			}
			for _, x := range vs {
				if strings.Join(x.Path, "|") == strings.Join(v.Path, "|") {
					sigs = append(sigs, x.Signature)
				}
			}
		} else {
			sigs = d.Replay(v)
		}
		fmt.Println("observed signatures:", sigs)
		for _, s := range sigs {
			if s == v.Signature {
				fmt.Printf("VIOLATION property=%s replay=%s\n", prop, os.Args[3])
				os.Exit(1)
			}
		}
		fmt.Println("violation not reproduced")
	default:
		os.Exit(2)
	}
}

// genericReplay re-executes the recorded scenario / operation path of a violation on a fresh
// fixture, without the exploration around it: explorers follow only that path, scenario
// enumerations run only the scenario with that description (drivers that have no such filter
// re-run their enumeration in this process, which is the same code the check runs).
func genericReplay(d driver) func(v engine.Violation) []string {
	return func(v engine.Violation) []string {
		// leading "schedule=..." / "fixture=..." elements name the fixture, not an operation
		engine.ReplayPath = []string{}
		for i, el := range v.Path {
			if i == 0 && (strings.HasPrefix(el, "schedule=") || strings.HasPrefix(el, "fixture=")) && len(v.Path) > 1 && !strings.Contains(v.Path[1], " gas=") {
				continue
			}
			engine.ReplayPath = append(engine.ReplayPath, el)
		}
		seen := map[string]bool{}
		var sigs []string
		for _, tier := range []string{"quick", "thorough"} {
			res := d.Worker(0, 1, tier)
			for _, x := range res.Violations {
				if !seen[x.Signature] {
					seen[x.Signature] = true
					sigs = append(sigs, x.Signature)
				}
			}
			if seen[v.Signature] {
				break
			}
		}
		return sigs
	}
}
