// Package replica is engine E2: bounded block histories over a transaction-template alphabet are
// executed for real (InitChain / BeginBlock / DeliverTx / EndBlock / Commit on a fresh app over a
// MemDB); the concrete history (tx bytes, timestamps, votes, evidence) recorded on the reference
// node is then replayed on independently constructed replicas under enumerated nondeterminism
// policies, and every ABCI response and app hash is compared.
package replica

import (
	"crypto/sha256"
	"encoding/hex"
	"encoding/json"
	"fmt"
	"math/big"
	"os"
	"strings"
	"time"

	sdkmath "cosmossdk.io/math"
	dbm "github.com/cometbft/cometbft-db"
	abci "github.com/cometbft/cometbft/abci/types"
	sdk "github.com/cosmos/cosmos-sdk/types"
	authtypes "github.com/cosmos/cosmos-sdk/x/auth/types"
	sdkvesting "github.com/cosmos/cosmos-sdk/x/auth/vesting/types"
	banktypes "github.com/cosmos/cosmos-sdk/x/bank/types"
	distrtypes "github.com/cosmos/cosmos-sdk/x/distribution/types"
	govtypes "github.com/cosmos/cosmos-sdk/x/gov/types"
	govv1 "github.com/cosmos/cosmos-sdk/x/gov/types/v1"
	stakingtypes "github.com/cosmos/cosmos-sdk/x/staking/types"
	"github.com/ethereum/go-ethereum/common"
	"github.com/ethereum/go-ethereum/crypto"

	"github.com/haqq-network/haqq/app"
	haqqtypes "github.com/haqq-network/haqq/types"
	coinomicstypes "github.com/haqq-network/haqq/x/coinomics/types"
	erc20types "github.com/haqq-network/haqq/x/erc20/types"
	evmtypes "github.com/haqq-network/haqq/x/evm/types"
	feemarkettypes "github.com/haqq-network/haqq/x/feemarket/types"
	lvtypes "github.com/haqq-network/haqq/x/liquidvesting/types"
	ucdaotypes "github.com/haqq-network/haqq/x/ucdao/types"
	vtypes "github.com/haqq-network/haqq/x/vesting/types"

	"verif/harness/evmasm"
	"verif/harness/nondet"
	"verif/harness/precomp"
	"verif/harness/world"
)

// ---- fixture -----------------------------------------------------------------------------------

var (
	DirtyAddr = world.ContractAddr(0x50)
	QueryAddr = world.ContractAddr(0x51)
	// BlockHashAddr: on its first call remembers the height of the previous block; on every call stores
	// BLOCKHASH(that height) in slot 0
	BlockHashAddr = world.ContractAddr(0x52)
	// ChainIDAddr returns CHAINID (what every EIP-712 domain separator reads)
	ChainIDAddr = world.ContractAddr(0x53)
	VestKey       = 50 // key index of the account that becomes a vesting account in some templates
)

func dirtyCode() []byte {
	a := evmasm.New()
	// storage writes in non-sorted slot order
	for _, s := range []uint64{7, 3, 9, 1, 5} {
		a.PushU(s + 100).PushU(s).Op(evmasm.SSTORE)
	}
	// value to four fresh addresses in non-sorted order
	for _, b := range []byte{0xdd, 0xaa, 0xcc, 0xbb} {
		var ad common.Address
		ad[0] = 0xEE
		ad[19] = b
		a.Call(evmasm.CALL, 0, ad, big.NewInt(1), 0, 0, 0, 0).Op(evmasm.POP)
	}
	a.PushU(0).PushU(0).Op(evmasm.LOG0)
	return a.Stop().Bytes()
}

func queryCode(bankCalldata []byte) []byte {
	a := evmasm.New()
	d := a.Data(bankCalldata)
	n := a.CopyDataToMem(d, 0)
	a.Call(evmasm.STATICCALL, 0, precomp.BankAddr, nil, 0, uint64(n), 0x40, 0x40)
	a.SStoreTop(1)
	a.PushU(0x60).Op(evmasm.MLOAD).SStoreTop(2) // a word of the returned data
	a.Op(evmasm.RETURNDATASIZE).SStoreTop(3)    // non-zero only if the precompile really ran
	a.PushU(0x40).Op(evmasm.MLOAD).SStoreTop(4)
	return a.Stop().Bytes()
}

type Fix struct {
	Opts world.Options
	// Battery: record Info() and the query battery after every commit in all traces.
	Battery bool
	// OnCommit, if set, is called on the reference node after every commit.
	OnCommit func(w *world.World, block int, names []string)
}

func NewFix() *Fix {
	cp := coinomicstypes.DefaultParams()
	// the bank precompile's totalSupply() selector, packed without an app instance
	bankSel := common.FromHex("0x18160ddd")
	o := world.Options{
		NumAccounts: 6, NumVals: 2, Coinomics: &cp, FastGov: true, SlashWindow: 10,
		Balance: sdkmath.NewIntFromBigInt(new(big.Int).Exp(big.NewInt(10), big.NewInt(24), nil)),
		// aLIQUID75: a second denomination the DAO accepts (a liquid-vesting style name), held from genesis
		ExtraCoins: sdk.NewCoins(sdk.NewInt64Coin("atest", 1000000), sdk.NewInt64Coin("aLIQUID75", 1000000)),
		Contracts: []world.GenesisContract{
			{Addr: DirtyAddr, Code: dirtyCode(), Balance: 1000},
			{Addr: QueryAddr, Code: queryCode(bankSel)},
			{Addr: BlockHashAddr, Code: common.FromHex("600154806010575060014303806001555b4060005500")},
			{Addr: ChainIDAddr, Code: common.FromHex("4660005260206000f3")},
		},
		// exact gas accounting (no floor at half the gas limit): a difference in gas metering between two
		// nodes shows in the responses
		FeeMarket: func() *feemarkettypes.Params {
			fm := feemarkettypes.DefaultParams()
			fm.NoBaseFee = true
			fm.MinGasPrice = sdk.ZeroDec()
			fm.MinGasMultiplier = sdk.ZeroDec()
			return &fm
		}(),
		// a short header history: what BLOCKHASH can still see is pruned within a few blocks
		Patch: func(a *app.Haqq, gs haqqtypes.GenesisState) haqqtypes.GenesisState {
			var sg stakingtypes.GenesisState
			a.AppCodec().MustUnmarshalJSON(gs[stakingtypes.ModuleName], &sg)
			sg.Params.HistoricalEntries = 3
			gs[stakingtypes.ModuleName] = a.AppCodec().MustMarshalJSON(&sg)
			return gs
		},
		UnbondingTime: 20 * time.Second,
		// 3 units of consensus power each: an undelegation or a 5% slash changes a validator's power
		// without emptying the validator set (an empty set is a halted chain, outside every property here)
		ValTokens: sdkmath.NewIntFromBigInt(new(big.Int).Mul(big.NewInt(3), new(big.Int).Exp(big.NewInt(10), big.NewInt(18), nil))),
	}
	return &Fix{Opts: o}
}

func (f *Fix) NewWorld() *world.World {
	o := f.Opts
	o.DB = dbm.NewMemDB()
	return world.New(o)
}

// ---- templates ---------------------------------------------------------------------------------

type Template struct {
	Name  string
	Build func(w *world.World, abis precomp.ABIs) [][]byte // tx bytes for the current state of the reference node
	// Steps, if set, is used instead of Build: each transaction is built right before it is
	// delivered (so that it can depend on the effects of the previous one)
	Steps []func(w *world.World, abis precomp.ABIs) []byte
	// block-level inputs instead of transactions
	Evidence bool
	Downtime bool
}

func cosmosTx(w *world.World, key int, msgs ...sdk.Msg) []byte {
	k := world.Key(key)
	bz, err := w.CosmosTx(w.Ctx(), world.CosmosSpec{Key: k, Msgs: msgs, Gas: 3000000})
	if err != nil {
		panic(err)
	}
	return bz
}

func ethTx(w *world.World, key int, to *common.Address, value int64, data []byte, gas uint64, nonceDelta uint64) []byte {
	k := world.Key(key)
	addr := sdk.AccAddress(k.PubKey().Address().Bytes())
	var nonce uint64
	if acc := w.App.AccountKeeper.GetAccount(w.Ctx(), addr); acc != nil {
		nonce = acc.GetSequence()
	}
	bz, err := world.WrapEth(w.SignEth(k, world.EthSpec{Nonce: nonce + nonceDelta, Gas: gas, To: to, Value: big.NewInt(value), GasPrice: big.NewInt(0), Data: data}))
	if err != nil {
		panic(err)
	}
	return bz
}

// liquid0 is the ERC20 contract of the first liquid denom (the zero address if there is none yet).
func liquid0(w *world.World) *common.Address {
	contract := common.Address{}
	if pair, ok := w.App.Erc20Keeper.GetTokenPair(w.Ctx(), w.App.Erc20Keeper.GetTokenPairID(w.Ctx(), "aLIQUID0")); ok {
		contract = pair.GetERC20Contract()
	}
	return &contract
}

func erc20Transfer(to common.Address, amt int64) []byte {
	out := append([]byte{0xa9, 0x05, 0x9c, 0xbb}, common.LeftPadBytes(to.Bytes(), 32)...)
	return append(out, common.LeftPadBytes(big.NewInt(amt).Bytes(), 32)...)
}

func coins(d string, n int64) sdk.Coins { return sdk.NewCoins(sdk.NewInt64Coin(d, n)) }

// Templates is the alphabet, simplest first.
func Templates() []Template {
	A := func(w *world.World, i int) sdk.AccAddress { return w.Addrs[i] }
	vestAddr := sdk.AccAddress(world.Key(VestKey).PubKey().Address().Bytes())
	return []Template{
		{Name: "bankSend", Build: func(w *world.World, _ precomp.ABIs) [][]byte {
			return [][]byte{cosmosTx(w, 1, banktypes.NewMsgSend(A(w, 1), A(w, 2), coins(world.Denom, 5)))}
		}},
		{Name: "evmTransfer", Build: func(w *world.World, _ precomp.ABIs) [][]byte {
			to := w.Eth[2]
			return [][]byte{ethTx(w, 1, &to, 7, nil, 100000, 0)}
		}},
		{Name: "multiDenomSend", Build: func(w *world.World, _ precomp.ABIs) [][]byte {
			return [][]byte{cosmosTx(w, 2, banktypes.NewMsgSend(A(w, 2), A(w, 3), coins(world.Denom, 5).Add(sdk.NewInt64Coin("atest", 3))))}
		}},
		{Name: "evmDirtyCall", Build: func(w *world.World, _ precomp.ABIs) [][]byte {
			to := DirtyAddr
			return [][]byte{ethTx(w, 1, &to, 10, nil, 1000000, 0)}
		}},
		{Name: "evmCreate", Build: func(w *world.World, _ precomp.ABIs) [][]byte {
			runtime := evmasm.New().SStore(1, 1).Stop().Bytes()
			init := evmasm.New()
			d := init.Data(runtime)
			n := init.CopyDataToMem(d, 0)
			init.PushU(uint64(n)).PushU(0).Op(evmasm.RETURN)
			return [][]byte{ethTx(w, 3, nil, 0, init.Bytes(), 1000000, 0)}
		}},
		{Name: "evmBankQuery", Build: func(w *world.World, _ precomp.ABIs) [][]byte {
			to := QueryAddr
			return [][]byte{ethTx(w, 2, &to, 0, nil, 1000000, 0)}
		}},
		{Name: "pcDelegate", Build: func(w *world.World, ab precomp.ABIs) [][]byte {
			to := precomp.StakingAddr
			return [][]byte{ethTx(w, 1, &to, 0, precomp.MustPack(ab.Staking, "delegate", w.Eth[1], w.ValAddr[0].String(), big.NewInt(1000000)), 3000000, 0)}
		}},
		{Name: "pcClaimRewards", Build: func(w *world.World, ab precomp.ABIs) [][]byte {
			to := precomp.DistrAddr
			return [][]byte{ethTx(w, 0, &to, 0, precomp.MustPack(ab.Distr, "claimRewards", w.Eth[0], uint32(5)), 3000000, 0)}
		}},
		{Name: "stakingDelegate", Build: func(w *world.World, _ precomp.ABIs) [][]byte {
			return [][]byte{cosmosTx(w, 2, stakingtypes.NewMsgDelegate(A(w, 2), w.ValAddr[1], sdk.NewInt64Coin(world.Denom, 2000000)))}
		}},
		{Name: "stakingUndelegate", Build: func(w *world.World, _ precomp.ABIs) [][]byte {
			return [][]byte{cosmosTx(w, 0, stakingtypes.NewMsgUndelegate(A(w, 0), w.ValAddr[0], sdk.NewInt64Coin(world.Denom, 1000)))}
		}},
		{Name: "vestingCreate", Build: func(w *world.World, _ precomp.ABIs) [][]byte {
			amt := coins(world.Denom, 1000).Add(sdk.NewInt64Coin("atest", 10))
			lock := sdkvesting.Periods{{Length: 1000, Amount: amt}, {Length: 1000, Amount: amt}, {Length: 5000, Amount: amt}}
			vest := sdkvesting.Periods{{Length: 3000, Amount: amt.Add(amt...)}, {Length: 3000, Amount: amt}}
			to := sdk.AccAddress(world.Key(51).PubKey().Address().Bytes())
			return [][]byte{cosmosTx(w, 1, vtypes.NewMsgCreateClawbackVestingAccount(A(w, 1), to, w.Header.Time, lock, vest, false))}
		}},
		{Name: "vestingGrantWithStake", Build: func(w *world.World, _ precomp.ABIs) [][]byte {
			// a plain account is turned into a vesting account whose already vested part is staked at once
			to := sdk.AccAddress(world.Key(53).PubKey().Address().Bytes())
			amt := coins(world.Denom, 400)
			// the rest vests in half-year steps over twenty years: whatever a node's wall clock says, it
			// lies somewhere inside this schedule, and two clocks 400 days apart lie in different steps
			vest := sdkvesting.Periods{{Length: 10, Amount: amt}}
			for i := 0; i < 40; i++ {
				vest = append(vest, sdkvesting.Period{Length: 180 * 86400, Amount: coins(world.Denom, 10)})
			}
			return [][]byte{cosmosTx(w, 1, vtypes.NewMsgConvertIntoVestingAccount(A(w, 1), to, w.Header.Time.Add(-15*time.Second), nil, vest, true, true, w.ValAddr[0]))}
		}},
		{Name: "vestingEvmSpend", Steps: func() []func(w *world.World, _ precomp.ABIs) []byte {
			// a vesting account with some free coins makes three Ethereum value transfers that together
			// stay within its spendable balance (the eth ante handler's vesting check sums them up)
			spender := sdk.AccAddress(world.Key(52).PubKey().Address().Bytes())
			steps := []func(w *world.World, _ precomp.ABIs) []byte{
				func(w *world.World, _ precomp.ABIs) []byte {
					amt := coins(world.Denom, 5000)
					return cosmosTx(w, 1, vtypes.NewMsgCreateClawbackVestingAccount(A(w, 1), spender, w.Header.Time, sdkvesting.Periods{{Length: 100000, Amount: amt}}, sdkvesting.Periods{{Length: 50000, Amount: amt}}, false))
				},
				func(w *world.World, _ precomp.ABIs) []byte {
					return cosmosTx(w, 1, banktypes.NewMsgSend(A(w, 1), spender, coins(world.Denom, 1000)))
				},
			}
			for i := 0; i < 3; i++ {
				steps = append(steps, func(w *world.World, _ precomp.ABIs) []byte {
					to := w.Eth[2]
					return ethTx(w, 52, &to, 300, nil, 21000, 0)
				})
			}
			return steps
		}()},
		{Name: "daoFund", Build: func(w *world.World, _ precomp.ABIs) [][]byte {
			// two denominations, so that a ratio transfer afterwards moves (and reports) more than one coin
			return [][]byte{cosmosTx(w, 1, ucdaotypes.NewMsgFund(coins(world.Denom, 100).Add(sdk.NewInt64Coin("aLIQUID75", 7)), A(w, 1)))}
		}},
		{Name: "daoTransferRatio", Build: func(w *world.World, _ precomp.ABIs) [][]byte {
			return [][]byte{cosmosTx(w, 1, ucdaotypes.NewMsgTransferOwnershipWithRatio(A(w, 1), A(w, 2), sdk.NewDecWithPrec(5, 1)))}
		}},
		{Name: "liquidate", Steps: []func(w *world.World, _ precomp.ABIs) []byte{
			// a vesting account whose vesting is complete and whose lockup is still running ...
			func(w *world.World, _ precomp.ABIs) []byte {
				amt := sdk.NewCoins(sdk.NewCoin(world.Denom, sdkmath.NewInt(3).Mul(lvtypes.DefaultMinimumLiquidationAmount)))
				start := w.Header.Time.Add(-1000 * time.Second)
				lock := sdkvesting.Periods{{Length: 100000, Amount: amt}}
				vest := sdkvesting.Periods{{Length: 10, Amount: amt}}
				return cosmosTx(w, 1, vtypes.NewMsgCreateClawbackVestingAccount(A(w, 1), vestAddr, start, lock, vest, false))
			},
			// ... then a liquidation of part of it (registers a token pair and deploys its ERC20)
			func(w *world.World, _ precomp.ABIs) []byte {
				bz, err := w.CosmosTx(w.Ctx(), world.CosmosSpec{Key: world.Key(VestKey), Gas: 10000000,
					Msgs: []sdk.Msg{lvtypes.NewMsgLiquidate(vestAddr, vestAddr, sdk.NewCoin(world.Denom, lvtypes.DefaultMinimumLiquidationAmount))}})
				if err != nil {
					panic(err)
				}
				return bz
			},
		}},
		{Name: "convertERC20", Build: func(w *world.World, _ precomp.ABIs) [][]byte {
			// converts liquid ERC20 tokens back to coins (fails deterministically if nothing was liquidated)
			id := w.App.Erc20Keeper.GetTokenPairID(w.Ctx(), "aLIQUID0")
			contract := common.Address{}
			if pair, ok := w.App.Erc20Keeper.GetTokenPair(w.Ctx(), id); ok {
				contract = pair.GetERC20Contract()
			}
			k := world.Key(VestKey)
			bz, err := w.CosmosTx(w.Ctx(), world.CosmosSpec{Key: k, Gas: 10000000,
				Msgs: []sdk.Msg{erc20types.NewMsgConvertERC20(sdkmath.NewInt(1000), vestAddr, contract, common.BytesToAddress(vestAddr))}})
			if err != nil {
				panic(err)
			}
			return [][]byte{bz}
		}},
		{Name: "erc20Transfer", Build: func(w *world.World, _ precomp.ABIs) [][]byte {
			// an ordinary ERC20 transfer of the liquid token (a 3-topic Transfer log the erc20 hook inspects)
			return [][]byte{ethTx(w, VestKey, liquid0(w), 0, erc20Transfer(w.Eth[2], 100), 3000000, 0)}
		}},
		{Name: "erc20SendToModule", Build: func(w *world.World, _ precomp.ABIs) [][]byte {
			// ERC20 tokens sent to the erc20 module address: the EVM hook converts them to coins
			return [][]byte{ethTx(w, VestKey, liquid0(w), 0, erc20Transfer(erc20types.ModuleAddress, 100), 3000000, 0)}
		}},
		{Name: "redeemAll", Build: func(w *world.World, _ precomp.ABIs) [][]byte {
			// redeems the whole supply of the newest liquid denom, all held by this account (the denom's
			// supply drops to zero; fails deterministically if nothing was liquidated)
			c := sdk.NewInt64Coin("aLIQUID0", 1)
			if n := w.App.LiquidVestingKeeper.GetDenomCounter(w.Ctx()); n > 0 {
				d := fmt.Sprintf("aLIQUID%d", n-1)
				if sup := w.App.BankKeeper.GetSupply(w.Ctx(), d); sup.IsPositive() {
					c = sup // bank coins plus the part escrowed for its ERC20 form: all held by this account
				}
			}
			bz, err := w.CosmosTx(w.Ctx(), world.CosmosSpec{Key: world.Key(VestKey), Gas: 10000000, Msgs: []sdk.Msg{lvtypes.NewMsgRedeem(vestAddr, vestAddr, c)}})
			if err != nil {
				panic(err)
			}
			return [][]byte{bz}
		}},
		{Name: "failingTxs", Build: func(w *world.World, _ precomp.ABIs) [][]byte {
			to := DirtyAddr
			return [][]byte{
				ethTx(w, 4, &to, 0, nil, 1000000, 5), // wrong nonce
				ethTx(w, 4, &to, 0, nil, 21500, 0),   // out of gas inside the call
				cosmosTx(w, 4, banktypes.NewMsgSend(A(w, 4), A(w, 5), coins("nosuchdenom", 5))),
			}
		}},
		{Name: "doubleSignEvidence", Evidence: true},
		{Name: "downtime", Downtime: true},
	}
}

// ---- histories ---------------------------------------------------------------------------------

type Block struct {
	Names    []string
	Txs      [][]byte
	Dt       time.Duration // time to the next block
	Absent   map[int]bool  // validators missing from the commit of THIS block (seen by the next BeginBlock)
	Evidence []abci.Misbehavior
}

type History struct {
	Name   string
	Blocks []Block
}

// Plan is a history before its transactions are materialised: template indices per block.
type Plan struct {
	Name   string
	Blocks [][]int
	Dts    []time.Duration
	Tail   int // empty blocks appended
}

type Step struct {
	Label  string
	Digest string
	Detail string
}

type Trace []Step

func digest(bz []byte) string {
	h := sha256.Sum256(bz)
	return hex.EncodeToString(h[:8])
}

func mustMarshal(m interface{ Marshal() ([]byte, error) }) []byte {
	bz, err := m.Marshal()
	if err != nil {
		panic(err)
	}
	return bz
}

// Hooks lets a variant interleave calls and restart the node.
type Hooks struct {
	// Between is called before every ABCI call of the replica with a label; it may issue
	// CheckTx / Query calls against the app.
	Between func(w *world.World, label string, nextTx []byte)
	// AfterCommit is called after each Commit with the index of the committed block (0-based
	// within the history); it may restart the node.
	AfterCommit func(w *world.World, k int)
	// Battery: run the query battery after every commit (and restart) and record it in the trace.
	Battery bool
	// Virtual: block boundaries are the E1 explorer's virtual ones (real EndBlock, transient stores
	// cleared, BeginBlock on the uncommitted deliver state) instead of Commit + BeginBlock.
	Virtual bool
}

func recordDeliver(r abci.ResponseDeliverTx) (string, string) {
	core := fmt.Sprintf("code=%d gasWanted=%d gasUsed=%d data=%s codespace=%s", r.Code, r.GasWanted, r.GasUsed, digest(r.Data), r.Codespace)
	evs := ""
	for _, e := range r.Events {
		evs += e.Type + "{"
		for _, a := range e.Attributes {
			evs += a.Key + "=" + a.Value + ","
		}
		evs += "}"
	}
	if os.Getenv("VERIF_RAWLOG") != "" {
		fmt.Println("RAWLOG", r.Code, r.Log)
	}
	// the log is compared up to its first line break: SDK errors formatted with %+v append the Go
	// call stack of the process (which includes the caller of DeliverTx, here the harness), and ABCI
	// declares the log non-deterministic
	lg, _, _ := strings.Cut(r.Log, "\n")
	return digest([]byte(core + "|" + evs + "|" + lg)), core + " events=" + digest([]byte(evs)) + " log=" + digest([]byte(lg))
}

func evString(evs []abci.Event) string {
	s := ""
	for _, e := range evs {
		s += e.Type + "{"
		for _, a := range e.Attributes {
			s += a.Key + "=" + a.Value + ","
		}
		s += "}"
	}
	return s
}

// runBlocks executes blocks on w (which is inside an open block) and records the trace.  build, if
// non-nil, materialises the transactions of block i from the templates right before delivery.
func runBlocks(w *world.World, n int, txsOf func(i int) ([]func() []byte, []string), meta func(i int) (time.Duration, map[int]bool, []abci.Misbehavior), h Hooks) (Trace, []Block) {
	var tr Trace
	var out []Block
	between := func(label string, next []byte) {
		if h.Between != nil {
			h.Between(w, label, next)
		}
	}
	for i := 0; i < n; i++ {
		txs, names := txsOf(i)
		dt, absent, ev := meta(i)
		blk := Block{Names: names, Dt: dt, Absent: absent, Evidence: ev}
		for j, mk := range txs {
			tx := mk()
			between(fmt.Sprintf("b%d.tx%d", i, j), tx)
			r := w.App.DeliverTx(abci.RequestDeliverTx{Tx: tx})
			d, detail := recordDeliver(r)
			tr = append(tr, Step{Label: fmt.Sprintf("b%d.deliver%d", i, j), Digest: d, Detail: detail})
			blk.Txs = append(blk.Txs, tx)
		}
		between(fmt.Sprintf("b%d.end", i), nil)
		eb := w.App.EndBlock(abci.RequestEndBlock{Height: w.Header.Height})
		vu := ""
		for _, u := range eb.ValidatorUpdates {
			vu += fmt.Sprintf("%x:%d,", mustMarshal(&u.PubKey), u.Power)
		}
		cp := ""
		if eb.ConsensusParamUpdates != nil {
			cp = digest(mustMarshal(eb.ConsensusParamUpdates))
		}
		ebs := fmt.Sprintf("valupdates=[%s] cp=%s events=%s", vu, cp, digest([]byte(evString(eb.Events))))
		tr = append(tr, Step{Label: fmt.Sprintf("b%d.endblock", i), Digest: digest(mustMarshal(&eb)), Detail: ebs})
		if h.Virtual {
			bb := w.VirtualBeginBlock(dt, absent, ev)
			tr = append(tr, Step{Label: fmt.Sprintf("b%d.beginblock-next", i), Digest: digest([]byte(evString(bb.Events))), Detail: "events"})
			out = append(out, blk)
			continue
		}
		between(fmt.Sprintf("b%d.commit", i), nil)
		cm := w.App.Commit()
		tr = append(tr, Step{Label: fmt.Sprintf("b%d.commit", i), Digest: hex.EncodeToString(cm.Data), Detail: "apphash"})
		if h.AfterCommit != nil {
			h.AfterCommit(w, i)
		}
		if h.Battery {
			info := w.App.Info(abci.RequestInfo{})
			tr = append(tr, Step{Label: fmt.Sprintf("b%d.info", i), Digest: fmt.Sprintf("%d/%x", info.LastBlockHeight, info.LastBlockAppHash), Detail: "info"})
			for _, q := range RunBattery(w) {
				tr = append(tr, Step{Label: fmt.Sprintf("b%d.query", i), Digest: digest([]byte(q)), Detail: q})
			}
		}
		w.Header.Height++
		w.Header.Time = w.Header.Time.Add(dt)
		w.Header.AppHash = cm.Data
		between(fmt.Sprintf("b%d.begin-next", i), nil)
		bb := w.App.BeginBlock(abci.RequestBeginBlock{Header: w.Header, LastCommitInfo: w.CommitInfo(absent), ByzantineValidators: ev})
		tr = append(tr, Step{Label: fmt.Sprintf("b%d.beginblock-next", i), Digest: digest([]byte(evString(bb.Events))), Detail: "events"})
		out = append(out, blk)
	}
	return tr, out
}

// RunReference builds and runs a plan on a fresh node (map seed 0, no clock offset) and returns
// the concrete history with its trace.
func (f *Fix) RunReference(p Plan, tmpl []Template) (History, Trace, *world.World) {
	nondet.MapSeed(true, 0)
	nondet.ClockOffset(0)
	w := f.NewWorld()
	abis := precomp.Load(w)
	nblocks := len(p.Blocks) + p.Tail
	downtimeLeft := 0
	tr, blocks := runBlocks(w, nblocks,
		func(i int) ([]func() []byte, []string) {
			if i >= len(p.Blocks) {
				return nil, nil
			}
			var txs []func() []byte
			var names []string
			for _, ti := range p.Blocks[i] {
				t := tmpl[ti]
				names = append(names, t.Name)
				switch {
				case t.Steps != nil:
					for _, st := range t.Steps {
						st := st
						txs = append(txs, func() []byte { return st(w, abis) })
					}
				case t.Build != nil:
					// all transactions of the template are built when its first one is due
					var built [][]byte
					n := len(t.Build(w.Peek(), abis))
					for k := 0; k < n; k++ {
						k := k
						txs = append(txs, func() []byte {
							if built == nil {
								built = t.Build(w, abis)
							}
							return built[k]
						})
					}
				}
			}
			return txs, names
		},
		func(i int) (time.Duration, map[int]bool, []abci.Misbehavior) {
			dt := 6 * time.Second
			if i < len(p.Dts) && p.Dts[i] > 0 {
				dt = p.Dts[i]
			}
			var ev []abci.Misbehavior
			var absent map[int]bool
			if i < len(p.Blocks) {
				for _, ti := range p.Blocks[i] {
					if tmpl[ti].Evidence {
						ev = append(ev, abci.Misbehavior{Type: abci.MisbehaviorType_DUPLICATE_VOTE, Validator: abci.Validator{Address: w.ValCons[1], Power: w.ValPower},
							Height: w.Header.Height, Time: w.Header.Time, TotalVotingPower: 2 * w.ValPower})
					}
					if tmpl[ti].Downtime {
						downtimeLeft = 7
					}
				}
			}
			if downtimeLeft > 0 {
				absent = map[int]bool{1: true}
				downtimeLeft--
			}
			return dt, absent, ev
		}, Hooks{Battery: f.Battery, AfterCommit: func(w *world.World, k int) {
			if f.OnCommit != nil {
				var names []string
				if k < len(p.Blocks) {
					for _, ti := range p.Blocks[k] {
						names = append(names, tmpl[ti].Name)
					}
				}
				f.OnCommit(w, k, names)
			}
		}})
	return History{Name: p.Name, Blocks: blocks}, tr, w
}

// Variant is one nondeterminism policy of a replica.
type Variant struct {
	Name      string
	MapSeed   uint
	ClockSec  int64
	Noise     bool
	NoiseOld  bool   // the EVM-executing queries ask old heights before the latest one
	Virtual   bool   // virtual block boundaries (conformance check of the E1 engine's block trick)
	TZ        int    // seconds east of UTC of the process-local time zone (0: UTC)
	Config    bool   // node-local settings differ from the defaults (app.toml: mempool gas cap, min gas prices, API options)
	Second    bool   // construct another application object first
	RestartAt int    // restart after the commit of this block index (-1: never)
	Restart   string // "same-db" | "copied-db" | "twice"
}

// Replay runs a concrete history on a fresh replica under the variant.
func (f *Fix) Replay(h History, v Variant) (Trace, *world.World) {
	nondet.MapSeed(true, v.MapSeed)
	nondet.ClockOffset(v.ClockSec)
	oldLocal, oldCfg := time.Local, world.NodeConfig
	if v.TZ != 0 {
		time.Local = time.FixedZone("verif", v.TZ)
	}
	if v.Config {
		world.NodeConfig = map[string]interface{}{"evm.max-tx-gas-wanted": uint64(100000), "minimum-gas-prices": "7aISLM", "evm.tracer": "", "json-rpc.gas-cap": uint64(1000),
			"iavl-cache-size": 10, "min-retain-blocks": uint64(0)}
	}
	defer func() {
		nondet.MapSeed(true, 0)
		nondet.ClockOffset(0)
		time.Local, world.NodeConfig = oldLocal, oldCfg
	}()
	if v.Second {
		_ = world.NewApp(dbm.NewMemDB(), world.DefaultChainID) // construction order / package globals
	}
	w := f.NewWorld()
	hooks := Hooks{Battery: f.Battery, Virtual: v.Virtual}
	if v.Noise {
		hooks.Between = func(w *world.World, label string, next []byte) {
			if next != nil {
				// a client estimates the gas of its transaction by simulation (the one node-local entry point
				// that executes messages), then submits it
				_, _, _ = w.App.Simulate(next)
				w.App.CheckTx(abci.RequestCheckTx{Tx: next, Type: abci.CheckTxType_New})
			}
			w.App.Query(abci.RequestQuery{Path: "/cosmos.bank.v1beta1.Query/TotalSupply"})
			w.App.Query(abci.RequestQuery{Path: "/ethermint.evm.v1.Query/Params"})
			w.App.Query(abci.RequestQuery{Path: "/haqq.coinomics.v1.Query/Params"})
			// queries that EXECUTE the EVM, at the latest committed state and at old heights: what an
			// RPC node answers for eth_call / eth_estimateGas while it processes blocks
			last := w.App.LastBlockHeight()
			if !strings.HasSuffix(label, ".begin-next") && !strings.HasSuffix(label, ".tx0") {
				return // once after every Commit and once after every BeginBlock
			}
			for _, to := range []common.Address{QueryAddr, DirtyAddr} {
				to := to
				from := w.Eth[3]
				args, _ := json.Marshal(evmtypes.TransactionArgs{From: &from, To: &to})
				req, _ := (&evmtypes.EthCallRequest{Args: args, GasCap: 3000000, ChainId: w.EIP155().Int64(), ProposerAddress: w.ValCons[0]}).Marshal()
				hs := []int64{0, 1, last - 1}
				if v.NoiseOld {
					hs = []int64{1, last - 1, 0}
				}
				for _, hgt := range hs {
					if hgt < 0 || hgt > last || (hgt == last-1 && hgt <= 1) {
						continue
					}
					qr := w.App.Query(abci.RequestQuery{Path: "/ethermint.evm.v1.Query/EthCall", Data: req, Height: hgt})
					if os.Getenv("VERIF_RAWLOG") != "" {
						fmt.Println("NOISE ethcall", label, hgt, qr.Code, qr.Log, len(qr.Value))
					}
				}
				w.App.Query(abci.RequestQuery{Path: "/ethermint.evm.v1.Query/EstimateGas", Data: req})
			}
		}
	}
	if v.RestartAt >= 0 {
		hooks.AfterCommit = func(w *world.World, k int) {
			if k != v.RestartAt {
				return
			}
			switch v.Restart {
			case "copied-db":
				w.ReopenOnCopy()
			case "twice":
				w.Reopen()
				w.Reopen()
			default:
				w.Reopen()
			}
		}
	}
	tr, _ := runBlocks(w, len(h.Blocks),
		func(i int) ([]func() []byte, []string) {
			var out []func() []byte
			for _, tx := range h.Blocks[i].Txs {
				tx := tx
				out = append(out, func() []byte { return tx })
			}
			return out, h.Blocks[i].Names
		},
		func(i int) (time.Duration, map[int]bool, []abci.Misbehavior) {
			return h.Blocks[i].Dt, h.Blocks[i].Absent, h.Blocks[i].Evidence
		}, hooks)
	return tr, w
}

// FirstDiff returns the index of the first differing step (-1 if equal).
func FirstDiff(a, b Trace) int {
	for i := range a {
		if i >= len(b) || a[i].Digest != b[i].Digest {
			return i
		}
	}
	if len(b) > len(a) {
		return len(a)
	}
	return -1
}

// GovTemplates: multi-block governance flows (submit with full deposit + a yes vote by the
// majority delegator; the proposal passes and executes in the EndBlock after the 10 s voting period).
func GovTemplates() []Template { return govTemplates(false) }

// ExtraGovTemplates: further governance flows, used where the resulting state itself is the subject
// (export / import, restart): all EVM extensions switched off (an empty list is valid state).
func ExtraGovTemplates() []Template { return govTemplates(true) }

func govTemplates(extra bool) []Template {
	gov := func(name string, mk func(w *world.World) sdk.Msg) Template {
		return Template{Name: name, Steps: []func(w *world.World, _ precomp.ABIs) []byte{
			func(w *world.World, _ precomp.ABIs) []byte {
				p, err := govv1.NewMsgSubmitProposal([]sdk.Msg{mk(w)}, coins(world.Denom, 1000), w.Addrs[1].String(), "ipfs://verif", name, name)
				if err != nil {
					panic(err)
				}
				return cosmosTx(w, 1, p)
			},
			func(w *world.World, _ precomp.ABIs) []byte {
				id, err := w.App.GovKeeper.GetProposalID(w.Ctx())
				if err != nil {
					panic(err)
				}
				return cosmosTx(w, 0, govv1.NewMsgVote(w.Addrs[0], id-1, govv1.OptionYes, ""))
			},
		}}
	}
	authority := func(w *world.World) string { return w.App.AccountKeeper.GetModuleAddress("gov").String() }
	if extra {
		return []Template{
			gov("govEvmNoPrecompiles", func(w *world.World) sdk.Msg {
				p := w.App.EvmKeeper.GetParams(w.Ctx())
				p.ActivePrecompiles = []string{}
				return &evmtypes.MsgUpdateParams{Authority: authority(w), Params: p}
			}),
		}
	}
	return []Template{
		gov("govEvmParams", func(w *world.World) sdk.Msg {
			p := w.App.EvmKeeper.GetParams(w.Ctx())
			p.EnableCreate = false
			p.ActivePrecompiles = p.ActivePrecompiles[:len(p.ActivePrecompiles)-1] // deactivate the bank precompile
			return &evmtypes.MsgUpdateParams{Authority: authority(w), Params: p}
		}),
		gov("govFeemarketParams", func(w *world.World) sdk.Msg {
			p := w.App.FeeMarketKeeper.GetParams(w.Ctx())
			p.NoBaseFee = false
			p.BaseFee = sdkmath.NewInt(7)
			p.EnableHeight = w.Header.Height + 4
			return &feemarkettypes.MsgUpdateParams{Authority: authority(w), Params: p}
		}),
		gov("govToggleLiquid0", func(w *world.World) sdk.Msg {
			// legacy-content proposal toggling conversion of the first liquid token pair
			m, err := govv1.NewLegacyContent(erc20types.NewToggleTokenConversionProposal("toggle", "toggle", "aLIQUID0"), authority(w))
			if err != nil {
				panic(err)
			}
			return m
		}),
		gov("govErc20Params", func(w *world.World) sdk.Msg {
			p := w.App.Erc20Keeper.GetParams(w.Ctx())
			p.EnableEVMHook = !p.EnableEVMHook
			return &erc20types.MsgUpdateParams{Authority: authority(w), Params: p}
		}),
	}
}

// LifecycleChains are histories in which a switch is turned off and on again with uses in between,
// so that whatever a node keeps in memory about it is built at different moments on replicas that
// restart, answer queries or iterate maps differently.
func LifecycleChains(tmpl []Template, nBase int) []Plan {
	ix := map[string]int{}
	for i, t := range tmpl {
		ix[t.Name] = i
	}
	var out []Plan
	chain := func(names ...string) {
		var blocks [][]int
		for _, nm := range names {
			i, ok := ix[nm]
			if !ok {
				panic("no template " + nm)
			}
			blocks = append(blocks, []int{i})
			if i >= nBase {
				blocks = append(blocks, []int{}, []int{}, []int{}, []int{}) // voting period
			}
		}
		out = append(out, Plan{Name: "chain:" + strings.Join(names, ">"), Blocks: blocks, Tail: 2})
	}
	chain("liquidate", "govToggleLiquid0", "erc20Transfer", "govToggleLiquid0", "erc20SendToModule", "convertERC20")
	chain("liquidate", "govErc20Params", "erc20SendToModule", "govErc20Params", "erc20SendToModule")
	chain("liquidate", "erc20SendToModule", "govToggleLiquid0", "erc20SendToModule", "redeemAll")
	chain("evmCreate", "govEvmParams", "evmCreate", "evmBankQuery", "pcDelegate")
	chain("evmTransfer", "govFeemarketParams", "evmTransfer", "evmDirtyCall", "evmTransfer")
	// fees paid out of staking rewards (two delegations with pending rewards, either would do)
	if i, ok := ix["stakeAllWithTwoValidators"]; ok {
		out = append(out, Plan{Name: "chain:stakeAllWithTwoValidators>3 blocks>payFeeFromStakingRewards", Blocks: [][]int{{i}, {}, {}, {}, {ix["payFeeFromStakingRewards"]}}, Tail: 2})
	}
	// the same earlier block hash read twice, the second time after its header left the (short) history
	if i, ok := ix["evmBlockHash"]; ok {
		out = append(out, Plan{Name: "chain:evmBlockHash>5 blocks>evmBlockHash", Blocks: [][]int{{i}, {}, {}, {}, {}, {}, {i}}, Tail: 2})
	}
	// block gaps of several epoch lengths: the day epoch, ticking once per block, lags behind the clock
	// (one tick per block: after the 200 h gap it stays behind for half a dozen blocks)
	out = append(out, Plan{Name: "chain:epochs(behind the clock after 30 h and 200 h gaps)", Blocks: [][]int{{ix["bankSend"]}, {}, {}, {}},
		Dts: []time.Duration{5 * time.Second, 30 * time.Hour, 200 * time.Hour, 6 * time.Second}, Tail: 1})
	// two day-epoch boundaries, the second one hit by a block only a few seconds past the exact end
	// (time-driven BeginBlock logic that a node may have cached differently)
	day := 24 * time.Hour
	out = append(out, Plan{Name: "chain:epochs(two day boundaries)", Blocks: [][]int{{ix["bankSend"]}, {}, {}, {}, {}, {}},
		Dts: []time.Duration{6 * time.Second, day, 6 * time.Second, day - 10*time.Second, 6 * time.Second, 6 * time.Second}, Tail: 2})
	// block times with a sub-millisecond part whose fraction goes up and down (what is stored in
	// milliseconds loses it; a node that kept the full time in memory would not)
	us := time.Microsecond
	out = append(out, Plan{Name: "chain:sub-millisecond block times", Blocks: [][]int{{ix["bankSend"]}, {}, {}, {}, {}, {}},
		Dts: []time.Duration{6*time.Second + 900*us, 6*time.Second - 800*us, 6*time.Second + 700*us, 6*time.Second - 600*us, 6*time.Second + 500*us, 6*time.Second - 400*us}, Tail: 2})
	return out
}

// ChainTemplates are used inside life-cycle chains only (not as singles or in pairs): an account
// stakes nearly everything with both validators, and - blocks later, rewards accrued - pays a fee
// above its liquid balance (the ante handler then claims just enough staking rewards to cover it).
func ChainTemplates() []Template {
	x := sdk.AccAddress(world.Key(54).PubKey().Address().Bytes())
	e18 := sdkmath.NewIntFromBigInt(new(big.Int).Exp(big.NewInt(10), big.NewInt(18), nil))
	stake := Template{Name: "stakeAllWithTwoValidators", Steps: []func(w *world.World, _ precomp.ABIs) []byte{
		func(w *world.World, _ precomp.ABIs) []byte {
			return cosmosTx(w, 1, banktypes.NewMsgSend(w.Addrs[1], x, sdk.NewCoins(sdk.NewCoin(world.Denom, e18.MulRaw(2).AddRaw(1000)))))
		},
		func(w *world.World, _ precomp.ABIs) []byte {
			return cosmosTx(w, 54, stakingtypes.NewMsgDelegate(x, w.ValAddr[0], sdk.NewCoin(world.Denom, e18)))
		},
		func(w *world.World, _ precomp.ABIs) []byte {
			return cosmosTx(w, 54, stakingtypes.NewMsgDelegate(x, w.ValAddr[1], sdk.NewCoin(world.Denom, e18)))
		},
	}}
	pay := Template{Name: "payFeeFromStakingRewards", Build: func(w *world.World, _ precomp.ABIs) [][]byte {
		// fee = liquid balance + 1e9: more than the account holds, less than the rewards of one delegation
		bal := w.App.BankKeeper.GetBalance(w.Ctx(), x, world.Denom).Amount
		bz, err := w.CosmosTx(w.Ctx(), world.CosmosSpec{Key: world.Key(54), Gas: 300000, Fee: sdk.NewCoins(sdk.NewCoin(world.Denom, bal.AddRaw(1000000000))),
			Msgs: []sdk.Msg{banktypes.NewMsgSend(x, w.Addrs[2], sdk.NewCoins(sdk.NewInt64Coin(world.Denom, 1)))}})
		if err != nil {
			panic(err)
		}
		return [][]byte{bz}
	}}
	return []Template{stake, pay}
}

// StateShapeTemplates produce committed states of unusual shape (used where the state itself is the
// subject: export / import, restart): an account that is a clawback vesting account AND a contract
// (a grant to the address a deployment is about to create), and a DAO holder whose shares are in a
// liquid denomination only.
func StateShapeTemplates() []Template {
	future := func(w *world.World) common.Address {
		acc := w.App.AccountKeeper.GetAccount(w.Ctx(), w.Addrs[2])
		return crypto.CreateAddress(common.BytesToAddress(w.Addrs[2]), acc.GetSequence())
	}
	vc := Template{Name: "vestingGrantThenDeployThere", Steps: []func(w *world.World, _ precomp.ABIs) []byte{
		func(w *world.World, _ precomp.ABIs) []byte {
			amt := coins(world.Denom, 100)
			vest := sdkvesting.Periods{{Length: 30 * 86400, Amount: amt}, {Length: 30 * 86400, Amount: amt}, {Length: 30 * 86400, Amount: amt}, {Length: 30 * 86400, Amount: amt}}
			return cosmosTx(w, 1, vtypes.NewMsgConvertIntoVestingAccount(w.Addrs[1], sdk.AccAddress(future(w).Bytes()), w.Header.Time.Add(-45*24*time.Hour), nil, vest, false, false, nil))
		},
		func(w *world.World, _ precomp.ABIs) []byte {
			// constructor stores 7 in slot 0; the runtime returns slot 0
			return ethTx(w, 2, nil, 0, common.FromHex("60076000556a60005460005260206000f3600052600b6015f3"), 300000, 0)
		},
	}}
	lo := Template{Name: "daoFundLiquidOnly", Build: func(w *world.World, _ precomp.ABIs) [][]byte {
		return [][]byte{cosmosTx(w, 2, ucdaotypes.NewMsgFund(coins("aLIQUID75", 5), w.Addrs[2]))}
	}}
	bh := Template{Name: "evmBlockHash", Build: func(w *world.World, _ precomp.ABIs) [][]byte {
		to := BlockHashAddr
		return [][]byte{ethTx(w, 3, &to, 0, nil, 100000, 0)}
	}}
	return []Template{vc, lo, bh}
}

// AdversarialTemplates are histories aimed at the accounting invariants: pushing coins into the
// module accounts whose balances the invariants pin (every way a user has of moving coins), and a
// governance deposit in several denominations that gets burnt after a veto.
func AdversarialTemplates() []Template {
	mod := func(name string) sdk.AccAddress { return authtypes.NewModuleAddress(name) }
	targets := []string{stakingtypes.BondedPoolName, stakingtypes.NotBondedPoolName, distrtypes.ModuleName, govtypes.ModuleName}
	fund := Template{Name: "fundModuleAccounts", Build: func(w *world.World, _ precomp.ABIs) [][]byte {
		var txs [][]byte
		seq := w.App.AccountKeeper.GetAccount(w.Ctx(), w.Addrs[4]).GetSequence()
		nEth := uint64(0)
		for _, t := range targets {
			to := mod(t)
			toHex := common.BytesToAddress(to)
			next := func(m sdk.Msg) {
				sq := seq
				bz, err := w.CosmosTx(w.Ctx(), world.CosmosSpec{Key: w.Keys[4], Gas: 500000, Msgs: []sdk.Msg{m}, Seq: &sq})
				if err != nil {
					panic(err)
				}
				txs = append(txs, bz)
				seq++
			}
			next(banktypes.NewMsgSend(w.Addrs[4], to, coins(world.Denom, 7)))
			next(banktypes.NewMsgMultiSend([]banktypes.Input{banktypes.NewInput(w.Addrs[4], coins(world.Denom, 7))}, []banktypes.Output{banktypes.NewOutput(to, coins(world.Denom, 7))}))
			next(banktypes.NewMsgMultiSend([]banktypes.Input{banktypes.NewInput(w.Addrs[4], coins(world.Denom, 14))},
				[]banktypes.Output{banktypes.NewOutput(to, coins(world.Denom, 7)), banktypes.NewOutput(w.Addrs[5], coins(world.Denom, 7))}))
			next(banktypes.NewMsgSend(w.Addrs[4], to, coins("atest", 3)))
			txs = append(txs, ethTx(w, 5, &toHex, 9, nil, 100000, nEth))
			nEth++
		}
		return txs
	}}
	veto := Template{Name: "govVetoForeignDeposit", Steps: []func(w *world.World, _ precomp.ABIs) []byte{
		func(w *world.World, _ precomp.ABIs) []byte {
			p, err := govv1.NewMsgSubmitProposal(nil, coins(world.Denom, 1000).Add(sdk.NewInt64Coin("atest", 10)), w.Addrs[1].String(), "ipfs://verif", "veto", "veto")
			if err != nil {
				panic(err)
			}
			return cosmosTx(w, 1, p)
		},
		func(w *world.World, _ precomp.ABIs) []byte {
			id, err := w.App.GovKeeper.GetProposalID(w.Ctx())
			if err != nil {
				panic(err)
			}
			return cosmosTx(w, 0, govv1.NewMsgVote(w.Addrs[0], id-1, govv1.OptionNoWithVeto, ""))
		},
	}}
	// a contract receives coins of a denomination the EVM does not manage and then self-destructs: the
	// coins may stay, move or vanish, but no module account may end up with coins nobody recorded
	holder := func(w *world.World) common.Address {
		acc := w.App.AccountKeeper.GetAccount(w.Ctx(), w.Addrs[5])
		return crypto.CreateAddress(common.BytesToAddress(w.Addrs[5]), acc.GetSequence()-1)
	}
	sd := Template{Name: "selfdestructHoldingForeignCoins", Steps: []func(w *world.World, _ precomp.ABIs) []byte{
		func(w *world.World, _ precomp.ABIs) []byte {
			// init code returning the runtime CALLER SELFDESTRUCT
			return ethTx(w, 5, nil, 9, common.FromHex("6133ff6000526002601ef3"), 200000, 0)
		},
		func(w *world.World, _ precomp.ABIs) []byte {
			return cosmosTx(w, 4, banktypes.NewMsgSend(w.Addrs[4], sdk.AccAddress(holder(w).Bytes()), coins("atest", 3).Add(sdk.NewInt64Coin(world.Denom, 2))))
		},
		func(w *world.World, _ precomp.ABIs) []byte {
			to := holder(w)
			return ethTx(w, 5, &to, 0, nil, 100000, 0)
		},
	}}
	// stake leaving V2 (an unbonding entry and a redelegation to V1) in the very block V2 is reported for
	// a double sign at: the slash reaches the not-bonded pool and the redelegated shares
	unb := Template{Name: "unbondFromV2+doubleSignEvidence", Evidence: true, Steps: []func(w *world.World, _ precomp.ABIs) []byte{
		func(w *world.World, _ precomp.ABIs) []byte {
			return cosmosTx(w, 0, stakingtypes.NewMsgUndelegate(w.Addrs[0], w.ValAddr[1], sdk.NewCoin(world.Denom, sdkmath.NewInt(1000000000000000000))))
		},
		func(w *world.World, _ precomp.ABIs) []byte {
			return cosmosTx(w, 0, stakingtypes.NewMsgBeginRedelegate(w.Addrs[0], w.ValAddr[1], w.ValAddr[0], sdk.NewCoin(world.Denom, sdkmath.NewInt(500000000000000000))))
		},
	}}
	// a delegator tries to name pinned module accounts as its reward receiver, by message and through
	// the distribution precompile; rewards keep accruing afterwards
	wdr := Template{Name: "withdrawAddressToModuleAccounts", Steps: func() []func(w *world.World, abis precomp.ABIs) []byte {
		steps := []func(w *world.World, abis precomp.ABIs) []byte{
			func(w *world.World, _ precomp.ABIs) []byte {
				return cosmosTx(w, 4, stakingtypes.NewMsgDelegate(w.Addrs[4], w.ValAddr[0], sdk.NewCoin(world.Denom, sdkmath.NewInt(1000000000000000000))))
			},
		}
		for _, t := range targets {
			t := t
			steps = append(steps,
				func(w *world.World, _ precomp.ABIs) []byte {
					return cosmosTx(w, 4, distrtypes.NewMsgSetWithdrawAddress(w.Addrs[4], mod(t)))
				},
				func(w *world.World, abis precomp.ABIs) []byte {
					to := precomp.DistrAddr
					return ethTx(w, 4, &to, 0, precomp.MustPack(abis.Distr, "setWithdrawAddress", w.Eth[4], mod(t).String()), 300000, 0)
				})
		}
		return steps
	}()}
	return []Template{fund, veto, sd, unb, wdr}
}
