package replica

import (
	"encoding/json"
	"fmt"

	abci "github.com/cometbft/cometbft/abci/types"
	authtypes "github.com/cosmos/cosmos-sdk/x/auth/types"
	banktypes "github.com/cosmos/cosmos-sdk/x/bank/types"
	"github.com/ethereum/go-ethereum/common"

	haqqtypes "github.com/haqq-network/haqq/types"
	erc20types "github.com/haqq-network/haqq/x/erc20/types"
	evmtypes "github.com/haqq-network/haqq/x/evm/types"
	lvtypes "github.com/haqq-network/haqq/x/liquidvesting/types"
	ucdaotypes "github.com/haqq-network/haqq/x/ucdao/types"
	vtypes "github.com/haqq-network/haqq/x/vesting/types"

	"verif/harness/world"
)

type queryReq struct {
	path string
	data []byte
}

func battery(w *world.World) []queryReq {
	m := func(x interface{ Marshal() ([]byte, error) }) []byte {
		bz, err := x.Marshal()
		if err != nil {
			panic(err)
		}
		return bz
	}
	vestAddr := world.Key(VestKey).PubKey().Address()
	qs := []queryReq{
		{"/cosmos.bank.v1beta1.Query/TotalSupply", nil},
		{"/cosmos.bank.v1beta1.Query/AllBalances", m(&banktypes.QueryAllBalancesRequest{Address: w.Addrs[1].String()})},
		{"/cosmos.staking.v1beta1.Query/Validators", nil},
		{"/cosmos.gov.v1.Query/Proposals", nil},
		{"/cosmos.distribution.v1beta1.Query/CommunityPool", nil},
		{"/ethermint.evm.v1.Query/Params", nil},
		{"/ethermint.evm.v1.Query/Account", m(&evmtypes.QueryAccountRequest{Address: w.Eth[1].Hex()})},
		{"/ethermint.evm.v1.Query/Account", m(&evmtypes.QueryAccountRequest{Address: DirtyAddr.Hex()})},
		{"/ethermint.evm.v1.Query/Code", m(&evmtypes.QueryCodeRequest{Address: DirtyAddr.Hex()})},
		{"/ethermint.evm.v1.Query/Storage", m(&evmtypes.QueryStorageRequest{Address: DirtyAddr.Hex(), Key: "0x0000000000000000000000000000000000000000000000000000000000000007"})},
		{"/ethermint.evm.v1.Query/Storage", m(&evmtypes.QueryStorageRequest{Address: QueryAddr.Hex(), Key: "0x0000000000000000000000000000000000000000000000000000000000000002"})},
		{"/ethermint.evm.v1.Query/BaseFee", nil},
		{"/ethermint.feemarket.v1.Query/Params", nil},
		{"/ethermint.feemarket.v1.Query/BaseFee", nil},
		{"/ethermint.feemarket.v1.Query/BlockGas", nil},
		{"/evmos.erc20.v1.Query/TokenPairs", nil},
		{"/evmos.erc20.v1.Query/Params", nil},
		{"/evmos.epochs.v1.Query/EpochInfos", nil},
		{"/haqq.vesting.v1.Query/Balances", m(&vtypes.QueryBalancesRequest{Address: fmt.Sprint(world.Key(51).PubKey().Address())})},
		{"/haqq.vesting.v1.Query/TotalLocked", nil},
		{"/haqq.liquidvesting.v1.Query/Denoms", nil},
		{"/haqq.ucdao.v1.Query/TotalBalance", nil},
		{"/haqq.ucdao.v1.Query/Holders", nil},
		{"/haqq.ucdao.v1.Query/Params", nil},
		{"/haqq.coinomics.v1.Query/Params", nil},
		{"/haqq.coinomics.v1.Query/MaxSupply", nil},
		{"/haqq.coinomics.v1.Query/RewardCoefficient", nil},
	}
	_ = vestAddr
	// queries that execute the EVM on the latest committed state: a call returning CHAINID and one
	// reading state through the bank precompile, with the chain id given and left to the node
	for _, to := range []common.Address{ChainIDAddr, QueryAddr} {
		to := to
		from := w.Eth[3]
		args, _ := json.Marshal(evmtypes.TransactionArgs{From: &from, To: &to})
		for _, cid := range []int64{w.EIP155().Int64(), 0} {
			req := m(&evmtypes.EthCallRequest{Args: args, GasCap: 3000000, ChainId: cid, ProposerAddress: w.ValCons[0]})
			qs = append(qs, queryReq{"/ethermint.evm.v1.Query/EthCall", req}, queryReq{"/ethermint.evm.v1.Query/EstimateGas", req})
		}
	}
	// by-key queries for every object the committed state holds: token pairs by denomination and by
	// contract address (the two secondary indexes), liquid denominations, DAO balances of the holders
	ctx := w.App.NewContext(true, w.Header)
	for _, pr := range w.App.Erc20Keeper.GetTokenPairs(ctx) {
		qs = append(qs, queryReq{"/evmos.erc20.v1.Query/TokenPair", m(&erc20types.QueryTokenPairRequest{Token: pr.Denom})},
			queryReq{"/evmos.erc20.v1.Query/TokenPair", m(&erc20types.QueryTokenPairRequest{Token: pr.Erc20Address})})
	}
	for _, dn := range w.App.LiquidVestingKeeper.GetAllDenoms(ctx) {
		qs = append(qs, queryReq{"/haqq.liquidvesting.v1.Query/Denom", m(&lvtypes.QueryDenomRequest{Denom: dn.BaseDenom})})
	}
	for _, b := range w.App.DaoKeeper.GetAccountsBalances(ctx) {
		qs = append(qs, queryReq{"/haqq.ucdao.v1.Query/AllBalances", m(&ucdaotypes.QueryAllBalancesRequest{Address: b.Address})})
	}
	// every account that carries contract code (whatever its account type): its code and every one of
	// its storage slots
	w.App.AccountKeeper.IterateAccounts(ctx, func(acc authtypes.AccountI) bool {
		ea, ok := acc.(haqqtypes.EthAccountI)
		if !ok || ea.Type() != haqqtypes.AccountTypeContract {
			return false
		}
		addr := ea.EthAddress()
		qs = append(qs, queryReq{"/ethermint.evm.v1.Query/Code", m(&evmtypes.QueryCodeRequest{Address: addr.Hex()})},
			queryReq{"/ethermint.evm.v1.Query/Account", m(&evmtypes.QueryAccountRequest{Address: addr.Hex()})})
		w.App.EvmKeeper.ForEachStorage(ctx, addr, func(key, _ common.Hash) bool {
			qs = append(qs, queryReq{"/ethermint.evm.v1.Query/Storage", m(&evmtypes.QueryStorageRequest{Address: addr.Hex(), Key: key.Hex()})})
			return true
		})
		return false
	})
	return qs
}

// BatteryOf returns the query list derived from w's committed state; RunQueries issues a given
// list (so that two nodes are asked the same questions).
func BatteryOf(w *world.World) []queryReq { return battery(w) }

func RunQueries(w *world.World, qs []queryReq) []string {
	var out []string
	for _, q := range qs {
		r := w.App.Query(abci.RequestQuery{Path: q.path, Data: q.data})
		out = append(out, fmt.Sprintf("%s#%s code=%d value=%s", q.path, digest(q.data), r.Code, digest(r.Value)))
	}
	return out
}

// RunBattery issues the fixed query battery against the last committed state and returns one
// string per query (path, code, value digest).
func RunBattery(w *world.World) []string {
	var out []string
	for _, q := range battery(w) {
		r := w.App.Query(abci.RequestQuery{Path: q.path, Data: q.data})
		out = append(out, fmt.Sprintf("%s#%s code=%d value=%s", q.path, digest(q.data), r.Code, digest(r.Value)))
	}
	return out
}
