// Package refmodel holds the boring reference models: step functions for vesting schedules,
// written independently of x/vesting (events at absolute times, amounts as denom -> big.Int).
package refmodel

import (
	"fmt"
	"math/big"
	"sort"
	"strings"
)

// Amt is a multi-denomination amount.
type Amt map[string]*big.Int

func (a Amt) Clone() Amt {
	o := Amt{}
	for d, v := range a {
		o[d] = new(big.Int).Set(v)
	}
	return o
}

func (a Amt) Add(b Amt) Amt {
	o := a.Clone()
	for d, v := range b {
		if o[d] == nil {
			o[d] = new(big.Int)
		}
		o[d].Add(o[d], v)
	}
	return o.norm()
}

// Sub returns a-b (may contain negative entries).
func (a Amt) Sub(b Amt) Amt {
	o := a.Clone()
	for d, v := range b {
		if o[d] == nil {
			o[d] = new(big.Int)
		}
		o[d].Sub(o[d], v)
	}
	return o.norm()
}

func (a Amt) Min(b Amt) Amt {
	o := Amt{}
	for d, v := range a {
		w := b[d]
		if w == nil {
			continue
		}
		if v.Cmp(w) <= 0 {
			o[d] = new(big.Int).Set(v)
		} else {
			o[d] = new(big.Int).Set(w)
		}
	}
	return o.norm()
}

func (a Amt) norm() Amt {
	for d, v := range a {
		if v.Sign() == 0 {
			delete(a, d)
		}
	}
	return a
}

func (a Amt) IsZero() bool { return len(a.Clone().norm()) == 0 }

func (a Amt) HasNegative() bool {
	for _, v := range a {
		if v.Sign() < 0 {
			return true
		}
	}
	return false
}

func (a Amt) Equal(b Amt) bool { return a.String() == b.String() }

// LTE: every denom of a is <= b.
func (a Amt) LTE(b Amt) bool { return !b.Sub(a).HasNegative() }

func (a Amt) String() string {
	var ds []string
	for d, v := range a {
		if v.Sign() != 0 {
			ds = append(ds, v.String()+d)
		}
	}
	sort.Strings(ds)
	return strings.Join(ds, ",")
}

func One(denom string, n int64) Amt { return Amt{denom: big.NewInt(n)}.norm() }

// Event is a release of Amt at absolute time T.
type Event struct {
	T int64
	A Amt
}

// Sched is a step function: nothing up to and including Start, then every event with T <= t.
type Sched struct {
	Start  int64
	Events []Event
}

// Period mirrors the (length, amount) encoding.
type Period struct {
	Len int64
	A   Amt
}

func FromPeriods(start int64, ps []Period) Sched {
	s := Sched{Start: start}
	t := start
	for _, p := range ps {
		t += p.Len
		s.Events = append(s.Events, Event{T: t, A: p.A.Clone()})
	}
	return s
}

func (s Sched) Total() Amt {
	o := Amt{}
	for _, e := range s.Events {
		o = o.Add(e.A)
	}
	return o
}

func (s Sched) End() int64 {
	end := s.Start
	for _, e := range s.Events {
		if e.T > end {
			end = e.T
		}
	}
	return end
}

// Read: sum of all periods ended by t; zero up to the start.
func (s Sched) Read(t int64) Amt {
	o := Amt{}
	if t <= s.Start {
		return o
	}
	for _, e := range s.Events {
		if e.T <= t {
			o = o.Add(e.A)
		}
	}
	return o
}

// Union merges two schedules: the union of their events, start = min.
func Union(a, b Sched) Sched {
	o := Sched{Start: a.Start}
	if b.Start < o.Start {
		o.Start = b.Start
	}
	o.Events = append(append([]Event{}, a.Events...), b.Events...)
	sort.SliceStable(o.Events, func(i, j int) bool { return o.Events[i].T < o.Events[j].T })
	return o
}

// EventMap returns absolute time -> combined amount (simultaneous events merged), as a string.
func (s Sched) EventMap() string {
	m := map[int64]Amt{}
	for _, e := range s.Events {
		if e.A.IsZero() {
			continue
		}
		if m[e.T] == nil {
			m[e.T] = Amt{}
		}
		m[e.T] = m[e.T].Add(e.A)
	}
	var ts []int64
	for t := range m {
		ts = append(ts, t)
	}
	sort.Slice(ts, func(i, j int) bool { return ts[i] < ts[j] })
	var parts []string
	for _, t := range ts {
		parts = append(parts, fmt.Sprintf("%d:%s", t, m[t]))
	}
	return strings.Join(parts, " ")
}

// Times returns the interesting instants of a set of schedules: every start and event time,
// each with -1, +0, +1.
func Times(ss ...Sched) []int64 {
	set := map[int64]bool{}
	for _, s := range ss {
		for _, d := range []int64{-1, 0, 1} {
			set[s.Start+d] = true
			for _, e := range s.Events {
				set[e.T+d] = true
			}
		}
	}
	var ts []int64
	for t := range set {
		ts = append(ts, t)
	}
	sort.Slice(ts, func(i, j int) bool { return ts[i] < ts[j] })
	return ts
}

// CapSched returns min(s, cap) as a schedule with the same event times (what remains locked of a
// lockup schedule once the grant is cut down to cap).
func CapSched(s Sched, cap Amt) Sched {
	o := Sched{Start: s.Start}
	ev := append([]Event{}, s.Events...)
	sort.SliceStable(ev, func(i, j int) bool { return ev[i].T < ev[j].T })
	cum, prev := Amt{}, Amt{}
	for _, e := range ev {
		cum = cum.Add(e.A)
		now := cum.Min(cap)
		d := now.Sub(prev)
		if !d.IsZero() {
			o.Events = append(o.Events, Event{T: e.T, A: d})
		}
		prev = now
	}
	return o
}

// Get returns the amount of one denomination (0 if absent).
func (a Amt) Get(d string) *big.Int {
	if v, ok := a[d]; ok {
		return new(big.Int).Set(v)
	}
	return new(big.Int)
}
