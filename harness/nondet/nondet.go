// Package nondet gives the harness control over two sources of nondeterminism that live in the
// Go runtime: map iteration order and the wall clock.  The setters are provided by the build
// overlay (overlay/gen.py patches runtime/map.go and time/time.go); without the overlay this
// package does not link, which is intended.
package nondet

import (
	_ "unsafe" // for go:linkname
)

//go:linkname setMapIter runtime.verifSetMapIter
func setMapIter(on bool, seed uintptr)

//go:linkname setClockOffset time.verifSetOffset
func setClockOffset(sec int64)

// MapSeed forces the random word of every map iteration to seed (start bucket = seed & mask,
// offset = (seed >> B) & 7): seeds 0..63 realise every iteration order of every map with <= 8
// buckets.  on=false restores the runtime's own randomisation.
func MapSeed(on bool, seed uint) { setMapIter(on, uintptr(seed)) }

// ClockOffset shifts time.Now() by the given number of seconds.
func ClockOffset(sec int64) { setClockOffset(sec) }
