// Package evmasm is a tiny EVM assembler (there is no solc in the image): enough to synthesise
// the bounded families of contract programs the checks enumerate.
package evmasm

import (
	"encoding/binary"
	"fmt"
	"math/big"

	"github.com/ethereum/go-ethereum/common"
)

const (
	STOP         = 0x00
	ADD          = 0x01
	MUL          = 0x02
	SUB          = 0x03
	LT           = 0x10
	GT           = 0x11
	EQ           = 0x14
	ISZERO       = 0x15
	AND          = 0x16
	OR           = 0x17
	NOT          = 0x19
	SHL          = 0x1b
	SHR          = 0x1c
	ADDRESS      = 0x30
	BALANCE      = 0x31
	ORIGIN       = 0x32
	CALLER       = 0x33
	CALLVALUE    = 0x34
	CALLDATALOAD = 0x35
	CALLDATASIZE = 0x36
	CALLDATACOPY = 0x37
	CODESIZE     = 0x38
	CODECOPY     = 0x39
	RETURNDATASIZE = 0x3d
	RETURNDATACOPY = 0x3e
	SELFBALANCE  = 0x47
	POP          = 0x50
	MLOAD        = 0x51
	MSTORE       = 0x52
	SLOAD        = 0x54
	SSTORE       = 0x55
	JUMP         = 0x56
	JUMPI        = 0x57
	GAS          = 0x5a
	JUMPDEST     = 0x5b
	PUSH1        = 0x60
	PUSH2        = 0x61
	PUSH32       = 0x7f
	DUP1         = 0x80
	DUP2         = 0x81
	SWAP1        = 0x90
	LOG0         = 0xa0
	LOG1         = 0xa1
	LOG3         = 0xa3
	CREATE       = 0xf0
	CALL         = 0xf1
	DELEGATECALL = 0xf4
	STATICCALL   = 0xfa
	RETURN       = 0xf3
	REVERT       = 0xfd
	INVALID      = 0xfe
	SELFDESTRUCT = 0xff
)

type fixup struct {
	pos   int
	label string
}

// Asm builds bytecode with labels and a trailing data section.
type Asm struct {
	code   []byte
	labels map[string]int
	fixups []fixup
	data   [][]byte
	dataFx []struct{ pos, idx int }
}

func New() *Asm { return &Asm{labels: map[string]int{}} }

func (a *Asm) Op(ops ...byte) *Asm { a.code = append(a.code, ops...); return a }

// Push pushes the minimal big-endian encoding of v (PUSH1..PUSH32).
func (a *Asm) Push(v *big.Int) *Asm {
	b := v.Bytes()
	if len(b) == 0 {
		b = []byte{0}
	}
	if len(b) > 32 {
		panic("push > 32 bytes")
	}
	a.code = append(a.code, byte(PUSH1+len(b)-1))
	a.code = append(a.code, b...)
	return a
}

func (a *Asm) PushU(v uint64) *Asm { return a.Push(new(big.Int).SetUint64(v)) }

func (a *Asm) PushBytes(b []byte) *Asm {
	if len(b) == 0 || len(b) > 32 {
		panic("pushbytes size")
	}
	a.code = append(a.code, byte(PUSH1+len(b)-1))
	a.code = append(a.code, b...)
	return a
}

func (a *Asm) PushAddr(ad common.Address) *Asm { return a.PushBytes(ad.Bytes()) }

// Label defines a jump destination here.
func (a *Asm) Label(name string) *Asm {
	a.labels[name] = len(a.code)
	a.code = append(a.code, JUMPDEST)
	return a
}

// PushLabel pushes the (2-byte) code offset of a label.
func (a *Asm) PushLabel(name string) *Asm {
	a.code = append(a.code, PUSH2, 0, 0)
	a.fixups = append(a.fixups, fixup{len(a.code) - 2, name})
	return a
}

// Data registers a blob placed after the code; PushData pushes (offsetInCode) as PUSH2 and the
// caller knows the length.  Returns the data index.
func (a *Asm) Data(b []byte) int {
	a.data = append(a.data, b)
	return len(a.data) - 1
}

// PushDataOffset pushes the code offset at which data blob idx will live.
func (a *Asm) PushDataOffset(idx int) *Asm {
	a.code = append(a.code, PUSH2, 0, 0)
	a.dataFx = append(a.dataFx, struct{ pos, idx int }{len(a.code) - 2, idx})
	return a
}

// CopyDataToMem emits CODECOPY(destOffset=mem, offset=data idx, size=len) and returns len.
func (a *Asm) CopyDataToMem(idx int, mem uint64) int {
	n := len(a.data[idx])
	a.PushU(uint64(n))
	a.PushDataOffset(idx)
	a.PushU(mem)
	a.Op(CODECOPY)
	return n
}

func (a *Asm) Bytes() []byte {
	out := append([]byte{}, a.code...)
	offs := make([]int, len(a.data))
	for i, d := range a.data {
		offs[i] = len(out)
		out = append(out, d...)
	}
	for _, f := range a.fixups {
		p, ok := a.labels[f.label]
		if !ok {
			panic("undefined label " + f.label)
		}
		binary.BigEndian.PutUint16(out[f.pos:], uint16(p))
	}
	for _, f := range a.dataFx {
		binary.BigEndian.PutUint16(out[f.pos:], uint16(offs[f.idx]))
	}
	if len(out) > 0xffff {
		panic(fmt.Sprint("program too large: ", len(out)))
	}
	return out
}

// Call emits a CALL-family instruction with explicit arguments; leaves the success flag on the
// stack.  kind: CALL / STATICCALL / DELEGATECALL.
func (a *Asm) Call(kind byte, gas uint64, to common.Address, value *big.Int, inOff, inLen, outOff, outLen uint64) *Asm {
	a.PushU(outLen).PushU(outOff).PushU(inLen).PushU(inOff)
	if kind == CALL {
		a.Push(value)
	}
	a.PushAddr(to)
	if gas == 0 {
		a.Op(GAS)
	} else {
		a.PushU(gas)
	}
	a.Op(kind)
	return a
}

// SStore emits SSTORE(slot, value).
func (a *Asm) SStore(slot, value uint64) *Asm {
	return a.PushU(value).PushU(slot).Op(SSTORE)
}

// SStoreTop stores the value on top of the stack into slot (consumes it).
func (a *Asm) SStoreTop(slot uint64) *Asm { return a.PushU(slot).Op(SSTORE) }

// Revert emits REVERT(0,0); Stop emits STOP; Invalid emits INVALID.
func (a *Asm) Revert() *Asm  { return a.PushU(0).PushU(0).Op(REVERT) }
func (a *Asm) Stop() *Asm    { return a.Op(STOP) }
func (a *Asm) Invalid() *Asm { return a.Op(INVALID) }

// BubbleIfZero: if the top of stack (a success flag) is zero, revert; consumes it.
func (a *Asm) BubbleIfZero(label string) *Asm {
	a.PushLabel(label).Op(JUMPI) // jump if flag != 0
	a.Revert()
	a.Label(label)
	return a
}
