// Package c16: a precompile call has exactly the effect of the native message.
//
// E1 over base states (all sequences <= depth of native staking/distribution operations and block
// boundaries from the fixture, digest dedup); in every base state every precompile method x
// argument grid is run as a fork differential: branch A = the account owner's Ethereum
// transaction to the precompile through the real DeliverTx, branch B = the corresponding native
// message in a Cosmos transaction through the real DeliverTx; all persistent stores are diffed.
// Read-only methods are compared with the modules' own queries.
package c16

import (
	"crypto/sha256"
	"encoding/base64"
	"encoding/hex"
	"encoding/json"
	"fmt"
	"math/big"
	"reflect"
	"sort"
	"strings"
	"time"

	sdkmath "cosmossdk.io/math"
	codectypes "github.com/cosmos/cosmos-sdk/codec/types"
	"github.com/cosmos/cosmos-sdk/crypto/keys/ed25519"
	cryptotypes "github.com/cosmos/cosmos-sdk/crypto/types"
	sdk "github.com/cosmos/cosmos-sdk/types"
	"github.com/cosmos/cosmos-sdk/types/query"
	banktypes "github.com/cosmos/cosmos-sdk/x/bank/types"
	distrtypes "github.com/cosmos/cosmos-sdk/x/distribution/types"
	stakingkeeper "github.com/cosmos/cosmos-sdk/x/staking/keeper"
	stakingtypes "github.com/cosmos/cosmos-sdk/x/staking/types"
	transfertypes "github.com/cosmos/ibc-go/v7/modules/apps/transfer/types"
	clienttypes "github.com/cosmos/ibc-go/v7/modules/core/02-client/types"
	"github.com/ethereum/go-ethereum/accounts/abi"
	"github.com/ethereum/go-ethereum/common"
	"github.com/ethereum/go-ethereum/common/hexutil"

	coinomicstypes "github.com/haqq-network/haqq/x/coinomics/types"
	erc20types "github.com/haqq-network/haqq/x/erc20/types"
	evmtypes "github.com/haqq-network/haqq/x/evm/types"

	"verif/harness/engine"
	"verif/harness/precomp"
	"verif/harness/world"
)

const Prop = "C16"

type driver struct {
	w    *world.World
	abis precomp.ABIs
	O, W int
	Op   int // operator of V2
	tier string
	all  []string
}

var max256 = new(big.Int).Sub(new(big.Int).Lsh(big.NewInt(1), 256), big.NewInt(1))

// e19: n x 10^19 base units (10 ISLM) - every amount of the fixture is beyond 2^63 base units
func e19(n int64) sdkmath.Int {
	return sdkmath.NewInt(n).Mul(sdkmath.NewInt(1000000000000000000)).MulRaw(10)
}

func newDriver(tier string) *driver {
	cp := coinomicstypes.DefaultParams()
	// validator V2 is operated by account 4 (for withdrawValidatorCommission)
	w := world.New(world.Options{NumAccounts: 5, NumVals: 2, Coinomics: &cp, Balance: e19(100), ValOperators: map[int]int{1: 4},
		ExtraCoins: sdk.NewCoins(sdk.NewInt64Coin("atest", 1000))})
	d := &driver{w: w, O: 1, W: 2, Op: 4, tier: tier}
	d.abis = precomp.Load(w)
	ctx := w.Ctx()
	// max supply for coinomics so that rewards accrue
	w.App.CoinomicsKeeper.SetMaxSupply(ctx, sdk.NewCoin(world.Denom, e19(1000000000)))
	// the owner's pubkey gets stored by a first Cosmos transaction, so that later Cosmos and
	// Ethereum transactions leave the same account record
	d.mustDeliver(d.cosmosTx(banktypes.NewMsgSend(w.Addrs[d.O], w.Addrs[d.W], sdk.NewCoins(sdk.NewInt64Coin(world.Denom, 1)))))
	d.mustDeliver(d.cosmosTx(stakingtypes.NewMsgDelegate(w.Addrs[d.O], w.ValAddr[0], sdk.NewCoin(world.Denom, e19(10)))))
	d.mustDeliver(d.cosmosTx(stakingtypes.NewMsgDelegate(w.Addrs[d.O], w.ValAddr[1], sdk.NewCoin(world.Denom, e19(3)))))
	d.mustDeliver(d.cosmosTxAs(d.Op, banktypes.NewMsgSend(w.Addrs[d.Op], w.Addrs[d.W], sdk.NewCoins(sdk.NewInt64Coin(world.Denom, 1)))))
	// a coin-origin token pair so that the bank precompile has something to report
	if _, err := w.App.Erc20Keeper.RegisterCoin(w.Ctx(), banktypes.Metadata{
		Description: "test", Base: "atest", Display: "test", Name: "test", Symbol: "TEST",
		DenomUnits: []*banktypes.DenomUnit{{Denom: "atest", Exponent: 0}, {Denom: "test", Exponent: 18}}}); err != nil {
		panic(err)
	}
	if err := w.OpenLocalhostChannels(w.Ctx()); err != nil {
		panic(err)
	}
	w.NextBlock(6 * time.Second)
	w.NextBlock(6 * time.Second)
	d.all = engine.AllStores(w)
	return d
}

func (d *driver) cosmosTx(msgs ...sdk.Msg) []byte { return d.cosmosTxAs(d.O, msgs...) }

func (d *driver) cosmosTxAs(k int, msgs ...sdk.Msg) []byte {
	bz, err := d.w.CosmosTx(d.w.Ctx(), world.CosmosSpec{Key: d.w.Keys[k], Msgs: msgs, Gas: 3000000})
	if err != nil {
		panic(err)
	}
	return bz
}

func (d *driver) mustDeliver(bz []byte) {
	if r := d.w.Deliver(bz); r.Code != 0 {
		panic("fixture tx failed: " + r.Log)
	}
}

func (d *driver) ethTx(to common.Address, data []byte) []byte { return d.ethTxAs(d.O, to, data) }

func (d *driver) ethTxAs(k int, to common.Address, data []byte) []byte {
	w := d.w
	nonce := w.App.AccountKeeper.GetAccount(w.Ctx(), w.Addrs[k]).GetSequence()
	bz, err := world.WrapEth(w.SignEth(w.Keys[k], world.EthSpec{Nonce: nonce, Gas: 3000000, To: &to, GasPrice: big.NewInt(0), Data: data}))
	if err != nil {
		panic(err)
	}
	return bz
}

// ---- base-state alphabet (native operations) -----------------------------------------------------

func (d *driver) baseOps(w *world.World, depth int, path []string) []engine.Op {
	O := w.Addrs[d.O]
	v1, v2 := w.ValAddr[0], w.ValAddr[1]
	mk := func(name string, msg sdk.Msg) engine.Op {
		return engine.Op{Name: name, Apply: func(w *world.World, p []string, res *engine.Result) string {
			r := w.Deliver(d.cosmosTx(msg))
			if r.Code != 0 {
				return "err"
			}
			return "ok"
		}}
	}
	ops := []engine.Op{
		mk("delegate(V2,5e19)", stakingtypes.NewMsgDelegate(O, v2, sdk.NewCoin(world.Denom, e19(5)))),
		mk("undelegate(V1,2e19)", stakingtypes.NewMsgUndelegate(O, v1, sdk.NewCoin(world.Denom, e19(2)))),
		mk("redelegate(V1>V2,1e19)", stakingtypes.NewMsgBeginRedelegate(O, v1, v2, sdk.NewCoin(world.Denom, e19(1)))),
		mk("setWithdraw(W)", distrtypes.NewMsgSetWithdrawAddress(O, w.Addrs[d.W])),
		{Name: "nextblock", Apply: func(w *world.World, p []string, res *engine.Result) string {
			w.VirtualNextBlock(6*time.Second, nil, nil)
			return "ok"
		}},
		// the block whose time reaches the completion time of the entries created so far: they are
		// mature but still stored (until this block's end blocker), and still count for every limit
		{Name: "block(+unbonding time)", Apply: func(w *world.World, p []string, res *engine.Result) string {
			w.VirtualNextBlock(w.App.StakingKeeper.UnbondingTime(w.Ctx()), nil, nil)
			return "ok"
		}},
		// V2 is jailed and leaves the bonded set at the block boundary: the owner's delegation to it keeps
		// its pending rewards, its stake is with an unbonding validator
		{Name: "jail(V2)+block", Apply: func(w *world.World, p []string, res *engine.Result) string {
			v, ok := w.App.StakingKeeper.GetValidator(w.Ctx(), v2)
			if !ok || v.IsJailed() {
				return "skip"
			}
			w.App.StakingKeeper.Jail(w.Ctx(), w.ValCons[1])
			w.VirtualNextBlock(6*time.Second, nil, nil)
			return "ok"
		}},
		// a block passes and V1 is slashed 10% for an infraction in the previous block: unbonding entries
		// created there lose part of their balance (initial balance unchanged)
		{Name: "block+slash(V1,10%)", Apply: func(w *world.World, p []string, res *engine.Result) string {
			w.VirtualNextBlock(6*time.Second, nil, nil)
			v, ok := w.App.StakingKeeper.GetValidator(w.Ctx(), v1)
			if !ok {
				return "skip"
			}
			w.App.StakingKeeper.Slash(w.Ctx(), w.ValCons[0], w.Header.Height-1, v.ConsensusPower(sdk.DefaultPowerReduction), sdk.NewDecWithPrec(1, 1))
			return "ok"
		}},
		// governance lowered the number of unbonding / redelegation entries a delegator may hold per
		// validator (pair): limits are reached with the entries the other operations create
		{Name: "maxEntries(1)", Apply: func(w *world.World, p []string, res *engine.Result) string {
			sp := w.App.StakingKeeper.GetParams(w.Ctx())
			if sp.MaxEntries == 1 {
				return "skip"
			}
			sp.MaxEntries = 1
			if err := w.App.StakingKeeper.SetParams(w.Ctx(), sp); err != nil {
				panic(err)
			}
			return "ok"
		}},
		// conversion of the registered token pair switched off by governance: the denomination keeps
		// its ERC20 address
		{Name: "togglePair(atest)", Apply: func(w *world.World, p []string, res *engine.Result) string {
			if _, err := w.App.Erc20Keeper.ToggleConversion(w.Ctx(), "atest"); err != nil {
				panic(err)
			}
			return "ok"
		}},
	}
	return ops
}

// ---- the differential -------------------------------------------------------------------------

type call struct {
	class  string // state class that matters for this call: withdraw address, pending rewards
	name   string
	to     common.Address
	data   []byte
	native []sdk.Msg // nil: no native counterpart can even be formed (must fail on the precompile side)
	by     int       // signing account (0: the owner)
}

func (d *driver) calls() []call {
	w := d.w
	ctx := w.Ctx()
	O := w.Addrs[d.O]
	oHex := w.Eth[d.O]
	v1, v2 := w.ValAddr[0], w.ValAddr[1]
	unknownVal := sdk.ValAddress(w.Addrs[3])
	bal := w.App.BankKeeper.GetBalance(ctx, O, world.Denom).Amount
	type val struct {
		name string
		s    string
		ok   bool
	}
	vals := []val{{"V1", v1.String(), true}, {"V2", v2.String(), true}, {"unknown", unknownVal.String(), true}, {"malformed", "haqqvaloper1xyz", false}}
	var out []call
	st, di := d.abis.Staking, d.abis.Distr
	coin := func(a sdkmath.Int) sdk.Coin { return sdk.Coin{Denom: world.Denom, Amount: a} }
	intOK := func(a *big.Int) bool { return a.BitLen() <= 255 }

	delegated := func(v sdk.ValAddress) sdkmath.Int {
		del, ok := w.App.StakingKeeper.GetDelegation(ctx, O, v)
		if !ok {
			return sdkmath.ZeroInt()
		}
		vv, _ := w.App.StakingKeeper.GetValidator(ctx, v)
		return vv.TokensFromShares(del.Shares).TruncateInt()
	}
	amts := func(base sdkmath.Int) map[string]*big.Int {
		return map[string]*big.Int{"0": big.NewInt(0), "1": big.NewInt(1), "mid": e19(1).BigInt(), "all": base.BigInt(), "all+1": base.AddRaw(1).BigInt(), "2^256-1": max256,
			"2^64+1": new(big.Int).Add(new(big.Int).Lsh(big.NewInt(1), 64), big.NewInt(1))}
	}
	keys := func(m map[string]*big.Int) []string {
		var ks []string
		for k := range m {
			ks = append(ks, k)
		}
		sort.Strings(ks)
		return ks
	}
	for _, v := range vals {
		am := amts(bal)
		for _, k := range keys(am) {
			a := am[k]
			c := call{name: fmt.Sprintf("staking.delegate(%s,%s)", v.name, k), to: precomp.StakingAddr, data: precomp.MustPack(st, "delegate", oHex, v.s, a)}
			if v.ok && intOK(a) {
				c.native = []sdk.Msg{&stakingtypes.MsgDelegate{DelegatorAddress: O.String(), ValidatorAddress: v.s, Amount: coin(sdkmath.NewIntFromBigInt(a))}}
			}
			out = append(out, c)
		}
		va, _ := sdk.ValAddressFromBech32(v.s)
		um := amts(delegated(va))
		for _, k := range keys(um) {
			a := um[k]
			c := call{name: fmt.Sprintf("staking.undelegate(%s,%s)", v.name, k), to: precomp.StakingAddr, data: precomp.MustPack(st, "undelegate", oHex, v.s, a)}
			if v.ok && intOK(a) {
				c.native = []sdk.Msg{&stakingtypes.MsgUndelegate{DelegatorAddress: O.String(), ValidatorAddress: v.s, Amount: coin(sdkmath.NewIntFromBigInt(a))}}
			}
			out = append(out, c)
		}
		c := call{name: fmt.Sprintf("distribution.withdrawDelegatorRewards(%s)", v.name), to: precomp.DistrAddr, data: precomp.MustPack(di, "withdrawDelegatorRewards", oHex, v.s)}
		if v.ok {
			c.native = []sdk.Msg{&distrtypes.MsgWithdrawDelegatorReward{DelegatorAddress: O.String(), ValidatorAddress: v.s}}
		}
		out = append(out, c)
		// cancel unbonding at several creation heights
		for _, h := range []int64{w.Header.Height, w.Header.Height - 1, 0} {
			for _, k := range []string{"1", "mid", "2^64+1", "2^256-1"} {
				a := amts(bal)[k]
				c := call{name: fmt.Sprintf("staking.cancelUnbonding(%s,%s,h%+d)", v.name, k, h-w.Header.Height), to: precomp.StakingAddr,
					data: precomp.MustPack(st, "cancelUnbondingDelegation", oHex, v.s, a, big.NewInt(h))}
				if v.ok && intOK(a) {
					c.native = []sdk.Msg{&stakingtypes.MsgCancelUnbondingDelegation{DelegatorAddress: O.String(), ValidatorAddress: v.s, Amount: coin(sdkmath.NewIntFromBigInt(a)), CreationHeight: h}}
				}
				out = append(out, c)
			}
		}
	}
	for _, pr := range [][2]val{{vals[0], vals[1]}, {vals[1], vals[0]}, {vals[0], vals[0]}, {vals[0], vals[2]}, {vals[0], vals[3]}} {
		va, _ := sdk.ValAddressFromBech32(pr[0].s)
		rm := amts(delegated(va))
		for _, k := range []string{"0", "1", "all", "all+1"} {
			a := rm[k]
			c := call{name: fmt.Sprintf("staking.redelegate(%s>%s,%s)", pr[0].name, pr[1].name, k), to: precomp.StakingAddr, data: precomp.MustPack(st, "redelegate", oHex, pr[0].s, pr[1].s, a)}
			if pr[0].ok && pr[1].ok {
				c.native = []sdk.Msg{&stakingtypes.MsgBeginRedelegate{DelegatorAddress: O.String(), ValidatorSrcAddress: pr[0].s, ValidatorDstAddress: pr[1].s, Amount: coin(sdkmath.NewIntFromBigInt(a))}}
			}
			out = append(out, c)
		}
	}
	for _, wa := range []struct {
		name, s string
		ok      bool
	}{{"self", O.String(), true}, {"other", w.Addrs[d.W].String(), true}, {"malformed", "haqq1xyz", false},
		{"module", sdk.AccAddress(w.App.AccountKeeper.GetModuleAddress("distribution")).String(), true}} {
		c := call{name: "distribution.setWithdrawAddress(" + wa.name + ")", to: precomp.DistrAddr, data: precomp.MustPack(di, "setWithdrawAddress", oHex, wa.s)}
		if wa.ok {
			c.native = []sdk.Msg{&distrtypes.MsgSetWithdrawAddress{DelegatorAddress: O.String(), WithdrawAddress: wa.s}}
		}
		out = append(out, c)
	}
	// ICS-20 transfer over the looped-back localhost channel
	type height struct {
		RevisionNumber uint64
		RevisionHeight uint64
	}
	recv := w.Addrs[d.W].String()
	for _, chn := range []string{world.IBCChannelA, "channel-9"} {
		for _, dn := range []string{world.Denom, "atest", "nosuchdenom"} {
			for _, k := range []string{"0", "1", "mid", "all+1"} {
				for _, th := range []height{{3, 100000}, {3, 1}} {
					a := amts(bal)[k]
					if dn == "atest" && k == "all+1" {
						a = big.NewInt(1001)
					}
					c := call{name: fmt.Sprintf("ics20.transfer(%s,%s,%s,timeout%d)", chn, dn, k, th.RevisionHeight), to: precomp.ICS20Addr,
						data: precomp.MustPack(d.abis.ICS20, "transfer", world.IBCPort, chn, dn, a, oHex, recv, th, uint64(0), "")}
					c.native = []sdk.Msg{&transfertypes.MsgTransfer{SourcePort: world.IBCPort, SourceChannel: chn, Token: sdk.Coin{Denom: dn, Amount: sdkmath.NewIntFromBigInt(a)},
						Sender: O.String(), Receiver: recv, TimeoutHeight: clienttypes.NewHeight(th.RevisionNumber, th.RevisionHeight)}}
					out = append(out, c)
				}
			}
		}
	}
	// timeout height x timeout timestamp (each unset / future / passed), memo and receiver shapes
	nowNs := uint64(w.Header.Time.UnixNano())
	for _, th := range []height{{0, 0}, {3, 100000}, {3, 1}} {
		for ti, ts := range []uint64{0, nowNs + 3600e9, nowNs - 1} {
			for _, mr := range [][2]string{{"", recv}, {"memo", recv}, {"", "not-bech32"}, {"", ""}} {
				if (mr[0] != "" || mr[1] != recv) && !(th.RevisionHeight == 100000 && ti == 1) {
					continue
				}
				c := call{name: fmt.Sprintf("ics20.transfer(timeouts h%d/t%d,memo=%q,recv-ok=%v)", th.RevisionHeight, ti, mr[0], mr[1] == recv), to: precomp.ICS20Addr,
					data: precomp.MustPack(d.abis.ICS20, "transfer", world.IBCPort, world.IBCChannelA, world.Denom, big.NewInt(1), oHex, mr[1], th, ts, mr[0])}
				c.native = []sdk.Msg{&transfertypes.MsgTransfer{SourcePort: world.IBCPort, SourceChannel: world.IBCChannelA, Token: sdk.Coin{Denom: world.Denom, Amount: sdkmath.NewInt(1)},
					Sender: O.String(), Receiver: mr[1], TimeoutHeight: clienttypes.NewHeight(th.RevisionNumber, th.RevisionHeight), TimeoutTimestamp: ts, Memo: mr[0]}}
				out = append(out, c)
			}
		}
	}
	// claimRewards(n) == withdrawing from the first n validators the delegator is bonded to
	dels := w.App.StakingKeeper.GetDelegatorDelegations(ctx, O, 100)
	for _, n := range []uint32{0, 1, 2, 10} {
		c := call{name: fmt.Sprintf("distribution.claimRewards(%d)", n), to: precomp.DistrAddr, data: precomp.MustPack(di, "claimRewards", oHex, n)}
		c.native = []sdk.Msg{}
		for i, dl := range dels {
			if uint32(i) >= n {
				break
			}
			c.native = append(c.native, &distrtypes.MsgWithdrawDelegatorReward{DelegatorAddress: O.String(), ValidatorAddress: dl.ValidatorAddress})
		}
		out = append(out, c)
	}
	// state class of each call: where rewards go, and whether the delegations it touches have
	// pending rewards (which the staking module pays out as a side effect)
	wd := "self"
	if !w.App.DistrKeeper.GetDelegatorWithdrawAddr(ctx, O).Equals(O) {
		wd = "other"
	}
	// staking.createValidator vs MsgCreateValidator (the owner is not a validator operator yet)
	{
		type descT struct{ Moniker, Identity, Website, SecurityContact, Details string }
		type commT struct{ Rate, MaxRate, MaxChangeRate *big.Int }
		dec := func(s string) *big.Int { return sdk.MustNewDecFromStr(s).BigInt() }
		fresh := ed25519.GenPrivKeyFromSecret([]byte("verif-c16-validator")).PubKey()
		used, _ := w.App.StakingKeeper.GetValidator(ctx, v1)
		usedPk, _ := used.ConsPubKey()
		type cv struct {
			name           string
			rate           string
			valAddr        string
			pk             cryptotypes.PubKey
			minSelf, value *big.Int
		}
		own := sdk.ValAddress(O).String()
		cases := []cv{
			{"ok,1", "0.10", own, fresh, big.NewInt(1), big.NewInt(1)},
			{"ok,mid", "0.10", own, fresh, big.NewInt(1), e19(1).BigInt()},
			{"ok,all+1", "0.10", own, fresh, big.NewInt(1), bal.AddRaw(1).BigInt()},
			{"value0", "0.10", own, fresh, big.NewInt(1), big.NewInt(0)},
			{"below-minself", "0.10", own, fresh, e19(2).BigInt(), e19(1).BigInt()},
			{"rate-below-min", "0.01", own, fresh, big.NewInt(1), e19(1).BigInt()},
			{"rate-above-max", "0.30", own, fresh, big.NewInt(1), e19(1).BigInt()},
			{"other-operator", "0.10", sdk.ValAddress(w.Addrs[d.W]).String(), fresh, big.NewInt(1), e19(1).BigInt()},
			{"pubkey-in-use", "0.10", own, usedPk, big.NewInt(1), e19(1).BigInt()},
		}
		for _, x := range cases {
			desc := descT{Moniker: "verif", Details: "d"}
			c := call{name: "staking.createValidator(" + x.name + ")", to: precomp.StakingAddr, data: precomp.MustPack(st, "createValidator", desc,
				commT{dec(x.rate), dec("0.20"), dec("0.01")}, x.minSelf, oHex, x.valAddr, base64.StdEncoding.EncodeToString(x.pk.Bytes()), x.value)}
			pkAny, err := codectypes.NewAnyWithValue(x.pk)
			if err != nil {
				panic(err)
			}
			c.native = []sdk.Msg{&stakingtypes.MsgCreateValidator{
				Description:       stakingtypes.Description{Moniker: "verif", Details: "d"},
				Commission:        stakingtypes.CommissionRates{Rate: sdk.MustNewDecFromStr(x.rate), MaxRate: sdk.MustNewDecFromStr("0.20"), MaxChangeRate: sdk.MustNewDecFromStr("0.01")},
				MinSelfDelegation: sdkmath.NewIntFromBigInt(x.minSelf), DelegatorAddress: O.String(), ValidatorAddress: x.valAddr, Pubkey: pkAny,
				Value: coin(sdkmath.NewIntFromBigInt(x.value))}}
			out = append(out, c)
		}
	}
	// distribution.withdrawValidatorCommission vs MsgWithdrawValidatorCommission, signed by V2's operator
	for _, v := range vals {
		c := call{name: "distribution.withdrawValidatorCommission(" + v.name + ")", to: precomp.DistrAddr, data: precomp.MustPack(di, "withdrawValidatorCommission", v.s), by: d.Op}
		if v.ok {
			c.native = []sdk.Msg{&distrtypes.MsgWithdrawValidatorCommission{ValidatorAddress: v.s}}
		}
		out = append(out, c)
	}
	pending := map[string]bool{}
	for i, v := range w.ValAddr {
		cctx, _ := ctx.CacheContext()
		if rw, err := w.App.DistrKeeper.WithdrawDelegationRewards(cctx, O, v); err == nil && !rw.IsZero() {
			pending[fmt.Sprintf("V%d", i+1)] = true
		}
	}
	for i := range out {
		p := false
		for k := range pending {
			if strings.Contains(out[i].name, k) || strings.Contains(out[i].name, "claimRewards") {
				p = true
			}
		}
		out[i].class = fmt.Sprintf("wd=%s|rewards=%s", wd, map[bool]string{true: "pending", false: "none"}[p])
	}
	return out
}

func methodOf(name string) string {
	if i := strings.IndexByte(name, '('); i > 0 {
		return name[:i]
	}
	return name
}

func argClass(name string) string {
	i := strings.IndexByte(name, '(')
	if i < 0 {
		return ""
	}
	return strings.TrimSuffix(name[i+1:], ")")
}

func (d *driver) dumpAll() map[string]map[string]string {
	ctx := d.w.App.BaseApp.VerifDeliverCtx()
	out := map[string]map[string]string{}
	for _, s := range d.all {
		out[s] = engine.DumpStore(ctx, d.w, s)
	}
	return out
}

// differential runs every call in the current state.
func (d *driver) differential(w *world.World, path []string, res *engine.Result) {
	for _, c := range d.calls() {
		p := append(append([]string{}, path...), c.name)
		// branch A: the precompile
		ra := w.Branch()
		by := d.O
		if c.by != 0 {
			by = c.by
		}
		r := w.Deliver(d.ethTxAs(by, c.to, c.data))
		okA := r.Code == 0
		if okA {
			if tr, err := evmtypes.DecodeTxResponse(r.Data); err == nil && tr.Failed() {
				okA = false
			}
		}
		a := d.dumpAll()
		ra()
		res.Transitions++
		res.Evaluations++
		viol := func(breach, what string, detail map[string]any) {
			// amount / address class only (which validator is named does not make a different finding)
			ac := argClass(c.name)
			for _, v := range []string{"V1>V2,", "V2>V1,", "V1>V1,", "V1,", "V2,"} {
				ac = strings.Replace(ac, v, "val,", 1)
			}
			res.AddViolation(engine.Violation{Signature: fmt.Sprintf("C16|method=%s|args=%s|breach=%s", methodOf(c.name), ac, breach), What: what, Path: p, Detail: detail})
		}
		// branch B: the native message(s)
		rb := w.Branch()
		okB := false
		var logB string
		if c.native == nil {
			// no native message can be formed from these arguments: it "fails" without effect,
			// but the signer's sequence still advances as for any failed transaction
			w.Deliver(d.cosmosTxAs(by, &banktypes.MsgSend{FromAddress: w.Addrs[by].String(), ToAddress: w.Addrs[by].String(), Amount: sdk.Coins{sdk.Coin{Denom: world.Denom, Amount: max256Int()}}}))
		} else if len(c.native) == 0 {
			w.Deliver(d.cosmosTxAs(by, banktypes.NewMsgSend(w.Addrs[by], w.Addrs[by], sdk.NewCoins(sdk.NewInt64Coin("atest", 1)))))
			okB = true
		} else {
			rr := w.Deliver(d.cosmosTxAs(by, c.native...))
			okB = rr.Code == 0
			logB = rr.Log
		}
		b := d.dumpAll()
		rb()
		if okA != okB {
			viol(c.class+"|verdict", "the precompile call and the native message do not succeed / fail in the same cases",
				map[string]any{"precompile_ok": okA, "native_ok": okB, "precompile_log": short(r.Log), "native_log": short(logB)})
			res.Outcomes["verdict-mismatch"]++
			continue
		}
		if okA {
			res.Outcomes["both-ok:"+methodOf(c.name)]++
			res.Nontrivial[strings.Join(p, "|")] = true
		} else {
			res.Outcomes["both-fail:"+methodOf(c.name)]++
		}
		for _, s := range d.all {
			diff := engine.DiffStores(b[s], a[s])
			if s == "acc" {
				diff = d.filterAcc(diff)
			}
			if s == "evm" {
				continue // receipts / code of the EVM side: not Cosmos state
			}
			if len(diff) > 0 {
				if len(diff) > 6 {
					diff = diff[:6]
				}
				res.AddViolation(engine.Violation{Signature: fmt.Sprintf("C16|method=%s|%s|breach=store=%s", methodOf(c.name), c.class, s),
					What: "state after the precompile call differs from the state after the native message", Path: p,
					Detail: map[string]any{"store": s, "native->precompile": diff, "ok": okA, "args": argClass(c.name)}})
			}
		}
	}
	d.queries(w, path, res)
}

func max256Int() sdkmath.Int {
	return sdkmath.NewIntFromBigInt(new(big.Int).Sub(new(big.Int).Lsh(big.NewInt(1), 255), big.NewInt(1)))
}

func short(s string) string {
	if len(s) > 240 {
		return s[:240]
	}
	return s
}

// ---- queries ------------------------------------------------------------------------------------

func (d *driver) query(a abi.ABI, to common.Address, method string, args ...interface{}) ([]interface{}, error) {
	w := d.w
	cctx, _ := w.Ctx().CacheContext()
	cctx = cctx.WithGasMeter(sdk.NewInfiniteGasMeter())
	from := w.Eth[d.O]
	data := hexutil.Bytes(precomp.MustPack(a, method, args...))
	argsBz, err := json.Marshal(evmtypes.TransactionArgs{From: &from, To: &to, Data: &data})
	if err != nil {
		return nil, err
	}
	// the public eth_call entry point
	resp, err := w.App.EvmKeeper.EthCall(sdk.WrapSDKContext(cctx), &evmtypes.EthCallRequest{Args: argsBz, GasCap: 25000000, ChainId: w.EIP155().Int64(), ProposerAddress: w.ValCons[0]})
	if err != nil {
		return nil, err
	}
	if resp.Failed() {
		return nil, fmt.Errorf("vm error: %s", resp.VmError)
	}
	return a.Unpack(method, resp.Ret)
}

func (d *driver) queries(w *world.World, path []string, res *engine.Result) {
	ctx := w.Ctx()
	O := w.Addrs[d.O]
	oHex := w.Eth[d.O]
	st := d.abis.Staking
	viol := func(method, what string, detail map[string]any) {
		res.AddViolation(engine.Violation{Signature: "C16|method=" + method + "|breach=query", What: what, Path: append(append([]string{}, path...), method), Detail: detail})
	}
	for vi, v := range w.ValAddr {
		res.Evaluations++
		out, err := d.query(st, precomp.StakingAddr, "delegation", oHex, v.String())
		wantShares, wantBal := big.NewInt(0), big.NewInt(0)
		if del, ok := w.App.StakingKeeper.GetDelegation(ctx, O, v); ok {
			vv, _ := w.App.StakingKeeper.GetValidator(ctx, v)
			wantShares = del.Shares.BigInt()
			wantBal = vv.TokensFromShares(del.Shares).TruncateInt().BigInt()
		}
		if err != nil {
			viol("staking.delegation", "delegation query failed", map[string]any{"err": err.Error()})
		} else {
			gotShares := out[0].(*big.Int)
			gotBal := fmt.Sprint(out[1])
			if gotShares.Cmp(wantShares) != 0 || !strings.Contains(gotBal, wantBal.String()) {
				viol("staking.delegation", "delegation reported by the precompile differs from the staking module", map[string]any{"validator": vi, "got": fmt.Sprint(out), "want_shares": wantShares.String(), "want_balance": wantBal.String()})
			}
		}
		// unbonding delegation
		res.Evaluations++
		out, err = d.query(st, precomp.StakingAddr, "unbondingDelegation", oHex, v.String())
		ubd, found := w.App.StakingKeeper.GetUnbondingDelegation(ctx, O, v)
		if err != nil {
			viol("staking.unbondingDelegation", "unbondingDelegation query failed", map[string]any{"err": err.Error()})
		} else {
			s := fmt.Sprint(out[0])
			n := 0
			if found {
				n = len(ubd.Entries)
				for _, e := range ubd.Entries {
					if !strings.Contains(s, e.Balance.String()) || !strings.Contains(s, fmt.Sprint(e.CreationHeight)) || !strings.Contains(s, fmt.Sprint(e.CompletionTime.UTC().Unix())) {
						viol("staking.unbondingDelegation", "an unbonding entry of the staking module is not reported by the precompile", map[string]any{"got": s, "entry": e.String()})
					}
				}
			}
			if cnt := strings.Count(s, "{"); found && cnt < n+1 || !found && strings.Contains(s, "[{") {
				viol("staking.unbondingDelegation", "number of unbonding entries differs", map[string]any{"got": s, "want_entries": n})
			}
		}
		// validator
		res.Evaluations++
		out, err = d.query(st, precomp.StakingAddr, "validator", v.String())
		vv, _ := w.App.StakingKeeper.GetValidator(ctx, v)
		if err != nil {
			viol("staking.validator", "validator query failed", map[string]any{"err": err.Error()})
		} else {
			s := fmt.Sprint(out[0])
			for _, want := range []string{vv.Tokens.String(), vv.DelegatorShares.BigInt().String(), vv.OperatorAddress} {
				if !strings.Contains(s, want) {
					viol("staking.validator", "validator reported by the precompile differs from the staking module", map[string]any{"got": s, "missing": want})
				}
			}
		}
	}
	// redelegation V1 -> V2
	res.Evaluations++
	out, err := d.query(st, precomp.StakingAddr, "redelegation", oHex, w.ValAddr[0].String(), w.ValAddr[1].String())
	red, found := w.App.StakingKeeper.GetRedelegation(ctx, O, w.ValAddr[0], w.ValAddr[1])
	if err != nil {
		viol("staking.redelegation", "redelegation query failed", map[string]any{"err": err.Error()})
	} else if found {
		s := fmt.Sprint(out[0])
		for _, e := range red.Entries {
			if !strings.Contains(s, e.InitialBalance.String()) || !strings.Contains(s, e.SharesDst.BigInt().String()) {
				viol("staking.redelegation", "a redelegation entry of the staking module is not reported by the precompile", map[string]any{"got": s, "entry": e.String()})
			}
		}
	}
	// validators(status, page) and redelegations(delegator, src, dst, page) against the native querier
	type pageT struct {
		Key        []byte
		Offset     uint64
		Limit      uint64
		CountTotal bool
		Reverse    bool
	}
	qs := stakingkeeper.Querier{Keeper: w.App.StakingKeeper.Keeper}
	for _, status := range []string{"", "BOND_STATUS_BONDED", "BOND_STATUS_UNBONDING", "BOND_STATUS_UNBONDED"} {
		for _, pg := range []pageT{{}, {Limit: 1, CountTotal: true}, {Offset: 1, Limit: 5}, {Limit: 5, Reverse: true}} {
			res.Evaluations++
			out, err := d.query(st, precomp.StakingAddr, "validators", status, pg)
			nat, nerr := qs.Validators(sdk.WrapSDKContext(ctx), &stakingtypes.QueryValidatorsRequest{Status: status,
				Pagination: &query.PageRequest{Key: pg.Key, Offset: pg.Offset, Limit: pg.Limit, CountTotal: pg.CountTotal, Reverse: pg.Reverse}})
			if (err != nil) != (nerr != nil) {
				viol("staking.validators", "the validators query and the native query do not succeed / fail alike", map[string]any{"status": status, "page": fmt.Sprint(pg), "err": fmt.Sprint(err), "native_err": fmt.Sprint(nerr)})
				continue
			}
			if err != nil {
				continue
			}
			s := fmt.Sprint(out[0])
			pos := 0
			for _, v := range nat.Validators {
				i := strings.Index(s[pos:], v.OperatorAddress)
				if i < 0 || !strings.Contains(s, v.Tokens.String()) {
					viol("staking.validators", "a validator of the native answer is missing (or out of order) in the precompile's answer", map[string]any{"status": status, "page": fmt.Sprint(pg), "got": short(s), "want": v.OperatorAddress})
					break
				}
				pos += i + 1
			}
			// field by field: tokens, shares, status and jailed flag of every listed validator
			if rv := reflect.ValueOf(out[0]); rv.Kind() == reflect.Slice && rv.Len() == len(nat.Validators) {
				for i, v := range nat.Validators {
					e := rv.Index(i)
					get := func(name string) string {
						f := e.FieldByName(name)
						if !f.IsValid() {
							return "<no field " + name + ">"
						}
						return fmt.Sprint(f.Interface())
					}
					if get("OperatorAddress") != v.OperatorAddress || get("Tokens") != v.Tokens.String() || get("DelegatorShares") != v.DelegatorShares.BigInt().String() ||
						get("Jailed") != fmt.Sprint(v.Jailed) || get("Status") != fmt.Sprint(uint8(v.Status)) {
						viol("staking.validators", "a listed validator's fields differ from the native answer", map[string]any{"status": status, "page": fmt.Sprint(pg), "index": i,
							"got":  fmt.Sprintf("%s tokens=%s shares=%s jailed=%s status=%s", get("OperatorAddress"), get("Tokens"), get("DelegatorShares"), get("Jailed"), get("Status")),
							"want": fmt.Sprintf("%s tokens=%s shares=%s jailed=%v status=%d", v.OperatorAddress, v.Tokens, v.DelegatorShares.BigInt(), v.Jailed, uint8(v.Status))})
						break
					}
				}
			}
			if n := strings.Count(s, "haqqvaloper"); n != len(nat.Validators) {
				viol("staking.validators", "number of validators differs from the native answer", map[string]any{"status": status, "page": fmt.Sprint(pg), "got": n, "want": len(nat.Validators)})
			}
			if tot := fmt.Sprint(out[1]); !strings.Contains(tot, fmt.Sprint(nat.Pagination.Total)) {
				viol("staking.validators", "page response differs from the native answer", map[string]any{"got": tot, "want": nat.Pagination.String()})
			}
		}
	}
	for _, q := range [][2]string{{w.ValAddr[0].String(), w.ValAddr[1].String()}, {w.ValAddr[0].String(), ""}, {"", ""}, {w.ValAddr[1].String(), w.ValAddr[0].String()}} {
		res.Evaluations++
		out, err := d.query(st, precomp.StakingAddr, "redelegations", oHex, q[0], q[1], pageT{})
		nat, nerr := qs.Redelegations(sdk.WrapSDKContext(ctx), &stakingtypes.QueryRedelegationsRequest{DelegatorAddr: O.String(), SrcValidatorAddr: q[0], DstValidatorAddr: q[1], Pagination: &query.PageRequest{}})
		if (err != nil) != (nerr != nil) {
			viol("staking.redelegations", "the redelegations query and the native query do not succeed / fail alike", map[string]any{"src": q[0], "dst": q[1], "err": fmt.Sprint(err), "native_err": fmt.Sprint(nerr)})
			continue
		}
		if err != nil {
			continue
		}
		s := fmt.Sprint(out[0])
		n := 0
		for _, r := range nat.RedelegationResponses {
			for _, e := range r.Entries {
				n++
				if !strings.Contains(s, e.Balance.String()) || !strings.Contains(s, e.RedelegationEntry.InitialBalance.String()) || !strings.Contains(s, r.Redelegation.ValidatorDstAddress) {
					viol("staking.redelegations", "a redelegation entry of the native answer is missing in the precompile's answer", map[string]any{"got": short(s), "entry": e.String()})
				}
			}
		}
		if n == 0 && strings.Contains(s, "haqqvaloper") {
			viol("staking.redelegations", "the precompile reports redelegations the native query does not", map[string]any{"got": short(s)})
		}
	}
	// bank precompile: balances / totalSupply / supplyOf for every denomination with an ERC20 address
	bk := d.abis.Bank
	pairs := w.App.Erc20Keeper.GetTokenPairs(ctx)
	type ba struct {
		ContractAddress common.Address
		Amount          *big.Int
	}
	for _, who := range []int{d.O, d.W} {
		res.Evaluations++
		out, err := d.query(bk, precomp.BankAddr, "balances", w.Eth[who])
		if err != nil {
			viol("bank.balances", "balances query failed", map[string]any{"err": err.Error()})
			continue
		}
		s := fmt.Sprint(out[0])
		for _, pr := range pairs {
			bal := w.App.BankKeeper.GetBalance(ctx, w.Addrs[who], pr.Denom).Amount
			want := fmt.Sprintf("{%s %s}", pr.GetERC20Contract().Hex(), bal.String())
			if bal.IsPositive() && !strings.Contains(s, want) {
				viol("bank.balances", "a balance of a denomination with an ERC20 address is not reported as the bank module has it", map[string]any{"got": s, "want": want})
			}
		}
		if cnt := strings.Count(s, "{"); cnt > len(pairs) {
			viol("bank.balances", "more balances reported than denominations with an ERC20 address", map[string]any{"got": s})
		}
	}
	res.Evaluations++
	out, err = d.query(bk, precomp.BankAddr, "totalSupply")
	if err != nil {
		viol("bank.totalSupply", "totalSupply query failed", map[string]any{"err": err.Error()})
	} else {
		s := fmt.Sprint(out[0])
		for _, pr := range pairs {
			sup := w.App.BankKeeper.GetSupply(ctx, pr.Denom).Amount
			want := fmt.Sprintf("{%s %s}", pr.GetERC20Contract().Hex(), sup.String())
			if !strings.Contains(s, want) {
				viol("bank.totalSupply", "supply of a denomination with an ERC20 address is not reported as the bank module has it", map[string]any{"got": s, "want": want})
			}
			res.Evaluations++
			o2, err := d.query(bk, precomp.BankAddr, "supplyOf", pr.GetERC20Contract())
			if err != nil || o2[0].(*big.Int).Cmp(sup.BigInt()) != 0 {
				viol("bank.supplyOf", "supplyOf differs from the bank module", map[string]any{"got": fmt.Sprint(o2), "want": sup.String(), "err": fmt.Sprint(err)})
			}
		}
	}
	// many denominations: every IBC voucher has an ERC20 address without any registration, so a chain
	// easily has more of them than one query page holds (root state only; on a branch)
	if len(path) == 0 {
		restore := w.Branch()
		var minted sdk.Coins
		for i := 0; i < 130; i++ {
			h := sha256.Sum256([]byte(fmt.Sprintf("verif-voucher-%d", i)))
			minted = minted.Add(sdk.NewInt64Coin("ibc/"+strings.ToUpper(hex.EncodeToString(h[:])), int64(1000+i)))
		}
		if err := w.App.BankKeeper.MintCoins(w.Ctx(), erc20types.ModuleName, minted); err != nil {
			panic(err)
		}
		want := 0
		w.App.BankKeeper.IterateTotalSupply(w.Ctx(), func(c sdk.Coin) bool {
			if _, err := w.App.Erc20Keeper.GetCoinAddress(w.Ctx(), c.Denom); err == nil {
				want++
			}
			return false
		})
		res.Evaluations++
		if out, err := d.query(bk, precomp.BankAddr, "totalSupply"); err != nil {
			viol("bank.totalSupply", "totalSupply query failed with many denominations", map[string]any{"err": err.Error()})
		} else if got := reflect.ValueOf(out[0]).Len(); got != want {
			viol("bank.totalSupply", "totalSupply does not list every denomination that has an ERC20 address", map[string]any{"listed": got, "want": want})
		}
		restore()
	}
}

func bounds(tier string) int {
	if tier == "thorough" {
		return 3
	}
	return 2
}

func Worker(shard, n int, tier string) *engine.Result {
	d := newDriver(tier)
	res := engine.NewResult(Prop)
	e := &engine.Explorer{W: d.w, Res: res, Stores: []string{"staking", "distribution", "bank", "acc", "erc20"}, Ops: d.baseOps, MaxDepth: bounds(tier),
		Shard: shard, NShards: n, Deadline: time.Now().Add(20 * time.Minute),
		Extra:     func(w *world.World) string { return fmt.Sprint(w.Header.Height) },
		Invariant: func(w *world.World, p []string, res *engine.Result) { d.differential(w, p, res) },
	}
	if shard != 0 {
		// the root state is evaluated by shard 0 only
		inv := e.Invariant
		first := true
		e.Invariant = func(w *world.World, p []string, res *engine.Result) {
			if first && len(p) == 0 {
				first = false
				return
			}
			inv(w, p, res)
		}
	}
	e.Run()
	return res
}

func Run(tier string) int {
	start := time.Now()
	res := engine.RunSharded(Prop, tier, 5, Worker)
	res.TracesImpl = res.Transitions
	res.Sample(map[string]any{"base_state": []string{"undelegate(V1,2e19)", "nextblock"}, "call": "staking.cancelUnbonding(V1,mid,h-1)"})
	return engine.Finish(res, engine.Meta{
		Property: Prop, Tier: tier, Level: "model_checking", Start: start,
		Rule:   "base states: all sequences <= depth of {delegate V2, undelegate V1, redelegate V1>V2, set withdraw address, block boundary, a block reaching the completion time of the entries created so far, V2 jailed and out of the bonded set, V1 slashed for the previous block, MaxEntries lowered to 1, token-pair conversion toggled}; all amounts beyond 2^63 base units with digest dedup; in each, every staking / distribution / ICS-20 tx method (incl. createValidator and withdrawValidatorCommission by a validator operator) x argument grid as fork differential (eth tx to the precompile vs Cosmos tx with the native message, both through DeliverTx) with a diff of ALL persistent stores, plus query methods vs module state and the native querier (validators: 4 statuses x 4 page requests; redelegations: 4 filters); non-trivial = differential in which both sides succeeded",
		Bounds: map[string]any{"base_depth": bounds(tier)},
		Assumptions: []string{
			"gas price 0 so that fees do not enter the comparison ('balances apart from gas')",
			"claimRewards(n) is compared with n native MsgWithdrawDelegatorReward in the keeper's delegation order",
			"ICS-20 transfers run over two transfer channel ends written on ibc-go's sentinel localhost connection",
			"validator V2's operator address is an account of the fixture (so that withdrawValidatorCommission can be signed); V1's is derived from its consensus key",
			"query outputs are compared on the module's figures being present in the decoded output",
		},
	})
}

// filterAcc drops the EVM-side artefacts from an acc-store diff: the account record the EVM
// creates for the precompile address it touched, its account-number index entry and the global
// account-number counter.
func (d *driver) filterAcc(diff []string) []string {
	var out []string
	for _, l := range diff {
		if strings.HasPrefix(l, "676c6f62616c4163636f756e744e756d626572:") { // globalAccountNumber
			continue
		}
		if strings.HasPrefix(l, "6163636f756e744e756d626572") { // accountNumber index (numbers are shifted, see below)
			continue
		}
		if strings.Contains(l, strings.Repeat("0", 36)+"080") { // 0x..0800-0x..0804
			continue
		}
		// an account record that differs only in its sequence number (how many transactions of
		// the signer reached the sequence increment is a property of the envelope, not of the message)
		if parts := strings.SplitN(l, ": ", 2); len(parts) == 2 && strings.HasPrefix(parts[0], "01") {
			ab := strings.SplitN(parts[1], " -> ", 2)
			if len(ab) == 2 && d.sameButSequence(ab[0], ab[1]) {
				continue
			}
		}
		out = append(out, l)
	}
	return out
}

func (d *driver) sameButSequence(a, b string) bool {
	norm := func(h string) string {
		bz, err := hex.DecodeString(h)
		if err != nil {
			return h
		}
		acc, err := d.w.App.AccountKeeper.UnmarshalAccount(bz)
		if err != nil {
			return h
		}
		_ = acc.SetSequence(0)
		_ = acc.SetAccountNumber(0) // shifted by the account the EVM created for the precompile address
		out, err := d.w.App.AccountKeeper.MarshalAccount(acc)
		if err != nil {
			return h
		}
		return hex.EncodeToString(out)
	}
	return norm(a) == norm(b)
}
