// Package c14: slashing and deposit burns go to the community pool, not to zero.
//
// E1: all sequences <= depth over {double-sign evidence for either validator, a downtime window,
// delegate / undelegate / redelegate, a vetoed proposal, an under-funded proposal, a proposal
// without quorum (deposits in two denominations), plain block}, on virtual blocks with the real
// BeginBlock / EndBlock.  Around EVERY block boundary a conservation oracle is evaluated: supply
// unchanged, and what left the staking pools and the gov account without reaching an account
// equals the growth of the community pool and of the distribution module account; all registered
// invariants must hold.
package c14

import (
	"fmt"
	"strings"
	"time"

	sdkmath "cosmossdk.io/math"
	abci "github.com/cometbft/cometbft/abci/types"
	sdk "github.com/cosmos/cosmos-sdk/types"
	authtypes "github.com/cosmos/cosmos-sdk/x/auth/types"
	distrtypes "github.com/cosmos/cosmos-sdk/x/distribution/types"
	govtypes "github.com/cosmos/cosmos-sdk/x/gov/types"
	govv1 "github.com/cosmos/cosmos-sdk/x/gov/types/v1"
	stakingtypes "github.com/cosmos/cosmos-sdk/x/staking/types"

	"github.com/haqq-network/haqq/app"
	haqqtypes "github.com/haqq-network/haqq/types"

	"verif/harness/engine"
	"verif/harness/world"
)

const Prop = "C14"

type driver struct {
	w     *world.World
	pools []sdk.AccAddress
	distr sdk.AccAddress
	tier  string
	bond  string // the staking module's bond denomination
}

func e18(n int64) sdkmath.Int { return sdkmath.NewInt(n).Mul(sdkmath.NewInt(1000000000000000000)) }

func newDriver(tier, bond string) *driver {
	tax := sdk.NewDecWithPrec(2, 2)
	w := world.New(world.Options{NumAccounts: 5, NumVals: 2, FastGov: true, SlashWindow: 10, UnbondingTime: 30 * time.Second, CommunityTax: &tax, BondDenom: bond,
		ExtraCoins: sdk.NewCoins(sdk.NewCoin("atest", e18(1000000))),
		Patch: func(a *app.Haqq, gs haqqtypes.GenesisState) haqqtypes.GenesisState {
			var gg govv1.GenesisState
			a.AppCodec().MustUnmarshalJSON(gs[govtypes.ModuleName], &gg)
			gg.Params.BurnVoteQuorum = true
			gg.Params.BurnProposalDepositPrevote = true
			gg.Params.BurnVoteVeto = true
			gg.Params.MinDeposit = sdk.NewCoins(sdk.NewCoin(world.Denom, e18(40)))
			gs[govtypes.ModuleName] = a.AppCodec().MustMarshalJSON(&gg)
			return gs
		}})
	d := &driver{w: w, tier: tier, bond: bond}
	for _, n := range []string{stakingtypes.BondedPoolName, stakingtypes.NotBondedPoolName, govtypes.ModuleName} {
		d.pools = append(d.pools, authtypes.NewModuleAddress(n))
	}
	d.distr = authtypes.NewModuleAddress(distrtypes.ModuleName)
	ctx := w.Ctx()
	// the module accounts are recorded with the permissions every exported genesis / long-running chain
	// carries for them (the stored record, not the binary's table, is what HasPermission reads)
	for n, perms := range map[string][]string{stakingtypes.BondedPoolName: {authtypes.Burner, authtypes.Staking},
		stakingtypes.NotBondedPoolName: {authtypes.Burner, authtypes.Staking}, govtypes.ModuleName: {authtypes.Burner}} {
		acc := w.App.AccountKeeper.GetModuleAccount(ctx, n)
		w.App.AccountKeeper.SetModuleAccount(ctx, authtypes.NewModuleAccount(authtypes.NewBaseAccount(acc.GetAddress(), nil, acc.GetAccountNumber(), acc.GetSequence()), n, perms...))
	}
	// stake configuration: A1 bonded with both validators, an unbonding entry and a redelegation
	must := func(msg sdk.Msg) {
		if _, err := w.RunMsg(ctx, msg); err != nil {
			panic(err)
		}
	}
	A1 := w.Addrs[1]
	// (amounts such that every slash and every burnt deposit exceeds 2^63 base units)
	must(stakingtypes.NewMsgDelegate(A1, w.ValAddr[0], sdk.NewCoin(bond, e18(4000))))
	must(stakingtypes.NewMsgDelegate(A1, w.ValAddr[1], sdk.NewCoin(bond, e18(4000))))
	w.NextBlock(6 * time.Second)
	ctx = w.Ctx()
	must(stakingtypes.NewMsgUndelegate(A1, w.ValAddr[1], sdk.NewCoin(bond, e18(1000))))
	must(stakingtypes.NewMsgBeginRedelegate(A1, w.ValAddr[1], w.ValAddr[0], sdk.NewCoin(bond, e18(1000))))
	w.NextBlock(6 * time.Second)
	// the community pool holds a non-integer amount, as on any chain that has distributed fees: an odd
	// amount of fees in two denominations is allocated (community tax 2%) before the exploration starts
	if err := w.App.BankKeeper.SendCoinsFromAccountToModule(w.Ctx(), w.Addrs[2], authtypes.FeeCollectorName,
		sdk.NewCoins(sdk.NewInt64Coin(world.Denom, 1001), sdk.NewInt64Coin("atest", 33))); err != nil {
		panic(err)
	}
	w.NextBlock(6 * time.Second)
	if pool := w.App.DistrKeeper.GetFeePoolCommunityCoins(w.Ctx()); pool.IsZero() || pool.IsEqual(sdk.NewDecCoinsFromCoins(func() sdk.Coins { c, _ := pool.TruncateDecimal(); return c }()...)) {
		panic("fixture: community pool is not fractional: " + pool.String())
	}
	return d
}

type snap struct {
	supply   sdk.Coins
	pools    sdk.Coins
	accounts sdk.Coins
	distr    sdk.Coins
	pool     sdk.DecCoins
}

func (d *driver) snapshot() snap {
	w := d.w
	ctx := w.Ctx()
	var s snap
	s.supply = sdk.NewCoins(w.App.BankKeeper.GetSupply(ctx, world.Denom), w.App.BankKeeper.GetSupply(ctx, "atest"))
	for _, p := range d.pools {
		s.pools = s.pools.Add(w.App.BankKeeper.GetAllBalances(ctx, p)...)
	}
	for _, a := range w.Addrs {
		s.accounts = s.accounts.Add(w.App.BankKeeper.GetAllBalances(ctx, a)...)
	}
	s.distr = w.App.BankKeeper.GetAllBalances(ctx, d.distr)
	s.pool = w.App.DistrKeeper.GetFeePoolCommunityCoins(ctx)
	return s
}

// boundary runs one virtual block boundary with the conservation oracle around it.
func (d *driver) boundary(res *engine.Result, p []string, source string, absent map[int]bool, ev []abci.Misbehavior) {
	w := d.w
	a := d.snapshot()
	w.VirtualNextBlock(6*time.Second, absent, ev)
	b := d.snapshot()
	res.Evaluations++
	viol := func(breach, what string, detail map[string]any) {
		sig := fmt.Sprintf("C14|source=%s|breach=%s", source, breach)
		if d.bond != world.Denom {
			sig += "|bond=other"
			p = append([]string{"fixture=bond-denom-" + d.bond}, p...)
		}
		res.AddViolation(engine.Violation{Signature: sig, What: what, Path: p, Detail: detail})
	}
	if !a.supply.IsEqual(b.supply) {
		viol("supply", "total supply changed over a block in which only slashing / deposit burns can destroy coins", map[string]any{"before": a.supply.String(), "after": b.supply.String()})
	}
	// what left the pools and did not reach an account was "burned"
	left, neg := a.pools.SafeSub(b.pools...)
	if neg {
		left = sdk.NewCoins()
		for _, c := range a.pools {
			if bb := b.pools.AmountOf(c.Denom); bb.LT(c.Amount) {
				left = left.Add(sdk.NewCoin(c.Denom, c.Amount.Sub(bb)))
			}
		}
	}
	gained := sdk.NewCoins()
	for _, c := range b.accounts {
		if aa := a.accounts.AmountOf(c.Denom); c.Amount.GT(aa) {
			gained = gained.Add(sdk.NewCoin(c.Denom, c.Amount.Sub(aa)))
		}
	}
	burned, neg2 := left.SafeSub(gained...)
	if neg2 {
		burned = sdk.NewCoins()
	}
	poolDelta := b.pool.Sub(a.pool)
	distrDelta := b.distr.Sub(a.distr...)
	if !burned.IsZero() {
		res.Nontrivial[fmt.Sprintf("%s|%s|%s", d.bond, source, burned)] = true
		res.Outcomes["burn:"+source]++
	}
	wantPool := sdk.NewDecCoinsFromCoins(burned...)
	if !poolDelta.IsEqual(wantPool) {
		viol("pool", "the community pool did not grow by exactly the coins taken from the staking pools / gov account", map[string]any{"burned": burned.String(), "pool_delta": poolDelta.String()})
	}
	if !distrDelta.IsEqual(burned) {
		viol("module", "the distribution module account did not receive exactly the coins taken from the staking pools / gov account", map[string]any{"burned": burned.String(), "module_delta": distrDelta.String()})
	}
	ctx := w.Ctx()
	for _, r := range w.App.CrisisKeeper.Routes() {
		if msg, broken := r.Invar(ctx); broken {
			if len(msg) > 200 {
				msg = msg[:200]
			}
			viol("invariant:"+r.FullRoute(), "a registered invariant is broken", map[string]any{"msg": msg})
		}
	}
}

func (d *driver) ops(w *world.World, depth int, path []string) []engine.Op {
	var out []engine.Op
	add := func(name string, f func(p []string, res *engine.Result) string) {
		out = append(out, engine.Op{Name: name, Apply: func(w *world.World, p []string, res *engine.Result) string { return f(p, res) }})
	}
	add("block", func(p []string, res *engine.Result) string { d.boundary(res, p, "none", nil, nil); return "ok" })
	for vi := 0; vi < 2; vi++ {
		vi := vi
		add(fmt.Sprintf("evidence(V%d)", vi+1), func(p []string, res *engine.Result) string {
			ev := []abci.Misbehavior{{Type: abci.MisbehaviorType_DUPLICATE_VOTE, Validator: abci.Validator{Address: w.ValCons[vi], Power: 3001},
				Height: 2, Time: world.GenesisTime.Add(12 * time.Second), TotalVotingPower: 2}}
			d.boundary(res, p, "slash-doublesign", nil, ev)
			return "ok"
		})
	}
	add("downtime(V2)", func(p []string, res *engine.Result) string {
		for i := 0; i < 7; i++ {
			d.boundary(res, p, "slash-downtime", map[int]bool{1: true}, nil)
		}
		return "ok"
	})
	A1, A2 := w.Addrs[1], w.Addrs[2]
	msgOp := func(name string, mk func() sdk.Msg) {
		add(name, func(p []string, res *engine.Result) string {
			if _, err := w.RunMsg(w.Ctx(), mk()); err != nil {
				return engine.ErrClass(err)
			}
			return "ok"
		})
	}
	msgOp("delegate(A1>V2)", func() sdk.Msg { return stakingtypes.NewMsgDelegate(A1, w.ValAddr[1], sdk.NewCoin(d.bond, e18(500))) })
	msgOp("undelegate(A1<V2)", func() sdk.Msg {
		return stakingtypes.NewMsgUndelegate(A1, w.ValAddr[1], sdk.NewCoin(d.bond, e18(500)))
	})
	msgOp("redelegate(A1:V1>V2)", func() sdk.Msg {
		return stakingtypes.NewMsgBeginRedelegate(A1, w.ValAddr[0], w.ValAddr[1], sdk.NewCoin(d.bond, e18(500)))
	})
	// bank send restrictions concern user transfers only: they must not turn the redirect into a burn
	add("sendDisabled(aISLM)", func(p []string, res *engine.Result) string {
		if !w.App.BankKeeper.IsSendEnabledDenom(w.Ctx(), world.Denom) {
			return "skip"
		}
		w.App.BankKeeper.SetSendEnabled(w.Ctx(), world.Denom, false)
		return "ok"
	})
	add("sendDisabled(default)", func(p []string, res *engine.Result) string {
		bp := w.App.BankKeeper.GetParams(w.Ctx())
		if !bp.DefaultSendEnabled {
			return "skip"
		}
		bp.DefaultSendEnabled = false
		if err := w.App.BankKeeper.SetParams(w.Ctx(), bp); err != nil {
			panic(err)
		}
		return "ok"
	})
	// governance sets the community tax to zero: the redirect does not depend on it
	add("communityTax(0)", func(p []string, res *engine.Result) string {
		dp := w.App.DistrKeeper.GetParams(w.Ctx())
		if dp.CommunityTax.IsZero() {
			return "skip"
		}
		dp.CommunityTax = sdk.ZeroDec()
		if err := w.App.DistrKeeper.SetParams(w.Ctx(), dp); err != nil {
			panic(err)
		}
		return "ok"
	})
	proposal := func(name string, deposit sdk.Coins, vote *govv1.VoteOption, blocks int, source string) {
		add(name, func(p []string, res *engine.Result) string {
			m, err := govv1.NewMsgSubmitProposal(nil, deposit, A2.String(), "ipfs://verif", name, name)
			if err != nil {
				panic(err)
			}
			if _, err := w.RunMsg(w.Ctx(), m); err != nil {
				return engine.ErrClass(err)
			}
			if vote != nil {
				id, _ := w.App.GovKeeper.GetProposalID(w.Ctx())
				if _, err := w.RunMsg(w.Ctx(), govv1.NewMsgVote(w.Addrs[0], id-1, *vote, "")); err != nil {
					return engine.ErrClass(err)
				}
			}
			for i := 0; i < blocks; i++ {
				d.boundary(res, p, source, nil, nil)
			}
			return "ok"
		})
	}
	veto := govv1.OptionNoWithVeto
	two := sdk.NewCoins(sdk.NewCoin(world.Denom, e18(40)), sdk.NewInt64Coin("atest", 5))
	proposal("vetoedProposal", two, &veto, 3, "gov-veto")
	proposal("noQuorumProposal", two, nil, 3, "gov-noquorum")
	proposal("underfundedProposal", sdk.NewCoins(sdk.NewCoin(world.Denom, e18(20)), sdk.NewInt64Coin("atest", 5)), nil, 3, "gov-underfunded")
	return out
}

func bounds(tier string) int {
	if tier == "thorough" {
		return 5
	}
	return 3
}

func Worker(shard, n int, tier string) *engine.Result {
	res := engine.NewResult(Prop)
	// two chains: the usual one, and one whose staking bond denomination is not the native coin (the
	// redirect is about what the staking pools and gov would burn, whatever it is denominated in)
	for _, bond := range []string{world.Denom, "atest"} {
		d := newDriver(tier, bond)
		sub := engine.NewResult(Prop)
		depth := bounds(tier)
		if bond != world.Denom {
			depth-- // the second chain one level less deep
		}
		e := &engine.Explorer{W: d.w, Res: sub, Stores: []string{"staking", "distribution", "bank", "gov", "slashing"}, Ops: d.ops, MaxDepth: depth,
			Shard: shard, NShards: n, Deadline: time.Now().Add(25 * time.Minute), NoDedup: true,
			Extra: func(w *world.World) string { return fmt.Sprint(w.Header.Height) }}
		e.Run()
		for k, v := range sub.States {
			res.States["bond="+bond+"|"+k] = v
		}
		sub.States = map[string]int{}
		res.Merge(sub)
	}
	return res
}

func Run(tier string) int {
	start := time.Now()
	res := engine.RunSharded(Prop, tier, 10, Worker)
	res.TracesImpl = res.Evaluations
	res.Sample(map[string]any{"path": []string{"undelegate(A1<V2)", "evidence(V2)", "vetoedProposal"}})
	for _, src := range []string{"slash-doublesign", "slash-downtime", "gov-veto", "gov-noquorum", "gov-underfunded"} {
		if res.Outcomes["burn:"+src] == 0 {
			res.HarnessErr = "vacuous: no coins were ever taken from the pools for source " + src
		}
	}
	var ss []string
	for k := range res.Outcomes {
		if strings.HasPrefix(k, "burn:") {
			ss = append(ss, k)
		}
	}
	return engine.Finish(res, engine.Meta{
		Property: Prop, Tier: tier, Level: "model_checking", Start: start,
		Rule:   "all sequences <= depth over 13 operations (bank send-enabled switched off for the native denomination / by default, community tax set to zero, double-sign evidence per validator with an early infraction height so that unbonding and redelegating stake is slashed too, 7-block downtime window, delegate / undelegate / redelegate, vetoed / no-quorum / under-funded proposal with a two-denomination deposit, plain block) from a fixture holding bonded, unbonding and redelegating stake, with amounts such that every slash and burnt deposit exceeds 2^63 base units; the same on a second chain whose staking bond denomination is not the native coin (one level less deep); conservation oracle around every virtual block boundary; non-trivial = boundary at which coins were taken, distinct by (source, amount)",
		Bounds: map[string]any{"depth": bounds(tier)},
		Assumptions: []string{
			"coinomics off, zero fees: the community pool has no other inflow",
			"module accounts of gov and the staking pools stored with their historic permissions (burner[, staking]), as in any exported genesis",
			"'burned' is computed by conservation (what left the staking pools and the gov account minus what accounts gained), not from the implementation's own figures",
			"virtual block boundary (real EndBlock/BeginBlock, no IAVL commit)",
		},
	})
}
