// Package c04: precompiles act only for the signer or caller, within grants.
//
// Part A (identity matrix, exhaustive grid): every state-changing staking / distribution method x
// calling position {signer directly, contract, nested contract} x named account {signer, calling
// contract, third party, other contract} x grant states; each as a synthesised call tree through
// the real DeliverTx; a frame rule is evaluated on a before/after snapshot of every account's
// protected resources.
// Part B (allowance histories, E1): all sequences <= depth over approve / increase / decrease /
// revoke / native grant with allow-list / spend through a contract (failure bubbled or swallowed)
// / expiry jump; a per-step allowance rule is evaluated on the stored grant and the delegation.
package c04

import (
	"fmt"
	"math/big"
	"sort"
	"strings"
	"time"

	sdkmath "cosmossdk.io/math"
	sdk "github.com/cosmos/cosmos-sdk/types"
	"github.com/cosmos/cosmos-sdk/x/authz"
	banktypes "github.com/cosmos/cosmos-sdk/x/bank/types"
	stakingtypes "github.com/cosmos/cosmos-sdk/x/staking/types"
	transfertypes "github.com/cosmos/ibc-go/v7/modules/apps/transfer/types"
	"github.com/ethereum/go-ethereum/common"

	evmtypes "github.com/haqq-network/haqq/x/evm/types"

	"verif/harness/calltree"
	"verif/harness/engine"
	"verif/harness/precomp"
	"verif/harness/props/c05"
	"verif/harness/world"
)

const Prop = "C04"

const (
	delegateURL   = "/cosmos.staking.v1beta1.MsgDelegate"
	undelegateURL = "/cosmos.staking.v1beta1.MsgUndelegate"
)

type env struct {
	f *c05.Fixture
	w *world.World
}

func (e *env) acc(name string) sdk.AccAddress {
	w, f := e.w, e.f
	switch name {
	case "S":
		return w.Addrs[f.S]
	case "T":
		return w.Addrs[f.T]
	case "W":
		return w.Addrs[f.Wd]
	case "C":
		return sdk.AccAddress(world.ContractAddr(0x10).Bytes())
	case "D":
		return sdk.AccAddress(world.ContractAddr(0x11).Bytes())
	}
	panic(name)
}

var watched = []string{"S", "T", "W", "C", "D"}

// resources is the protected state of one account.
type resources struct {
	balance   sdkmath.Int
	stake     map[string]sdk.Dec // validator -> shares
	unbonding sdkmath.Int
	withdraw  string
	rewards   sdk.DecCoins
	grants    string // grants given BY the account, canonical string
}

func (e *env) snapshot() map[string]resources {
	w := e.w
	ctx := w.Ctx()
	out := map[string]resources{}
	for _, n := range watched {
		a := e.acc(n)
		r := resources{balance: w.App.BankKeeper.GetBalance(ctx, a, world.Denom).Amount, stake: map[string]sdk.Dec{}, unbonding: sdkmath.ZeroInt()}
		for _, d := range w.App.StakingKeeper.GetDelegatorDelegations(ctx, a, 100) {
			r.stake[d.ValidatorAddress] = d.Shares
		}
		for _, u := range w.App.StakingKeeper.GetUnbondingDelegations(ctx, a, 100) {
			for _, en := range u.Entries {
				r.unbonding = r.unbonding.Add(en.Balance)
			}
		}
		r.withdraw = w.App.DistrKeeper.GetDelegatorWithdrawAddr(ctx, a).String()
		cctx, _ := ctx.CacheContext()
		for _, v := range w.ValAddr {
			if _, ok := r.stake[v.String()]; ok {
				if rw, err := w.App.DistrKeeper.WithdrawDelegationRewards(cctx, a, v); err == nil {
					r.rewards = r.rewards.Add(sdk.NewDecCoinsFromCoins(rw...)...)
				}
			}
		}
		var gs []string
		for _, grantee := range watched {
			if grantee == n {
				continue
			}
			auths, _ := w.App.AuthzKeeper.GetAuthorizations(ctx, e.acc(grantee), a)
			for _, au := range auths {
				gs = append(gs, fmt.Sprintf("%s:%s:%v", grantee, au.MsgTypeURL(), au))
			}
		}
		sort.Strings(gs)
		r.grants = strings.Join(gs, ";")
		out[n] = r
	}
	return out
}

// harmed lists what an account lost / had changed between two snapshots.
func harmed(a, b resources) []string {
	var out []string
	if b.balance.LT(a.balance) {
		out = append(out, "funds")
	}
	for v, sh := range a.stake {
		if nb, ok := b.stake[v]; !ok || !nb.Equal(sh) {
			out = append(out, "stake")
			break
		}
	}
	if len(b.stake) != len(a.stake) {
		out = append(out, "stake")
	}
	if !b.unbonding.Equal(a.unbonding) {
		out = append(out, "unbonding")
	}
	if b.withdraw != a.withdraw {
		out = append(out, "withdraw-address")
	}
	// pending rewards taken out (one base unit of slack for the re-truncation of a new period)
	if a.rewards.AmountOf(world.Denom).Sub(b.rewards.AmountOf(world.Denom)).GT(sdk.OneDec()) {
		out = append(out, "rewards")
	}
	if b.grants != a.grants {
		out = append(out, "grants")
	}
	return out
}

// ---- part A -------------------------------------------------------------------------------------

type scen struct {
	pos    string // direct | C | D
	method string
	named  string // S | caller | T | other
	grant  string // none | S->caller | T->caller | both
	wd     string // withdraw address of the third party: "" (its own) | caller | S
}

func (s scen) String() string {
	if s.wd != "" {
		return fmt.Sprintf("%s by %s named=%s grants=%s withdraw(T)=%s", s.method, s.pos, s.named, s.grant, s.wd)
	}
	return fmt.Sprintf("%s by %s named=%s grants=%s", s.method, s.pos, s.named, s.grant)
}

var methodsA = []string{"staking.delegate", "staking.undelegate", "staking.redelegate", "staking.cancelUnbondingDelegation",
	"distribution.setWithdrawAddress", "distribution.withdrawDelegatorRewards", "distribution.claimRewards",
	"staking.approve", "staking.increaseAllowance", "staking.decreaseAllowance", "staking.revoke",
	"ics20.transfer", "ics20.approve", "ics20.increaseAllowance", "ics20.decreaseAllowance", "ics20.revoke"}

func (e *env) leaf(method string, named common.Address, caller common.Address) *calltree.Leaf {
	w, f := e.w, e.f
	st, di := f.ABIs.Staking, f.ABIs.Distr
	v1, v2 := w.ValAddr[0].String(), w.ValAddr[1].String()
	amt := big.NewInt(1000)
	urls := []string{delegateURL}
	switch method {
	case "staking.delegate":
		return &calltree.Leaf{Name: method, To: precomp.StakingAddr, Data: precomp.MustPack(st, "delegate", named, v1, amt)}
	case "staking.undelegate":
		return &calltree.Leaf{Name: method, To: precomp.StakingAddr, Data: precomp.MustPack(st, "undelegate", named, v1, amt)}
	case "staking.redelegate":
		return &calltree.Leaf{Name: method, To: precomp.StakingAddr, Data: precomp.MustPack(st, "redelegate", named, v1, v2, amt)}
	case "staking.cancelUnbondingDelegation":
		return &calltree.Leaf{Name: method, To: precomp.StakingAddr, Data: precomp.MustPack(st, "cancelUnbondingDelegation", named, v1, amt, big.NewInt(w.Header.Height))}
	case "distribution.setWithdrawAddress":
		return &calltree.Leaf{Name: method, To: precomp.DistrAddr, Data: precomp.MustPack(di, "setWithdrawAddress", named, sdk.AccAddress(caller.Bytes()).String())}
	case "distribution.withdrawDelegatorRewards":
		return &calltree.Leaf{Name: method, To: precomp.DistrAddr, Data: precomp.MustPack(di, "withdrawDelegatorRewards", named, v1)}
	case "distribution.claimRewards":
		return &calltree.Leaf{Name: method, To: precomp.DistrAddr, Data: precomp.MustPack(di, "claimRewards", named, uint32(5))}
	// the authorization methods take the grantee; the granter is always the transaction origin.
	// "named" is used as grantee here: the question is whose grants change.
	case "staking.approve":
		return &calltree.Leaf{Name: method, To: precomp.StakingAddr, Data: precomp.MustPack(st, "approve", caller, big.NewInt(77), urls)}
	case "staking.increaseAllowance":
		return &calltree.Leaf{Name: method, To: precomp.StakingAddr, Data: precomp.MustPack(st, "increaseAllowance", caller, big.NewInt(7), urls)}
	case "staking.decreaseAllowance":
		return &calltree.Leaf{Name: method, To: precomp.StakingAddr, Data: precomp.MustPack(st, "decreaseAllowance", caller, big.NewInt(7), urls)}
	case "staking.revoke":
		return &calltree.Leaf{Name: method, To: precomp.StakingAddr, Data: precomp.MustPack(st, "revoke", caller, urls)}
	case "ics20.transfer":
		return &calltree.Leaf{Name: method, To: precomp.ICS20Addr, Data: precomp.MustPack(f.ABIs.ICS20, "transfer", world.IBCPort, world.IBCChannelA, world.Denom, amt, named,
			w.Addrs[f.T].String(), heightT{3, 100000000}, uint64(0), "")}
	case "ics20.approve":
		return &calltree.Leaf{Name: method, To: precomp.ICS20Addr, Data: precomp.MustPack(f.ABIs.ICS20, "approve", caller, []allocT{{world.IBCPort, world.IBCChannelA, []coinT{{world.Denom, big.NewInt(77)}}, nil}})}
	case "ics20.increaseAllowance", "ics20.decreaseAllowance":
		return &calltree.Leaf{Name: method, To: precomp.ICS20Addr, Data: precomp.MustPack(f.ABIs.ICS20, strings.TrimPrefix(method, "ics20."), caller, world.IBCPort, world.IBCChannelA, world.Denom, big.NewInt(7))}
	case "ics20.revoke":
		return &calltree.Leaf{Name: method, To: precomp.ICS20Addr, Data: precomp.MustPack(f.ABIs.ICS20, "revoke", caller)}
	}
	panic(method)
}

func (e *env) saveGrant(granter, grantee sdk.AccAddress, vals []sdk.ValAddress, limit *sdk.Coin, t stakingtypes.AuthorizationType, exp time.Time) {
	a, err := stakingtypes.NewStakeAuthorization(vals, nil, t, limit)
	if err != nil {
		panic(err)
	}
	if err := e.w.App.AuthzKeeper.SaveGrant(e.w.Ctx(), grantee, granter, a, &exp); err != nil {
		panic(err)
	}
}

var allTypes = []stakingtypes.AuthorizationType{stakingtypes.AuthorizationType_AUTHORIZATION_TYPE_DELEGATE, stakingtypes.AuthorizationType_AUTHORIZATION_TYPE_UNDELEGATE,
	stakingtypes.AuthorizationType_AUTHORIZATION_TYPE_REDELEGATE, stakingtypes.AuthorizationType_AUTHORIZATION_TYPE_CANCEL_UNBONDING_DELEGATION}

func partA(e *env, res *engine.Result, shard, n int) {
	w, f := e.w, e.f
	var scs []scen
	for _, pos := range []string{"direct", "C", "D"} {
		for _, m := range methodsA {
			for _, named := range []string{"S", "caller", "T", "other"} {
				if pos == "direct" && (named == "caller" || named == "other") {
					continue
				}
				for _, g := range []string{"none", "S->caller", "T->caller", "both"} {
					if pos == "direct" && g != "none" {
						continue
					}
					scs = append(scs, scen{pos, m, named, g, ""})
					// the third party has pointed its withdraw address at the caller / at the signer
					if named == "T" && (strings.HasPrefix(m, "distribution.") || m == "staking.delegate" || m == "staking.undelegate") {
						scs = append(scs, scen{pos, m, named, g, "caller"}, scen{pos, m, named, g, "S"})
					}
				}
			}
		}
	}
	res.Extra["partA_scenarios"] = len(scs)
	for i, sc := range scs {
		if i%n != shard || engine.SkipScenario(sc.String()) {
			continue
		}
		restore := w.Branch()
		// frames: C (root) [-> D]
		cF := &calltree.Frame{ID: 0, End: "stop"}
		dF := &calltree.Frame{ID: 1, End: "stop"}
		callerAddr := w.Eth[f.S]
		callerName := "S"
		switch sc.pos {
		case "C":
			callerAddr, callerName = cF.Addr(), "C"
		case "D":
			callerAddr, callerName = dF.Addr(), "D"
		}
		named := map[string]common.Address{"S": w.Eth[f.S], "T": w.Eth[f.T], "caller": callerAddr}[sc.named]
		if sc.named == "other" {
			if sc.pos == "C" {
				named = dF.Addr()
			} else {
				named = cF.Addr()
			}
		}
		exp := w.Header.Time.Add(1000 * time.Hour)
		if sc.pos != "direct" {
			ca := sdk.AccAddress(callerAddr.Bytes())
			// the calling contract holds stake of its own (bonded with V1, and an unbonding entry of this
			// block): acting on it is still a staking operation by a caller that is not the signer
			for _, m := range []sdk.Msg{banktypes.NewMsgSend(w.Addrs[f.S], ca, sdk.NewCoins(sdk.NewInt64Coin(world.Denom, 20000))),
				stakingtypes.NewMsgDelegate(ca, w.ValAddr[0], sdk.NewInt64Coin(world.Denom, 10000)),
				stakingtypes.NewMsgUndelegate(ca, w.ValAddr[0], sdk.NewInt64Coin(world.Denom, 2000))} {
				if _, err := w.RunMsg(w.Ctx(), m); err != nil {
					panic(err)
				}
			}
			for _, t := range allTypes {
				if sc.grant == "S->caller" || sc.grant == "both" {
					e.saveGrant(w.Addrs[f.S], ca, w.ValAddr, nil, t, exp)
				}
				if sc.grant == "T->caller" || sc.grant == "both" {
					e.saveGrant(w.Addrs[f.T], ca, w.ValAddr, nil, t, exp)
				}
			}
			if strings.HasPrefix(sc.method, "ics20.") {
				ta := transfertypes.NewTransferAuthorization(transfertypes.Allocation{SourcePort: world.IBCPort, SourceChannel: world.IBCChannelA, SpendLimit: sdk.NewCoins(sdk.NewInt64Coin(world.Denom, 5000))})
				for _, g := range []struct {
					on      bool
					granter sdk.AccAddress
				}{{sc.grant == "S->caller" || sc.grant == "both", w.Addrs[f.S]}, {sc.grant == "T->caller" || sc.grant == "both", w.Addrs[f.T]}} {
					if g.on {
						if err := w.App.AuthzKeeper.SaveGrant(w.Ctx(), ca, g.granter, ta, &exp); err != nil {
							panic(err)
						}
					}
				}
			}
		}
		switch sc.wd {
		case "caller":
			w.App.DistrKeeper.SetDelegatorWithdrawAddr(w.Ctx(), w.Addrs[f.T], sdk.AccAddress(callerAddr.Bytes()))
		case "S":
			w.App.DistrKeeper.SetDelegatorWithdrawAddr(w.Ctx(), w.Addrs[f.T], w.Addrs[f.S])
		}
		lf := e.leaf(sc.method, named, callerAddr)
		ctx := w.App.BaseApp.VerifDeliverCtx()
		var to common.Address
		var data []byte
		value := int64(0)
		switch sc.pos {
		case "direct":
			to, data = lf.To, lf.Data
		case "C":
			cF.Items = []calltree.Item{{Leaf: lf}}
			calltree.Install(w, ctx, cF, nil)
			to, value = cF.Addr(), 5000
		case "D":
			dF.Items = []calltree.Item{{Leaf: lf}}
			cF.Items = []calltree.Item{{Child: dF, Value: 2500}}
			calltree.Install(w, ctx, cF, nil)
			to, value = cF.Addr(), 5000
		}
		before := e.snapshot()
		nonce := w.App.AccountKeeper.GetAccount(ctx, w.Addrs[f.S]).GetSequence()
		bz, err := world.WrapEth(w.SignEth(w.Keys[f.S], world.EthSpec{Nonce: nonce, Gas: 10000000, To: &to, Value: big.NewInt(value), GasPrice: big.NewInt(0), Data: data}))
		if err != nil {
			panic(err)
		}
		r := w.Deliver(bz)
		after := e.snapshot()
		restore()
		// value the programs move on their own account (tx value S->C, C->D) is not a precompile
		// effect: put it into the "before" picture so that only precompile effects remain
		adj := func(n string, d int64) {
			r := before[n]
			r.balance = r.balance.AddRaw(d)
			before[n] = r
		}
		if r.Code == 0 {
			switch sc.pos {
			case "C":
				adj("S", -value)
				adj("C", value)
			case "D":
				adj("S", -value)
				adj("C", value-2500)
				adj("D", 2500)
			}
		}
		res.Transitions++
		res.Evaluations++
		p := []string{sc.String()}
		res.States[p[0]] = 0
		changedAny := false
		for _, n := range watched {
			h := harmed(before[n], after[n])
			if len(h) == 0 {
				continue
			}
			changedAny = true
			if n == "S" || n == callerName {
				// the signer or the immediate caller: allowed — but when the caller is not the signer,
				// staking effects on the signer need a live grant
				if n == "S" && callerName != "S" && sc.method == "ics20.transfer" && sc.grant != "S->caller" && sc.grant != "both" {
					for _, what := range h {
						if what == "funds" {
							res.AddViolation(engine.Violation{Signature: fmt.Sprintf("C04|method=%s|caller=%s|named=%s|grant=%s|breach=nogrant", sc.method, posClass(sc.pos), sc.named, sc.grant),
								What: "a contract sent the signer's coins over IBC without a grant from the signer", Path: p, Detail: map[string]any{"changed": h, "code": r.Code}})
						}
					}
				}
				if n == "S" && callerName != "S" && strings.HasPrefix(sc.method, "staking.") && !strings.Contains(sc.method, "llowance") &&
					sc.method != "staking.approve" && sc.method != "staking.revoke" && sc.grant != "S->caller" && sc.grant != "both" {
					for _, what := range h {
						if what == "stake" || what == "unbonding" || (what == "funds" && sc.method == "staking.delegate") {
							res.AddViolation(engine.Violation{Signature: fmt.Sprintf("C04|method=%s|caller=%s|named=%s|grant=%s|breach=nogrant", sc.method, posClass(sc.pos), sc.named, sc.grant),
								What: "a contract changed the signer's stake without a grant from the signer", Path: p, Detail: map[string]any{"changed": h, "code": r.Code}})
						}
					}
				}
				// ... and so do staking operations on the caller's own stake
				if n == callerName && callerName != "S" && (sc.method == "staking.delegate" || sc.method == "staking.undelegate" || sc.method == "staking.redelegate" || sc.method == "staking.cancelUnbondingDelegation") &&
					sc.grant != "S->caller" && sc.grant != "both" {
					for _, what := range h {
						if what == "stake" || what == "unbonding" {
							res.AddViolation(engine.Violation{Signature: fmt.Sprintf("C04|method=%s|caller=%s|named=%s|grant=%s|breach=nogrant-own", sc.method, posClass(sc.pos), sc.named, sc.grant),
								What: "a contract that is not the signer performed a staking operation without a grant from the signer", Path: p, Detail: map[string]any{"changed": h, "code": r.Code}})
						}
					}
				}
				// the calling contract forwards value on purpose: funds of C going to D are its own doing
				continue
			}
			res.AddViolation(engine.Violation{Signature: fmt.Sprintf("C04|method=%s|caller=%s|named=%s|grant=%s|breach=frame:%s", sc.method, posClass(sc.pos), sc.named, sc.grant, strings.Join(h, "+")),
				What: "a precompile call changed protected resources of an account that is neither the signer nor the immediate caller", Path: p,
				Detail: map[string]any{"account": n, "changed": h, "code": r.Code}})
		}
		if changedAny {
			res.Outcomes["A:effect"]++
			res.Nontrivial[p[0]] = true
		} else {
			res.Outcomes["A:no-effect"]++
		}
	}
}

func posClass(p string) string {
	if p == "direct" {
		return "eoa"
	}
	if p == "D" {
		return "nested"
	}
	return "contract"
}

// ---- part B: allowance histories ------------------------------------------------------------------

type grantView struct {
	expiry    int64
	exists    bool
	unlimited bool
	limit     sdkmath.Int
	expired   bool
	vals      map[string]bool
}

func (e *env) grantOf() grantView { return e.grantOfURL(delegateURL) }

func (e *env) grantOfURL(url string) grantView {
	w, f := e.w, e.f
	// read the stored grant directly (GetAuthorization hides expired ones)
	var a authz.Authorization
	var exp *time.Time
	for _, g := range mustGrants(w, e.acc("C"), w.Addrs[f.S]) {
		if g.auth.MsgTypeURL() == url {
			a, exp = g.auth, g.exp
		}
	}
	if a == nil {
		return grantView{}
	}
	sa, ok := a.(*stakingtypes.StakeAuthorization)
	if !ok {
		return grantView{exists: true, unlimited: true, vals: map[string]bool{}}
	}
	g := grantView{exists: true, vals: map[string]bool{}}
	if sa.MaxTokens == nil {
		g.unlimited = true
	} else {
		g.limit = sa.MaxTokens.Amount
	}
	if al := sa.GetAllowList(); al != nil {
		for _, v := range al.Address {
			g.vals[v] = true
		}
	}
	if exp != nil && !exp.After(w.Header.Time) {
		g.expired = true
	}
	if exp != nil {
		g.expiry = exp.Unix()
	}
	return g
}

type storedGrant struct {
	auth authz.Authorization
	exp  *time.Time
}

func mustGrants(w *world.World, grantee, granter sdk.AccAddress) []storedGrant {
	var out []storedGrant
	w.App.AuthzKeeper.IterateGrants(w.Ctx(), func(gr, ge sdk.AccAddress, g authz.Grant) bool {
		if gr.Equals(granter) && ge.Equals(grantee) {
			a, err := g.GetAuthorization()
			if err == nil {
				out = append(out, storedGrant{a, g.Expiration})
			}
		}
		return false
	})
	return out
}

func (g grantView) String() string {
	if !g.exists {
		return "none"
	}
	l := "unlimited"
	if !g.unlimited {
		l = g.limit.String()
	}
	var vs []string
	for v := range g.vals {
		vs = append(vs, v[len(v)-4:])
	}
	sort.Strings(vs)
	return fmt.Sprintf("limit=%s vals=%v expired=%v expiry=%d", l, vs, g.expired, g.expiry)
}

func (e *env) delegated(v sdk.ValAddress) sdkmath.Int {
	w, f := e.w, e.f
	d, ok := w.App.StakingKeeper.GetDelegation(w.Ctx(), w.Addrs[f.S], v)
	if !ok {
		return sdkmath.ZeroInt()
	}
	val, _ := w.App.StakingKeeper.GetValidator(w.Ctx(), v)
	return val.TokensFromShares(d.Shares).TruncateInt()
}

// sendTx delivers the signer's transaction and reports whether it succeeded (code 0 and no VM error).
func (e *env) sendTx(to common.Address, data []byte) bool {
	w, f := e.w, e.f
	nonce := w.App.AccountKeeper.GetAccount(w.Ctx(), w.Addrs[f.S]).GetSequence()
	bz, err := world.WrapEth(w.SignEth(w.Keys[f.S], world.EthSpec{Nonce: nonce, Gas: 10000000, To: &to, GasPrice: big.NewInt(0), Data: data}))
	if err != nil {
		panic(err)
	}
	r := w.Deliver(bz)
	if r.Code != 0 {
		return false
	}
	if tr, err := evmtypes.DecodeTxResponse(r.Data); err == nil && tr.Failed() {
		return false
	}
	return true
}

func (e *env) opsB(w *world.World, depth int, path []string) []engine.Op {
	f := e.f
	st := f.ABIs.Staking
	cAddr := world.ContractAddr(0x10)
	urls := []string{delegateURL, undelegateURL}
	var out []engine.Op
	add := func(name string, fn func(p []string, res *engine.Result) string) {
		out = append(out, engine.Op{Name: name, Apply: func(w *world.World, p []string, res *engine.Result) string { return fn(p, res) }})
	}
	authOp := func(name, method string, amt int64) {
		add(name, func(p []string, res *engine.Result) string {
			pre := e.grantOf()
			if amt < 0 { // "all": exactly the current limit
				if !pre.exists || pre.unlimited || !pre.limit.IsPositive() {
					return "skip"
				}
				amt = pre.limit.Int64()
			}
			var data []byte
			if method == "revoke" {
				data = precomp.MustPack(st, method, cAddr, urls)
			} else {
				data = precomp.MustPack(st, method, cAddr, big.NewInt(amt), urls)
			}
			pre2 := e.grantOfURL(undelegateURL)
			okTx := e.sendTx(precomp.StakingAddr, data)
			post := e.grantOf()
			res.Evaluations++
			bad := func(what string) {
				res.AddViolation(engine.Violation{Signature: "C04|op=" + method + "|breach=allowance-arithmetic", What: what, Path: p, Detail: map[string]any{"before": pre.String(), "after": post.String(), "tx_ok": okTx}})
			}
			// the call lists two message types: the second one (undelegate) obeys the same arithmetic,
			// whatever the first one's grant looks like (absent, unlimited, limited)
			if post2 := e.grantOfURL(undelegateURL); okTx && pre2.exists && !pre2.unlimited && !pre2.expired && (method == "increaseAllowance" || method == "decreaseAllowance") {
				want := pre2.limit.AddRaw(amt)
				if method == "decreaseAllowance" {
					want = pre2.limit.SubRaw(amt)
				}
				okSecond := true
				switch {
				case want.IsNegative():
					okSecond = post2.String() == pre2.String()
				case want.IsZero():
					okSecond = !post2.exists || post2.limit.IsZero()
				default:
					okSecond = post2.exists && !post2.unlimited && post2.limit.Equal(want)
				}
				if !okSecond {
					res.AddViolation(engine.Violation{Signature: "C04|op=" + method + "|breach=allowance-arithmetic-second-type", What: "an allowance change listing two message types did not change the second type's limited grant by exactly the amount",
						Path: p, Detail: map[string]any{"first_type_before": pre.String(), "second_type_before": pre2.String(), "second_type_after": post2.String(), "amount": amt}})
				}
			}
			if !okTx {
				if post.String() != pre.String() {
					bad("a failed authorization call changed the grant")
				}
				return "ok:failed"
			}
			switch method {
			case "approve":
				if !post.exists || post.unlimited || !post.limit.Equal(sdkmath.NewInt(amt)) {
					bad("approve(L) did not leave a grant limited to L")
				}
			case "increaseAllowance":
				if pre.exists && !pre.unlimited && !pre.expired && (!post.exists || !post.limit.Equal(pre.limit.AddRaw(amt))) {
					bad("increaseAllowance(x) did not raise the limit by exactly x")
				}
				if !pre.exists && post.exists {
					bad("increaseAllowance created a grant out of nothing")
				}
			case "decreaseAllowance":
				if pre.exists && !pre.unlimited && !pre.expired && pre.limit.GTE(sdkmath.NewInt(amt)) {
					want := pre.limit.SubRaw(amt)
					if want.IsZero() {
						if post.exists && !post.limit.IsZero() {
							bad("decreaseAllowance(x) to zero left a positive limit")
						}
					} else if !post.exists || !post.limit.Equal(want) {
						bad("decreaseAllowance(x) did not lower the limit by exactly x")
					}
				}
				if pre.exists && !pre.unlimited && pre.limit.LT(sdkmath.NewInt(amt)) && post.String() != pre.String() {
					bad("decreaseAllowance(x) with x above the limit changed the grant")
				}
			case "revoke":
				if post.exists {
					bad("revoke left a grant behind")
				}
			}
			return "ok"
		})
	}
	authOp("approve(5)", "approve", 5)
	authOp("approve(10)", "approve", 10)
	authOp("increase(3)", "increaseAllowance", 3)
	authOp("decrease(3)", "decreaseAllowance", 3)
	authOp("decrease(100)", "decreaseAllowance", 100)
	authOp("decrease(all)", "decreaseAllowance", -1)
	authOp("revoke", "revoke", 0)
	add("nativeGrant(V1only,10)", func(p []string, res *engine.Result) string {
		lim := sdk.NewInt64Coin(world.Denom, 10)
		e.saveGrant(w.Addrs[f.S], e.acc("C"), []sdk.ValAddress{w.ValAddr[0]}, &lim, stakingtypes.AuthorizationType_AUTHORIZATION_TYPE_DELEGATE, w.Header.Time.Add(365*24*time.Hour))
		return "ok"
	})
	add("nativeGrant(delegate,unlimited)", func(p []string, res *engine.Result) string {
		e.saveGrant(w.Addrs[f.S], e.acc("C"), w.ValAddr, nil, stakingtypes.AuthorizationType_AUTHORIZATION_TYPE_DELEGATE, w.Header.Time.Add(365*24*time.Hour))
		return "ok"
	})
	add("nativeGrant(V1only,unlimited)", func(p []string, res *engine.Result) string {
		e.saveGrant(w.Addrs[f.S], e.acc("C"), []sdk.ValAddress{w.ValAddr[0]}, nil, stakingtypes.AuthorizationType_AUTHORIZATION_TYPE_DELEGATE, w.Header.Time.Add(365*24*time.Hour))
		return "ok"
	})
	add("nativeGrant(undelegate-type)", func(p []string, res *engine.Result) string {
		e.saveGrant(w.Addrs[f.S], e.acc("C"), w.ValAddr, nil, stakingtypes.AuthorizationType_AUTHORIZATION_TYPE_UNDELEGATE, w.Header.Time.Add(365*24*time.Hour))
		return "ok"
	})
	add("time(+2y)", func(p []string, res *engine.Result) string {
		w.Header.Time = w.Header.Time.Add(2 * 365 * 24 * time.Hour)
		w.App.BaseApp.VerifSetDeliverCtx(w.App.BaseApp.VerifDeliverCtx().WithBlockHeader(w.Header))
		return "ok"
	})
	for _, kind := range []string{"delegate", "undelegate"} {
		for _, vi := range []int{0, 1} {
			for _, amt := range []int64{4, 5, 6, 11} {
				for _, bubble := range []bool{false, true} {
					kind, vi, amt, bubble := kind, vi, amt, bubble
					if vi == 1 && amt != 4 {
						continue
					}
					if kind == "undelegate" && (vi == 1 || amt == 11) {
						continue
					}
					mode := "swallow"
					if bubble {
						mode = "bubble"
					}
					name := fmt.Sprintf("spend(V%d,%d,%s)", vi+1, amt, mode)
					url := delegateURL
					if kind == "undelegate" {
						name = fmt.Sprintf("unbond(V%d,%d,%s)", vi+1, amt, mode)
						url = undelegateURL
					}
					add(name, func(p []string, res *engine.Result) string {
						val := w.ValAddr[vi]
						pre := e.grantOfURL(url)
						preDel := e.delegated(val)
						lf := &calltree.Leaf{Name: "staking." + kind, To: precomp.StakingAddr, Data: precomp.MustPack(st, kind, w.Eth[f.S], val.String(), big.NewInt(amt))}
						cF := &calltree.Frame{ID: 0, End: "stop", Items: []calltree.Item{{Leaf: lf, Bubble: bubble}}}
						calltree.Install(w, w.App.BaseApp.VerifDeliverCtx(), cF, nil)
						e.sendTx(cF.Addr(), nil)
						post := e.grantOfURL(url)
						spent := e.delegated(val).Sub(preDel)
						if kind == "undelegate" {
							spent = spent.Neg()
						}
						res.Evaluations++
						cls := "limited"
						switch {
						case !pre.exists:
							cls = "absent"
						case pre.expired:
							cls = "expired"
						case !pre.vals[val.String()] && len(pre.vals) > 0:
							cls = "wrongval"
						case pre.unlimited:
							cls = "unlimited"
						}
						viol := func(breach, what string) {
							res.AddViolation(engine.Violation{Signature: fmt.Sprintf("C04|op=%s|grant=%s|swallowed=%v|breach=%s", map[string]string{"delegate": "spend", "undelegate": "unbond"}[kind], cls, !bubble, breach), What: what, Path: p,
								Detail: map[string]any{"grant_before": pre.String(), "grant_after": post.String(), "spent": spent.String(), "requested": amt}})
						}
						if post.exists && pre.exists && post.expiry != pre.expiry {
							viol("expiry-changed", "using a grant changed its expiration")
						}
						if spent.IsZero() {
							if post.String() != pre.String() {
								viol("changed-without-spend", "the grant changed although nothing was moved")
							}
							return "ok:rejected"
						}
						res.Nontrivial[fmt.Sprintf("%s|%s|%d|%s", kind, pre.String(), amt, mode)] = true
						if !spent.Equal(sdkmath.NewInt(amt)) {
							viol("amount", "the stake moved differs from the requested amount")
						}
						covering := pre.exists && !pre.expired && (len(pre.vals) == 0 || pre.vals[val.String()]) && (pre.unlimited || pre.limit.GTE(sdkmath.NewInt(amt)))
						if !covering {
							b := "nogrant"
							if pre.exists && !pre.expired && !pre.unlimited && pre.limit.LT(sdkmath.NewInt(amt)) {
								b = "overspend"
							}
							viol(b, "a contract moved the signer's stake without a live grant covering message type, validator and amount")
							return "ok:spent"
						}
						if !pre.unlimited {
							want := pre.limit.SubRaw(amt)
							if want.IsZero() {
								if post.exists {
									viol("notreduced", "a fully used grant was not deleted")
								}
							} else if !post.exists || post.unlimited || !post.limit.Equal(want) {
								viol("notreduced", "a limited grant was not reduced by exactly the amount used")
							}
						}
						return "ok:spent"
					})
				}
			}
		}
	}
	return out
}

func Worker(shard, n int, tier string) *engine.Result {
	res := engine.NewResult(Prop)
	f := c05.NewFixtureOpts(false)
	e := &env{f: f, w: f.W}
	partA(e, res, shard, n)
	depth := 3
	if tier == "thorough" {
		depth = 5
	}
	sub := engine.NewResult(Prop)
	ex := &engine.Explorer{W: f.W, Res: sub, Stores: []string{"authz", "staking"}, Ops: e.opsB, MaxDepth: depth, Shard: shard, NShards: n,
		Deadline: time.Now().Add(20 * time.Minute), Extra: func(w *world.World) string { return fmt.Sprint(w.Header.Time.Unix()) }}
	ex.Run()
	for k, v := range sub.States {
		res.States["B|"+k] = v
	}
	sub.States = map[string]int{}
	res.Merge(sub)
	// part C: ICS-20 allowance histories (own fixture branch state: same world, explorer restores it)
	subC := engine.NewResult(Prop)
	exC := &engine.Explorer{W: f.W, Res: subC, Stores: []string{"authz", "bank", "ibc"}, Ops: e.opsC, MaxDepth: depth, Shard: shard, NShards: n,
		Deadline: time.Now().Add(20 * time.Minute), Extra: func(w *world.World) string { return fmt.Sprint(w.Header.Time.Unix()) }}
	exC.Run()
	for k, v := range subC.States {
		res.States["C|"+k] = v
	}
	n20 := 0
	for k := range subC.Nontrivial {
		if strings.HasPrefix(k, "ics20|") {
			n20++
		}
	}
	res.Counters["partC_states"] += int64(len(subC.States))
	res.Counters["partC_transitions"] += int64(subC.Transitions)
	res.Counters["partC_distinct_successful_ics20_spends"] += int64(n20)
	subC.States = map[string]int{}
	res.Merge(subC)
	return res
}

func Run(tier string) int {
	start := time.Now()
	res := engine.RunSharded(Prop, tier, 16, Worker)
	res.TracesImpl = res.Transitions
	res.Sample(map[string]any{"partA": "staking.undelegate by D named=T grants=T->caller", "partB": []string{"approve(5)", "spend(V1,4,swallow)", "spend(V1,4,bubble)"}})
	return engine.Finish(res, engine.Meta{
		Property: Prop, Tier: tier, Level: "model_checking", Start: start,
		Rule:   "A: full grid {signer directly, contract, nested contract} x 16 state-changing staking/distribution/ICS-20/authorization methods x named account {signer, calling contract, third party, other contract} x grants {none, signer->caller, third->caller, both} (x the third party's withdraw address {own, caller, signer} where it is named), frame rule on a snapshot of funds / stake / unbonding / pending rewards / withdraw address / grants of 5 accounts; B: DFS with digest dedup over all sequences <= depth of {approve, increase, decrease, revoke, native grant with allow-list / other type, spend via contract with failure bubbled or swallowed to V1/V2 for 4 amounts, expiry jump}; C: the same DFS over ICS-20 allowance histories on two channels {approve(A:10 | A:10,B:5), a native x/authz grant without expiration, increase / decrease(3|all|100) per channel, revoke, transfer via contract per channel for 3 amounts with failure bubbled or swallowed, expiry jump} with the escrow accounts as spend witness, every step also checked for leaving the other channel's allocation alone; non-trivial = scenario with an effect / successful spend distinct by (grant, amount, mode)",
		Bounds: map[string]any{"history_depth": map[string]int{"quick": 3, "thorough": 5}},
		Assumptions: []string{
			"gas price 0; contracts never bubble in part A so effects of failed-and-ignored calls count",
			"ICS-20 histories run over transfer channel ends written on ibc-go's sentinel localhost connection; the ERC-20 precompile leg is not included (no ERC-20 precompile is active at this commit)",
		},
	})
}

// ---- part C: ICS-20 allowance histories ----------------------------------------------------------

type coinT struct {
	Denom  string
	Amount *big.Int
}

type allocT struct {
	SourcePort    string
	SourceChannel string
	SpendLimit    []coinT
	AllowList     []string
}

type heightT struct {
	RevisionNumber uint64
	RevisionHeight uint64
}

type tgrant struct {
	exists, expired bool
	expiry          int64
	limits          map[string]sdkmath.Int // channel -> limit of the native denom (absent: channel not covered)
	unlimited       map[string]bool
}

func (g tgrant) String() string {
	if !g.exists {
		return "none"
	}
	var ks []string
	for k, v := range g.limits {
		ks = append(ks, k+"="+v.String())
	}
	for k := range g.unlimited {
		ks = append(ks, k+"=unlimited")
	}
	sort.Strings(ks)
	return fmt.Sprintf("%v expired=%v expiry=%d", ks, g.expired, g.expiry)
}

func (e *env) tgrantOf() tgrant {
	w, f := e.w, e.f
	g := tgrant{limits: map[string]sdkmath.Int{}, unlimited: map[string]bool{}}
	for _, sg := range mustGrants(w, e.acc("C"), w.Addrs[f.S]) {
		ta, ok := sg.auth.(*transfertypes.TransferAuthorization)
		if !ok {
			continue
		}
		g.exists = true
		if sg.exp != nil {
			g.expiry = sg.exp.Unix()
			g.expired = !sg.exp.After(w.Header.Time)
		}
		for _, al := range ta.Allocations {
			if al.SpendLimit == nil || len(al.SpendLimit) == 0 {
				g.unlimited[al.SourceChannel] = true
				continue
			}
			g.limits[al.SourceChannel] = al.SpendLimit.AmountOf(world.Denom)
		}
	}
	return g
}

func (e *env) escrowed(ch string) sdkmath.Int {
	return e.w.App.BankKeeper.GetBalance(e.w.Ctx(), transfertypes.GetEscrowAddress(world.IBCPort, ch), world.Denom).Amount
}

func (e *env) opsC(w *world.World, depth int, path []string) []engine.Op {
	f := e.f
	ab := f.ABIs.ICS20
	cAddr := world.ContractAddr(0x10)
	chans := []string{world.IBCChannelA, world.IBCChannelB}
	var out []engine.Op
	add := func(name string, fn func(p []string, res *engine.Result) string) {
		out = append(out, engine.Op{Name: name, Apply: func(w *world.World, p []string, res *engine.Result) string { return fn(p, res) }})
	}
	bad := func(res *engine.Result, op, what string, p []string, pre, post tgrant, extra map[string]any) {
		d := map[string]any{"before": pre.String(), "after": post.String()}
		for k, v := range extra {
			d[k] = v
		}
		res.AddViolation(engine.Violation{Signature: "C04|op=ics20." + op + "|breach=allowance-arithmetic", What: what, Path: p, Detail: d})
	}
	// othersUnchanged: every allocation except the one on ch is as before
	othersUnchanged := func(pre, post tgrant, ch string) bool {
		for _, c := range chans {
			if c == ch {
				continue
			}
			a, ha := pre.limits[c]
			b, hb := post.limits[c]
			if ha != hb || (ha && !a.Equal(b)) || pre.unlimited[c] != post.unlimited[c] {
				return false
			}
		}
		return true
	}
	short := func(ch string) string { return map[string]string{world.IBCChannelA: "A", world.IBCChannelB: "B"}[ch] }
	for _, ap := range []struct {
		name string
		al   []allocT
		want map[string]int64
	}{
		{"ics20.approve(A:10)", []allocT{{world.IBCPort, world.IBCChannelA, []coinT{{world.Denom, big.NewInt(10)}}, nil}}, map[string]int64{world.IBCChannelA: 10}},
		{"ics20.approve(A:10,B:5)", []allocT{{world.IBCPort, world.IBCChannelA, []coinT{{world.Denom, big.NewInt(10)}}, nil},
			{world.IBCPort, world.IBCChannelB, []coinT{{world.Denom, big.NewInt(5)}}, nil}}, map[string]int64{world.IBCChannelA: 10, world.IBCChannelB: 5}},
	} {
		ap := ap
		add(ap.name, func(p []string, res *engine.Result) string {
			pre := e.tgrantOf()
			ok := e.sendTx(precomp.ICS20Addr, precomp.MustPack(ab, "approve", cAddr, ap.al))
			post := e.tgrantOf()
			res.Evaluations++
			if !ok {
				if post.String() != pre.String() {
					bad(res, "approve", "a failed approve changed the grant", p, pre, post, nil)
				}
				return "ok:failed"
			}
			for _, c := range chans {
				l, has := post.limits[c]
				wl, wants := ap.want[c]
				if has != wants || (has && !l.Equal(sdkmath.NewInt(wl))) {
					bad(res, "approve", "approve did not leave exactly the allocations asked for", p, pre, post, map[string]any{"channel": c})
				}
			}
			return "ok"
		})
	}
	// a grant made on the Cosmos side (x/authz MsgGrant) without expiration: the precompile's own
	// approve always sets one, so this is the only way to get an allocation that never expires
	add("nativeGrant(ics20,A:10,no-expiry)", func(p []string, res *engine.Result) string {
		ta := transfertypes.NewTransferAuthorization(transfertypes.Allocation{SourcePort: world.IBCPort, SourceChannel: world.IBCChannelA, SpendLimit: sdk.NewCoins(sdk.NewInt64Coin(world.Denom, 10))})
		if err := w.App.AuthzKeeper.SaveGrant(w.Ctx(), e.acc("C"), w.Addrs[f.S], ta, nil); err != nil {
			return engine.ErrClass(err)
		}
		return "ok"
	})
	for _, ch := range chans {
		for _, x := range []struct {
			name, method string
			amt          int64
		}{{"ics20.increase(%s,3)", "increaseAllowance", 3}, {"ics20.decrease(%s,3)", "decreaseAllowance", 3}, {"ics20.decrease(%s,all)", "decreaseAllowance", -1}, {"ics20.decrease(%s,100)", "decreaseAllowance", 100}} {
			ch, x := ch, x
			add(fmt.Sprintf(x.name, short(ch)), func(p []string, res *engine.Result) string {
				pre := e.tgrantOf()
				amt := x.amt
				cur, has := pre.limits[ch]
				if amt < 0 {
					if !has || !cur.IsPositive() {
						return "skip"
					}
					amt = cur.Int64()
				}
				ok := e.sendTx(precomp.ICS20Addr, precomp.MustPack(ab, x.method, cAddr, world.IBCPort, ch, world.Denom, big.NewInt(amt)))
				post := e.tgrantOf()
				res.Evaluations++
				if !ok {
					if post.String() != pre.String() {
						bad(res, x.method, "a failed authorization call changed the grant", p, pre, post, nil)
					}
					return "ok:failed"
				}
				if !othersUnchanged(pre, post, ch) {
					bad(res, x.method, "an allowance change for one channel changed the allocation of another channel", p, pre, post, map[string]any{"channel": ch})
				}
				if pre.exists && !pre.expired && !has && !pre.unlimited[ch] {
					bad(res, x.method, "an allowance change for a channel without allocation succeeded", p, pre, post, map[string]any{"channel": ch})
					return "ok"
				}
				if !has || pre.expired {
					return "ok"
				}
				want := cur.AddRaw(amt)
				if x.method == "decreaseAllowance" {
					want = cur.SubRaw(amt)
				}
				got, still := post.limits[ch]
				switch {
				case want.IsNegative():
					bad(res, x.method, "a decrease below zero succeeded", p, pre, post, nil)
				case want.IsZero():
					if still && got.IsPositive() {
						bad(res, x.method, "decreasing the whole allowance left a positive limit", p, pre, post, nil)
					}
				default:
					if !still || !got.Equal(want) {
						bad(res, x.method, "the limit did not change by exactly the amount", p, pre, post, map[string]any{"want": want.String(), "channel": ch})
					}
				}
				return "ok"
			})
		}
	}
	add("ics20.revoke", func(p []string, res *engine.Result) string {
		pre := e.tgrantOf()
		ok := e.sendTx(precomp.ICS20Addr, precomp.MustPack(ab, "revoke", cAddr))
		post := e.tgrantOf()
		res.Evaluations++
		if ok && post.exists {
			bad(res, "revoke", "revoke left a grant behind", p, pre, post, nil)
		}
		if !ok && post.String() != pre.String() {
			bad(res, "revoke", "a failed revoke changed the grant", p, pre, post, nil)
		}
		return "ok"
	})
	add("time(+2y)", func(p []string, res *engine.Result) string {
		w.Header.Time = w.Header.Time.Add(2 * 365 * 24 * time.Hour)
		w.App.BaseApp.VerifSetDeliverCtx(w.App.BaseApp.VerifDeliverCtx().WithBlockHeader(w.Header))
		return "ok"
	})
	for _, ch := range chans {
		for _, amt := range []int64{4, 6, 11} {
			for _, bubble := range []bool{false, true} {
				ch, amt, bubble := ch, amt, bubble
				mode := "swallow"
				if bubble {
					mode = "bubble"
				}
				add(fmt.Sprintf("ics20.spend(%s,%d,%s)", short(ch), amt, mode), func(p []string, res *engine.Result) string {
					pre := e.tgrantOf()
					preEsc := e.escrowed(ch)
					lf := &calltree.Leaf{Name: "ics20.transfer", To: precomp.ICS20Addr, Data: precomp.MustPack(ab, "transfer", world.IBCPort, ch, world.Denom, big.NewInt(amt), w.Eth[f.S],
						w.Addrs[f.T].String(), heightT{3, 100000000}, uint64(0), "")}
					cF := &calltree.Frame{ID: 0, End: "stop", Items: []calltree.Item{{Leaf: lf, Bubble: bubble}}}
					calltree.Install(w, w.App.BaseApp.VerifDeliverCtx(), cF, nil)
					e.sendTx(cF.Addr(), nil)
					post := e.tgrantOf()
					spent := e.escrowed(ch).Sub(preEsc)
					res.Evaluations++
					cls := "limited"
					lim, has := pre.limits[ch]
					switch {
					case !pre.exists:
						cls = "absent"
					case pre.expired:
						cls = "expired"
					case pre.unlimited[ch]:
						cls = "unlimited"
					case !has:
						cls = "wrongchannel"
					}
					viol := func(breach, what string) {
						res.AddViolation(engine.Violation{Signature: fmt.Sprintf("C04|op=ics20.spend|grant=%s|swallowed=%v|breach=%s", cls, !bubble, breach), What: what, Path: p,
							Detail: map[string]any{"grant_before": pre.String(), "grant_after": post.String(), "escrowed": spent.String(), "requested": amt, "channel": ch}})
					}
					if post.exists && pre.exists && post.expiry != pre.expiry {
						viol("expiry-changed", "using a grant changed its expiration")
					}
					if !othersUnchanged(pre, post, ch) {
						viol("other-channel", "a transfer on one channel changed the allocation of another channel")
					}
					if spent.IsZero() {
						if post.String() != pre.String() {
							viol("changed-without-spend", "the grant changed although nothing was transferred")
						}
						return "ok:rejected"
					}
					res.Nontrivial[fmt.Sprintf("ics20|%s|%s|%d|%s", pre.String(), short(ch), amt, mode)] = true
					if !spent.Equal(sdkmath.NewInt(amt)) {
						viol("amount", "the escrowed amount differs from the requested amount")
					}
					covering := pre.exists && !pre.expired && (pre.unlimited[ch] || (has && lim.GTE(sdkmath.NewInt(amt))))
					if !covering {
						b := "nogrant"
						if has && !pre.expired && lim.LT(sdkmath.NewInt(amt)) {
							b = "overspend"
						}
						viol(b, "a contract sent the signer's coins over IBC without a live grant covering channel and amount")
						return "ok:spent"
					}
					if has {
						want := lim.SubRaw(amt)
						got, still := post.limits[ch]
						if want.IsZero() {
							if still && got.IsPositive() {
								viol("notreduced", "a fully used allocation still has a positive limit")
							}
						} else if !still || !got.Equal(want) {
							viol("notreduced", "a limited allocation was not reduced by exactly the amount used")
						}
					}
					return "ok:spent"
				})
			}
		}
	}
	return out
}
