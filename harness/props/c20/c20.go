// Package c20: restarting a node at any block boundary changes nothing (engine E2).
//
// Every history is run once on a never-stopped reference node; then, for EVERY block boundary k,
// a replica is stopped right after Commit k and a new application object is constructed on the
// database (same DB object / key-by-key copy / two restarts in a row).  Info(), a fixed battery of
// gRPC queries and every later ABCI response and app hash must equal the reference's.
package c20

import (
	"fmt"
	"os"
	"strings"
	"time"

	"verif/harness/engine"
	"verif/harness/replica"
)

const Prop = "C20"

type plan struct {
	replica.Plan
	desc string
}

func plans(tier string, tmpl []replica.Template, nBase int) []plan {
	var out []plan
	name := func(idx ...int) string {
		var ns []string
		for _, i := range idx {
			ns = append(ns, tmpl[i].Name)
		}
		return strings.Join(ns, ">")
	}
	n := len(tmpl)
	// governance flows need 2 more blocks for the voting period and then some to see the effect
	for g := nBase; g < n; g++ {
		out = append(out, plan{replica.Plan{Blocks: [][]int{{g}}, Tail: 6}, name(g)})
		for i := 0; i < nBase; i++ {
			// a base template after the proposal took effect, and one before
			out = append(out, plan{replica.Plan{Blocks: [][]int{{g}, {}, {}, {}, {}, {i}}, Tail: 2}, name(g) + ">...>" + name(i)})
			if tier == "thorough" {
				out = append(out, plan{replica.Plan{Blocks: [][]int{{i}, {g}, {}, {}, {}, {i}}, Tail: 2}, name(i, g) + ">...>" + name(i)})
			}
		}
	}
	for _, c := range replica.LifecycleChains(tmpl, nBase) {
		out = append(out, plan{c, c.Name})
	}
	for i := 0; i < nBase; i++ {
		out = append(out, plan{replica.Plan{Blocks: [][]int{{i}}, Tail: 3}, name(i)})
		for j := 0; j < nBase; j++ {
			// (the same operation before and after the restart is always run: what a node memoises on
			// first use)
			if tier == "thorough" || (i+j)%3 == 0 || i == j {
				out = append(out, plan{replica.Plan{Blocks: [][]int{{i}, {j}}, Tail: 2}, name(i, j)})
			}
		}
	}
	return out
}

func Worker(shard, n int, tier string) *engine.Result {
	res := engine.NewResult(Prop)
	f := replica.NewFix()
	f.Battery = true
	base := append(replica.Templates(), replica.StateShapeTemplates()...)
	tmpl := append(append(append([]replica.Template{}, base...), replica.GovTemplates()...), replica.ExtraGovTemplates()...)
	ps := plans(tier, tmpl, len(base))
	res.Extra["histories"] = len(ps)
	deadline := time.Now().Add(25 * time.Minute)
	modes := []string{"same-db", "copied-db", "twice"}
	for i, p := range ps {
		if i%n != shard {
			continue
		}
		if time.Now().After(deadline) {
			res.CapHit = true
			break
		}
		if engine.SkipScenario(p.desc) {
			continue
		}
		h, ref, wref := f.RunReference(p.Plan, tmpl)
		if os.Getenv("VERIF_ONLY") != "" {
			for _, st := range ref {
				if strings.Contains(st.Label, "deliver") {
					fmt.Println(st.Label, st.Detail)
				}
			}
		}
		res.Evaluations++
		if strings.HasPrefix(p.desc, "gov") && !strings.Contains(p.desc, ">") {
			ctx := wref.Ctx()
			res.Extra["effect:"+p.desc] = fmt.Sprintf("evm.EnableCreate=%v activePrecompiles=%d feemarket.NoBaseFee=%v erc20.EnableEVMHook=%v",
				wref.App.EvmKeeper.GetParams(ctx).EnableCreate, len(wref.App.EvmKeeper.GetParams(ctx).ActivePrecompiles),
				wref.App.FeeMarketKeeper.GetParams(ctx).NoBaseFee, wref.App.Erc20Keeper.GetParams(ctx).EnableEVMHook)
		}
		for _, st := range ref {
			res.States[st.Label+"|"+st.Digest] = 0
		}
		okTx := 0
		for _, st := range ref {
			if strings.Contains(st.Label, "deliver") && strings.HasPrefix(st.Detail, "code=0 ") {
				okTx++
			}
		}
		res.Outcomes[fmt.Sprintf("history:ok-txs>=%d", min(okTx, 2))]++
		for k := 0; k < len(h.Blocks); k++ {
			mode := modes[(k+i)%3]
			if tier == "thorough" {
				mode = modes[k%3]
			}
			tr, _ := f.Replay(h, replica.Variant{Name: "restart", RestartAt: k, Restart: mode})
			res.Transitions++
			res.TracesImpl++
			res.Nontrivial[fmt.Sprintf("%s@%d", p.desc, k)] = true
			d := replica.FirstDiff(ref, tr)
			if d < 0 {
				continue
			}
			field := "result"
			switch {
			case strings.Contains(ref[d].Label, "info"):
				field = "info"
			case strings.Contains(ref[d].Label, "query"):
				field = "query:" + strings.SplitN(ref[d].Detail, "#", 2)[0]
			case strings.Contains(ref[d].Label, "commit"):
				field = "apphash"
			case strings.Contains(ref[d].Label, "endblock"):
				field = "endblock"
			}
			var got string
			if d < len(tr) {
				got = tr[d].Detail
			}
			after := "start"
			if k < len(h.Blocks) && len(h.Blocks[k].Names) > 0 {
				after = strings.Join(h.Blocks[k].Names, ",")
			}
			res.AddViolation(engine.Violation{
				Signature: fmt.Sprintf("C20|restart=%s|field=%s|history=%s", mode, field, p.desc),
				What:      "a node restarted from its database diverged from the node that never stopped",
				Path:      []string{p.desc, fmt.Sprintf("restart(%s) after block %d {%s}", mode, k, after), "first difference at " + ref[d].Label},
				Detail:    map[string]any{"reference": ref[d].Detail, "restarted": got},
			})
		}
	}
	return res
}

func Run(tier string) int {
	start := time.Now()
	res := engine.RunSharded(Prop, tier, 16, Worker)
	res.Sample(map[string]any{"history": "govEvmParams>...>evmBankQuery", "restart": "after every block boundary k = 0..7, modes same-db / copied-db / twice"})
	return engine.Finish(res, engine.Meta{
		Property: Prop, Tier: tier, Level: "model_checking", Start: start,
		Rule: "histories: every base template (incl. 3 state-shape templates) alone, a third (thorough: all) of the ordered pairs plus every template followed by itself, every governance flow (EVM params incl. active precompiles and EnableCreate, fee-market params with a base-fee activation height, ERC20 params, token-pair conversion toggle) alone and followed by every base template after it took effect, and 10 life-cycle chains (switch off, use, switch on, use; two day boundaries; sub-millisecond block times; the same block hash read before and after its header left the 3-entry history; the day epoch behind the clock); exact gas accounting (MinGasMultiplier 0); for EVERY block boundary of every history one restart replica; compared: Info() height and app hash, 27 gRPC queries and 8 EVM-executing queries after every commit and right after the restart, every later DeliverTx/EndBlock/BeginBlock response and app hash; transitions = restart replicas run",
		Assumptions: []string{
			"the database is a MemDB kept across the restart (or copied key by key); torn writes inside a multistore commit are not modelled (crash points are block boundaries)",
			"erc20.RegisterERC20Extensions / AddEVMExtensions have no caller reachable from block histories at this commit",
			"software-upgrade plans are not in the alphabet: with a plan scheduled under a name whose handler the binary already contains the upgrade module panics on purpose (BINARY UPDATED BEFORE TRIGGER), and an unknown name halts the node at the plan height by design",
		},
	})
}
