// Package c11: liquid vesting conserves backing and never unlocks early.
//
// Pure part (E3): SubtractAmountFromPeriods / CurrentPeriodShift on exhaustive grids.
// Stateful part (E1): all sequences <= depth of liquidate / transfer / redeem / time jumps over
// several holders on the real msg servers; conservation equations and the no-early-unlock
// inequality against the shadow world in which nothing was liquidated, in every state.
package c11

import (
	"fmt"
	"math/big"
	"sort"
	"strings"
	"time"

	sdkmath "cosmossdk.io/math"
	sdk "github.com/cosmos/cosmos-sdk/types"
	stakingtypes "github.com/cosmos/cosmos-sdk/x/staking/types"
	authtypes "github.com/cosmos/cosmos-sdk/x/auth/types"
	sdkvesting "github.com/cosmos/cosmos-sdk/x/auth/vesting/types"
	banktypes "github.com/cosmos/cosmos-sdk/x/bank/types"
	"github.com/ethereum/go-ethereum/common"

	"github.com/haqq-network/haqq/contracts"
	erc20types "github.com/haqq-network/haqq/x/erc20/types"
	lvtypes "github.com/haqq-network/haqq/x/liquidvesting/types"
	vtypes "github.com/haqq-network/haqq/x/vesting/types"

	"verif/harness/engine"
	"verif/harness/props/c09"
	rm "verif/harness/refmodel"
	"verif/harness/world"
)

const Prop = "C11"

// ---- pure part ---------------------------------------------------------------------------------

func pure(res *engine.Result, tier string, shard, n int) {
	maxAmt := int64(4)
	if tier == "thorough" {
		maxAmt = 6
	}
	const X, Y = "aISLM", "other"
	var lists [][]sdkvesting.Period
	var rec func(cur []sdkvesting.Period, k int)
	rec = func(cur []sdkvesting.Period, k int) {
		lists = append(lists, append([]sdkvesting.Period{}, cur...))
		if k == 3 {
			return
		}
		for a := int64(0); a <= maxAmt; a++ {
			for _, withY := range []bool{false, true} {
				if a == 0 && !withY && tier != "thorough" {
					// an empty-amount period only in thorough
					continue
				}
				c := sdk.NewCoins()
				if a > 0 {
					c = c.Add(sdk.NewInt64Coin(X, a))
				}
				if withY {
					c = c.Add(sdk.NewInt64Coin(Y, 7))
				}
				rec(append(cur, sdkvesting.Period{Length: int64(1 + len(cur)), Amount: c}), k+1)
			}
		}
	}
	rec(nil, 0)
	res.Extra["pure_period_lists"] = len(lists)
	for i, ps := range lists {
		if i%n != shard {
			continue
		}
		total := sdkvesting.Periods(ps).TotalAmount().AmountOf(X).Int64()
		for sub := int64(0); sub <= total+1; sub++ {
			cas := fmt.Sprintf("periods=%v subtrahend=%d", ps, sub)
			in := make(sdkvesting.Periods, len(ps))
			copy(in, ps)
			var dec, diff sdkvesting.Periods
			var err error
			pan := ""
			func() {
				defer func() {
					if r := recover(); r != nil {
						pan = fmt.Sprint(r)
					}
				}()
				dec, diff, err = lvtypes.SubtractAmountFromPeriods(in, sdk.NewInt64Coin(X, sub))
			}()
			res.Evaluations++
			res.Transitions++
			res.States[fmt.Sprintf("p|%d|%d", i, sub)] = 0
			viol := func(breach, what string, d map[string]any) {
				res.AddViolation(engine.Violation{Signature: "C11|op=pure|fn=subtract|breach=" + breach, What: what, Path: []string{cas}, Detail: d})
			}
			if pan != "" {
				viol("panic", "SubtractAmountFromPeriods panicked", map[string]any{"panic": pan})
				continue
			}
			wantErr := sub > total || total == 0
			if (err != nil) != wantErr {
				viol("verdict", "error verdict differs: must fail iff subtrahend > total or total = 0", map[string]any{"err": fmt.Sprint(err)})
				continue
			}
			if err != nil {
				res.Outcomes["pure:rejected"]++
				continue
			}
			res.Outcomes["pure:ok"]++
			if sub > 0 && sub < total {
				res.Nontrivial[cas] = true
			}
			if len(dec) != len(ps) || len(diff) != len(ps) {
				viol("shape", "result lists have a different number of periods", nil)
				continue
			}
			sum := int64(0)
			for j := range ps {
				o, a, b := ps[j].Amount.AmountOf(X).Int64(), dec[j].Amount.AmountOf(X).Int64(), diff[j].Amount.AmountOf(X).Int64()
				if a < 0 || b < 0 || a+b != o {
					viol("split", "for some period left + moved != original (or a part is negative)", map[string]any{"period": j, "orig": o, "left": a, "moved": b})
				}
				if dec[j].Length != ps[j].Length || diff[j].Length != ps[j].Length {
					viol("length", "period lengths are not preserved", nil)
				}
				if !dec[j].Amount.AmountOf(Y).Equal(ps[j].Amount.AmountOf(Y)) || !diff[j].Amount.AmountOf(Y).IsZero() {
					viol("other-denom", "another denomination was touched by the split", nil)
				}
				sum += b
			}
			if sum != sub {
				viol("total", "moved total differs from the requested amount", map[string]any{"moved": sum})
			}
			for j := range ps { // input must not be mutated
				if !ps[j].Amount.IsEqual(lists[i][j].Amount) {
					viol("mutated-input", "the input period list was modified", nil)
				}
			}
		}
		// CurrentPeriodShift against the step reference at every integer time
		var rp []rm.Period
		for _, p := range ps {
			rp = append(rp, rm.Period{Len: p.Length, A: c09.FromCoins(p.Amount)})
		}
		ref := rm.FromPeriods(100, rp)
		for t := int64(98); t <= ref.End()+2; t++ {
			got := lvtypes.CurrentPeriodShift(100, t, ps)
			last := int64(100)
			for _, e := range ref.Events {
				if e.T <= t && e.T > last {
					last = e.T
				}
			}
			want := t - last
			if t <= 100 || t >= ref.End() {
				want = 0
			}
			res.Evaluations++
			if got != want {
				res.AddViolation(engine.Violation{Signature: "C11|op=pure|fn=shift|breach=value", What: "CurrentPeriodShift differs from time since the last passed event",
					Path: []string{fmt.Sprintf("periods=%v t=%d", ps, t)}, Detail: map[string]any{"got": got, "want": want}})
			}
		}
	}
}

// ---- stateful part -----------------------------------------------------------------------------

type acct struct {
	name string
	addr sdk.AccAddress
}

type sdriver struct {
	w      *world.World
	tier   string
	t0     int64
	accts  []acct
	mod    sdk.AccAddress
	ref    rm.Sched // union of all original lockups (shadow world: nothing liquidated)
	refTot rm.Amt
}

func P(l int64, a int64) rm.Period { return rm.Period{Len: l, A: rm.One(world.Denom, a)} }

func toSDK(ps []rm.Period) sdkvesting.Periods {
	out := sdkvesting.Periods{}
	for _, p := range ps {
		out = append(out, sdkvesting.Period{Length: p.Len, Amount: c09.ToCoins(p.A)})
	}
	return out
}

func newSDriver(tier string) *sdriver {
	w := world.New(world.Options{NumAccounts: 6})
	d := &sdriver{w: w, tier: tier, t0: w.Header.Time.Unix()}
	ctx := w.Ctx()
	p := w.App.LiquidVestingKeeper.GetParams(ctx)
	p.MinimumLiquidationAmount = sdkmath.NewInt(1)
	p.EnableLiquidVesting = true
	if err := w.App.LiquidVestingKeeper.SetParams(ctx, p); err != nil {
		panic(err)
	}
	funder := w.Addrs[1]
	mk := func(i int) sdk.AccAddress { return sdk.AccAddress(world.Key(i).PubKey().Address().Bytes()) }
	type va struct {
		name  string
		key   int
		start int64
		lock  []rm.Period
	}
	vas := []va{
		{"V", 30, d.t0 - 5, []rm.Period{P(10, 3), P(10, 3), P(10, 4)}}, // events at t0+5, +15, +25
		{"V2", 31, d.t0 - 20, []rm.Period{P(30, 6), P(10, 1)}},         // events at t0+10, +20
	}
	if tier == "thorough" {
		vas = append(vas, va{"V3", 32, d.t0 + 5, []rm.Period{P(10, 4)}}) // starts later: cannot liquidate, can receive
	}
	d.ref = rm.Sched{Start: d.t0 - 20}
	for _, v := range vas {
		addr := mk(v.key)
		tot := rm.FromPeriods(v.start, v.lock).Total()
		msg := vtypes.NewMsgCreateClawbackVestingAccount(funder, addr, time.Unix(v.start, 0).UTC(), toSDK(v.lock),
			sdkvesting.Periods{{Length: 1, Amount: c09.ToCoins(tot)}}, false)
		if _, err := w.RunMsg(ctx, msg); err != nil {
			panic(err)
		}
		// gas money
		if _, err := w.RunMsg(ctx, banktypes.NewMsgSend(funder, addr, sdk.NewCoins(sdk.NewInt64Coin(world.Denom, 1000)))); err != nil {
			panic(err)
		}
		d.accts = append(d.accts, acct{v.name, addr})
		d.ref = rm.Union(d.ref, rm.FromPeriods(v.start, v.lock))
	}
	d.accts = append(d.accts, acct{"A", w.Addrs[2]})
	if tier == "thorough" {
		d.accts = append(d.accts, acct{"B", w.Addrs[3]})
	}
	d.refTot = d.ref.Total()
	d.mod = authtypes.NewModuleAddress(lvtypes.ModuleName)
	return d
}

func (d *sdriver) setTime(t int64) {
	w := d.w
	w.Header.Time = time.Unix(t, 0).UTC()
	w.App.BaseApp.VerifSetDeliverCtx(w.App.BaseApp.VerifDeliverCtx().WithBlockHeader(w.Header))
}

func (d *sdriver) erc20Bal(ctx sdk.Context, denom string, a sdk.AccAddress) sdkmath.Int {
	id := d.w.App.Erc20Keeper.GetTokenPairID(ctx, denom)
	if len(id) == 0 {
		return sdkmath.ZeroInt()
	}
	pair, ok := d.w.App.Erc20Keeper.GetTokenPair(ctx, id)
	if !ok {
		return sdkmath.ZeroInt()
	}
	cctx, _ := ctx.CacheContext()
	b := d.w.App.Erc20Keeper.BalanceOf(cctx, contracts.ERC20MinterBurnerDecimalsContract.ABI, pair.GetERC20Contract(), common.BytesToAddress(a))
	if b == nil {
		return sdkmath.ZeroInt()
	}
	return sdkmath.NewIntFromBigInt(b)
}

func (d *sdriver) liquidBal(ctx sdk.Context, denom string, a sdk.AccAddress) sdkmath.Int {
	return d.w.App.BankKeeper.GetBalance(ctx, a, denom).Amount.Add(d.erc20Bal(ctx, denom, a))
}

func (d *sdriver) denoms(ctx sdk.Context) []string {
	n := d.w.App.LiquidVestingKeeper.GetDenomCounter(ctx)
	var out []string
	for i := uint64(0); i < n; i++ {
		out = append(out, lvtypes.DenomBaseNameFromID(i))
	}
	return out
}

// lockEvents returns the account's lockup schedule as absolute events (nil if not a vesting account).
func (d *sdriver) lockSched(ctx sdk.Context, a sdk.AccAddress) (rm.Sched, *vtypes.ClawbackVestingAccount) {
	va, ok := d.w.App.AccountKeeper.GetAccount(ctx, a).(*vtypes.ClawbackVestingAccount)
	if !ok {
		return rm.Sched{}, nil
	}
	var ps []rm.Period
	for _, p := range va.LockupPeriods {
		ps = append(ps, rm.Period{Len: p.Length, A: c09.FromCoins(sdk.NewCoins(sdk.NewCoin(world.Denom, p.Amount.AmountOf(world.Denom))))})
	}
	return rm.FromPeriods(va.GetStartTime(), ps), va
}

func (d *sdriver) denomSched(ctx sdk.Context, denom string) (rm.Sched, bool) {
	dn, ok := d.w.App.LiquidVestingKeeper.GetDenom(ctx, denom)
	if !ok {
		return rm.Sched{}, false
	}
	var ps []rm.Period
	for _, p := range dn.LockupPeriods {
		ps = append(ps, rm.Period{Len: p.Length, A: c09.FromCoins(sdk.NewCoins(sdk.NewCoin(world.Denom, p.Amount.AmountOf(dn.OriginalDenom))))})
	}
	return rm.FromPeriods(dn.StartTime.Unix(), ps), true
}

func futureMap(s rm.Sched, now int64) string {
	f := rm.Sched{Start: s.Start}
	for _, e := range s.Events {
		if e.T > now {
			f.Events = append(f.Events, e)
		}
	}
	return f.EventMap()
}

func (d *sdriver) ops(w *world.World, depth int, path []string) []engine.Op {
	var out []engine.Op
	ctx := w.Ctx()
	add := func(name string, f func(p []string, res *engine.Result) string) {
		out = append(out, engine.Op{Name: name, Apply: func(w *world.World, p []string, res *engine.Result) string { return f(p, res) }})
	}
	// liquidate
	for _, from := range d.accts {
		if !strings.HasPrefix(from.name, "V") {
			continue
		}
		for _, to := range d.accts {
			if to.name != from.name && to.name != "A" {
				continue
			}
			for _, cls := range []string{"1", "half", "all", "all+1"} {
				from, to, cls := from, to, cls
				add(fmt.Sprintf("liquidate(%s>%s,%s)", from.name, to.name, cls), func(p []string, res *engine.Result) string {
					return d.liquidate(from, to, cls, p, res)
				})
			}
		}
	}
	// transfer + redeem per existing denom
	for _, dn := range d.denoms(ctx) {
		if _, ok := d.w.App.LiquidVestingKeeper.GetDenom(ctx, dn); !ok {
			continue
		}
		for _, from := range d.accts {
			bal := d.liquidBal(ctx, dn, from.addr)
			if bal.IsZero() {
				continue
			}
			for _, to := range d.accts {
				if to.name == from.name {
					continue
				}
				for _, cls := range []string{"half", "all"} {
					from, to, cls, dn := from, to, cls, dn
					add(fmt.Sprintf("transfer(%s,%s>%s,%s)", dn, from.name, to.name, cls), func(p []string, res *engine.Result) string {
						return d.transfer(dn, from, to, cls, p, res)
					})
				}
			}
			for _, to := range d.accts {
				for _, cls := range []string{"1", "half", "all", "all+1", "half@same-time"} {
					from, to, cls, dn := from, to, cls, dn
					add(fmt.Sprintf("redeem(%s,%s>%s,%s)", dn, from.name, to.name, cls), func(p []string, res *engine.Result) string {
						// a redeem normally happens in a later block than the liquidation: advance the
						// block time by one second first (the same-time variant keeps it)
						if strings.HasSuffix(cls, "@same-time") {
							return d.redeem(dn, from, to, strings.TrimSuffix(cls, "@same-time"), p, res)
						}
						d.setTime(w.Header.Time.Unix() + 1)
						return d.redeem(dn, from, to, cls, p, res)
					})
				}
			}
		}
	}
	// any account holding locked coins (the original vesting account, a redeem target) stakes what it
	// may and then anybody asks for its conversion back to a plain account: while coins are locked the
	// conversion must be refused, staked or not - otherwise the lockup attached by a redeem is gone
	for _, a := range d.accts {
		a := a
		add(fmt.Sprintf("delegate(%s,all-free)", a.name), func(p []string, res *engine.Result) string {
			va, ok := w.App.AccountKeeper.GetAccount(w.Ctx(), a.addr).(*vtypes.ClawbackVestingAccount)
			if !ok {
				return "skip"
			}
			free := w.App.BankKeeper.GetBalance(w.Ctx(), a.addr, world.Denom).Amount.Sub(va.GetVestingCoins(w.Header.Time).AmountOf(world.Denom))
			if !free.IsPositive() {
				return "skip"
			}
			if _, err := w.RunMsg(w.Ctx(), stakingtypes.NewMsgDelegate(a.addr, w.ValAddr[0], sdk.NewCoin(world.Denom, free))); err != nil {
				return engine.ErrClass(err)
			}
			return "ok"
		})
		add(fmt.Sprintf("convertVestingAccount(%s)", a.name), func(p []string, res *engine.Result) string {
			if _, ok := w.App.AccountKeeper.GetAccount(w.Ctx(), a.addr).(*vtypes.ClawbackVestingAccount); !ok {
				return "skip"
			}
			if _, err := w.RunMsg(w.Ctx(), vtypes.NewMsgConvertVestingAccount(a.addr)); err != nil {
				return engine.ErrClass(err)
			}
			return "ok"
		})
	}
	for _, k := range []int64{4, 5, 6, 15, 20, 26} {
		k := k
		add(fmt.Sprintf("time(+%d)", k), func(p []string, res *engine.Result) string {
			if d.t0+k <= w.Header.Time.Unix() {
				return "skip"
			}
			d.setTime(d.t0 + k)
			return "ok"
		})
	}
	return out
}

func pick(cls string, base sdkmath.Int) sdkmath.Int {
	switch cls {
	case "1":
		return sdkmath.NewInt(1)
	case "half":
		return base.QuoRaw(2)
	case "all":
		return base
	case "all+1":
		return base.AddRaw(1)
	}
	panic(cls)
}

func (d *sdriver) viol(res *engine.Result, op, target, breach, what string, p []string, detail map[string]any) {
	res.AddViolation(engine.Violation{Signature: fmt.Sprintf("C11|op=%s|target=%s|breach=%s", op, target, breach), What: what, Path: p, Detail: detail})
}

func (d *sdriver) targetKind(ctx sdk.Context, from, to acct) string {
	if from.name == to.name {
		return "self"
	}
	if _, va := d.lockSched(ctx, to.addr); va != nil {
		return "vesting"
	}
	return "plain"
}

func (d *sdriver) liquidate(from, to acct, cls string, p []string, res *engine.Result) string {
	w := d.w
	ctx := w.Ctx()
	now := w.Header.Time.Unix()
	pre, va := d.lockSched(ctx, from.addr)
	if va == nil {
		return "skip"
	}
	locked := va.GetLockedUpCoins(w.Header.Time).AmountOf(world.Denom)
	amt := pick(cls, locked)
	if !amt.IsPositive() {
		return "skip"
	}
	tk := d.targetKind(ctx, from, to)
	preBank := w.App.BankKeeper.GetBalance(ctx, from.addr, world.Denom).Amount
	nBefore := len(d.denoms(ctx))
	_, err := w.RunMsg(ctx, lvtypes.NewMsgLiquidate(from.addr, to.addr, sdk.NewCoin(world.Denom, amt)))
	res.Evaluations++
	if err != nil {
		return engine.ErrClass(err)
	}
	if amt.GT(locked) {
		d.viol(res, "liquidate", tk, "overdraw", "liquidating more than the locked amount succeeded", p, nil)
	}
	dns := d.denoms(ctx)
	if len(dns) != nBefore+1 {
		d.viol(res, "liquidate", tk, "no-denom", "liquidation did not create exactly one liquid denom", p, nil)
		return "ok"
	}
	dn := dns[len(dns)-1]
	post, _ := d.lockSched(ctx, from.addr)
	ds, _ := d.denomSched(ctx, dn)
	// split exact: future events of (account after) + (denom) == future events of (account before)
	merged := rm.Union(post, ds)
	if futureMap(merged, now) != futureMap(pre, now) {
		d.viol(res, "liquidate", tk, "split", "account schedule + liquid-token schedule differ from the original lockup schedule", p,
			map[string]any{"before": futureMap(pre, now), "account_after": futureMap(post, now), "denom": ds.EventMap(), "t_rel": now - d.t0})
	}
	for _, e := range append(append([]rm.Event{}, post.Events...), ds.Events...) {
		if e.A.HasNegative() {
			d.viol(res, "liquidate", tk, "negative", "a period amount is negative after the split", p, nil)
		}
	}
	if !ds.Total().Equal(rm.One(world.Denom, amt.Int64())) {
		d.viol(res, "liquidate", tk, "moved-total", "moved total differs from the requested amount", p, map[string]any{"moved": ds.Total().String(), "want": amt.String()})
	}
	if got := preBank.Sub(w.App.BankKeeper.GetBalance(ctx, from.addr, world.Denom).Amount); !got.Equal(amt) {
		d.viol(res, "liquidate", tk, "debit", "the account was not debited exactly the liquidated amount", p, nil)
	}
	if got := d.liquidBal(ctx, dn, to.addr); !got.Equal(amt) {
		d.viol(res, "liquidate", tk, "credit", "the recipient did not receive exactly the liquidated amount of liquid tokens", p, map[string]any{"got": got.String()})
	}
	res.Nontrivial[fmt.Sprintf("liq|%s|%s|%d|%s", from.name, amt, now-d.t0, futureMap(pre, now))] = true
	return "ok"
}

func (d *sdriver) transfer(dn string, from, to acct, cls string, p []string, res *engine.Result) string {
	w := d.w
	ctx := w.Ctx()
	bal := d.liquidBal(ctx, dn, from.addr)
	amt := pick(cls, bal)
	if !amt.IsPositive() {
		return "skip"
	}
	// bring enough to the bank side, then a plain bank send
	bank := w.App.BankKeeper.GetBalance(ctx, from.addr, dn).Amount
	if bank.LT(amt) {
		id := w.App.Erc20Keeper.GetTokenPairID(ctx, dn)
		pair, _ := w.App.Erc20Keeper.GetTokenPair(ctx, id)
		if _, err := w.RunMsg(ctx, erc20types.NewMsgConvertERC20(amt.Sub(bank), from.addr, pair.GetERC20Contract(), common.BytesToAddress(from.addr))); err != nil {
			return engine.ErrClass(err)
		}
	}
	_, err := w.RunMsg(ctx, banktypes.NewMsgSend(from.addr, to.addr, sdk.NewCoins(sdk.NewCoin(dn, amt))))
	return engine.ErrClass(err)
}

func (d *sdriver) redeem(dn string, from, to acct, cls string, p []string, res *engine.Result) string {
	w := d.w
	ctx := w.Ctx()
	bal := d.liquidBal(ctx, dn, from.addr)
	amt := pick(cls, bal)
	if !amt.IsPositive() {
		return "skip"
	}
	tk := d.targetKind(ctx, from, to)
	preTo := w.App.BankKeeper.GetBalance(ctx, to.addr, world.Denom).Amount
	preMod := w.App.BankKeeper.GetBalance(ctx, d.mod, world.Denom).Amount
	preSupply := w.App.BankKeeper.GetSupply(ctx, dn).Amount
	_, err := w.RunMsg(ctx, lvtypes.NewMsgRedeem(from.addr, to.addr, sdk.NewCoin(dn, amt)))
	res.Evaluations++
	if err != nil {
		return engine.ErrClass(err)
	}
	if amt.GT(bal) {
		d.viol(res, "redeem", tk, "overdraw", "redeeming more liquid tokens than held succeeded", p, nil)
	}
	if got := bal.Sub(d.liquidBal(ctx, dn, from.addr)); !got.Equal(amt) {
		d.viol(res, "redeem", tk, "debit", "the redeemer's liquid balance did not drop by exactly the redeemed amount", p, map[string]any{"got": got.String()})
	}
	if got := w.App.BankKeeper.GetBalance(ctx, to.addr, world.Denom).Amount.Sub(preTo); !got.Equal(amt) {
		d.viol(res, "redeem", tk, "credit", "the recipient was not credited exactly the redeemed amount", p, map[string]any{"got": got.String()})
	}
	if got := preMod.Sub(w.App.BankKeeper.GetBalance(ctx, d.mod, world.Denom).Amount); !got.Equal(amt) {
		d.viol(res, "redeem", tk, "module", "the module did not release exactly the redeemed amount", p, nil)
	}
	if got := preSupply.Sub(w.App.BankKeeper.GetSupply(ctx, dn).Amount); !got.Equal(amt) {
		d.viol(res, "redeem", tk, "burn", "the liquid supply did not drop by exactly the redeemed amount", p, nil)
	}
	res.Nontrivial[fmt.Sprintf("red|%s|%s>%s|%s|%d", dn, from.name, to.name, amt, w.Header.Time.Unix()-d.t0)] = true
	return "ok:" + tk
}

// invariant: backing, schedule sums, no early unlock — in every visited state.
func (d *sdriver) invariant(w *world.World, p []string, res *engine.Result) {
	ctx := w.Ctx()
	now := w.Header.Time.Unix()
	last, target := "init", "-"
	if len(p) > 0 {
		last = p[len(p)-1]
		if i := strings.IndexByte(last, '('); i > 0 {
			last = last[:i]
		}
	}
	viol := func(breach, what string, detail map[string]any) {
		d.viol(res, "inv-after-"+last, target, breach, what, p, detail)
	}
	supplySum := sdkmath.ZeroInt()
	var scheds []rm.Sched
	for _, dn := range d.denoms(ctx) {
		sup := w.App.BankKeeper.GetSupply(ctx, dn).Amount
		supplySum = supplySum.Add(sup)
		s, ok := d.denomSched(ctx, dn)
		if !ok {
			if !sup.IsZero() {
				viol("schedule-sum", "a liquid denom with supply has no recorded schedule", map[string]any{"denom": dn, "supply": sup.String()})
			}
			continue
		}
		tot := s.Total()[world.Denom]
		if tot == nil {
			tot = new(big.Int)
		}
		if tot.Cmp(sup.BigInt()) != 0 {
			viol("schedule-sum", "a liquid denom's recorded schedule does not sum to its supply", map[string]any{"denom": dn, "schedule": tot.String(), "supply": sup.String()})
		}
		scheds = append(scheds, s)
	}
	modBal := w.App.BankKeeper.GetBalance(ctx, d.mod, world.Denom).Amount
	if !modBal.Equal(supplySum) {
		viol("backing", "native coins held by the module differ from the liquid tokens in circulation", map[string]any{"module": modBal.String(), "liquid_supply": supplySum.String()})
	}
	// no early unlock: locked(t') summed over accounts and denoms >= locked_ref(t') for t' >= now
	// what an account has locked at a future time is asked of the account itself (GetLockedUpCoins:
	// the lockup periods AND the end-time shortcut of ReadSchedule), not recomputed from its periods
	var accS []rm.Sched
	var vas []*vtypes.ClawbackVestingAccount
	var ends []int64
	for _, a := range d.accts {
		if s, va := d.lockSched(ctx, a.addr); va != nil {
			accS = append(accS, s)
			vas = append(vas, va)
			ends = append(ends, va.EndTime)
		}
	}
	all := append(append([]rm.Sched{}, accS...), scheds...)
	times := append(rm.Times(append(all, d.ref)...), ends...)
	sort.Slice(times, func(i, j int) bool { return times[i] < times[j] })
	for _, t := range times {
		if t < now {
			continue
		}
		locked := rm.Amt{}
		for _, va := range vas {
			locked = locked.Add(c09.FromCoins(sdk.NewCoins(sdk.NewCoin(world.Denom, va.GetLockedUpCoins(time.Unix(t, 0)).AmountOf(world.Denom)))))
		}
		for _, s := range scheds {
			locked = locked.Add(s.Total().Sub(s.Read(t)))
		}
		want := d.refTot.Sub(d.ref.Read(t))
		res.Evaluations++
		if !want.LTE(locked) {
			viol("early", "coins are unlocked earlier than in the world where nothing was liquidated", map[string]any{"t_rel": t - d.t0, "locked_now": locked.String(), "locked_ref": want.String()})
			break
		}
	}
}

func bounds(tier string) (int, time.Duration) {
	if tier == "thorough" {
		return 4, 25 * time.Minute
	}
	return 3, 5 * time.Minute
}

func Worker(shard, n int, tier string) *engine.Result {
	res := engine.NewResult(Prop)
	pure(res, tier, shard, n)
	d := newSDriver(tier)
	depth, dl := bounds(tier)
	sub := engine.NewResult(Prop)
	e := &engine.Explorer{W: d.w, Res: sub, Stores: []string{"acc", "bank", "liquidvesting", "erc20", "evm"}, Ops: d.ops, Invariant: d.invariant,
		MaxDepth: depth, Shard: shard, NShards: n, Deadline: time.Now().Add(dl),
		Extra: func(w *world.World) string { return fmt.Sprint(w.Header.Time.Unix()) }}
	e.Run()
	for k, v := range sub.States {
		res.States["st|"+k] = v
	}
	sub.States = map[string]int{}
	res.Merge(sub)
	return res
}

func Replay(v engine.Violation) []string {
	if len(v.Path) == 1 && strings.HasPrefix(v.Path[0], "periods=") {
		res := engine.NewResult(Prop)
		pure(res, "quick", 0, 1)
		var sigs []string
		for _, x := range res.Violations {
			sigs = append(sigs, x.Signature)
		}
		return sigs
	}
	for _, tier := range []string{"quick", "thorough"} {
		d := newSDriver(tier)
		res := engine.NewResult(Prop)
		ok := true
		for i, name := range v.Path {
			var found *engine.Op
			for _, op := range d.ops(d.w, i, v.Path[:i]) {
				if op.Name == name {
					o := op
					found = &o
				}
			}
			if found == nil {
				ok = false
				break
			}
			found.Apply(d.w, v.Path[:i+1], res)
			p := v.Path[:i+1]
			engine.GuardInvariant(res, p, func() { d.invariant(d.w, p, res) })
		}
		if ok {
			var sigs []string
			for _, x := range res.Violations {
				sigs = append(sigs, x.Signature)
			}
			return sigs
		}
	}
	return nil
}

func Run(tier string) int {
	start := time.Now()
	res := engine.RunSharded(Prop, tier, 16, Worker)
	res.TracesImpl = res.Evaluations
	depth, _ := bounds(tier)
	res.Sample(map[string]any{"stateful": []string{"liquidate(V>A,half)", "time(+6)", "redeem(aLIQUID0,A>V2,half)"}, "pure": "periods=[{1 3aISLM} {2 3aISLM,7other} {3 4aISLM}] subtrahend=0..11"})
	return engine.Finish(res, engine.Meta{
		Property: Prop, Tier: tier, Level: "model_checking", Start: start, Replayer: Replay,
		Rule:   "pure: all period lists <=3 periods with amounts 0..4 (thorough 0..6), optional second denomination, every subtrahend 0..total+1; stateful (future locked amounts of accounts read through GetLockedUpCoins of the stored account object): DFS with digest dedup over all sequences <= depth of liquidate/transfer/redeem/time-jump among 2-3 vesting accounts and 1-2 plain holders; non-trivial = successful liquidate/redeem distinct by (account, amount, time, schedule)",
		Bounds: map[string]any{"stateful_depth": depth},
		Assumptions: []string{
			"messages through the msg-service router on cache contexts; block time set on the branch header",
			"liquid tokens are transferred by ConvertERC20 + bank send",
			"no-early-unlock is evaluated at every event time +-1 from the current block time on",
		},
	})
}
