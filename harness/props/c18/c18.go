// Package c18: Ethereum transactions survive the Cosmos envelope unchanged (E3 grid).
package c18

import (
	"bytes"
	"fmt"
	"math/big"
	"strings"
	"time"

	sdkmath "cosmossdk.io/math"
	"github.com/cosmos/cosmos-sdk/client"
	codectypes "github.com/cosmos/cosmos-sdk/codec/types"
	sdk "github.com/cosmos/cosmos-sdk/types"
	authsigning "github.com/cosmos/cosmos-sdk/x/auth/signing"
	authtx "github.com/cosmos/cosmos-sdk/x/auth/tx"
	"github.com/ethereum/go-ethereum/common"
	ethtypes "github.com/ethereum/go-ethereum/core/types"
	"github.com/ethereum/go-ethereum/crypto"

	"github.com/haqq-network/haqq/app"
	"github.com/haqq-network/haqq/encoding"
	evmtypes "github.com/haqq-network/haqq/x/evm/types"

	"verif/harness/engine"
)

const Prop = "C18"

var (
	max256  = new(big.Int).Sub(new(big.Int).Lsh(big.NewInt(1), 256), big.NewInt(1))
	chainID = big.NewInt(54211)
)

type txCase struct {
	typ             int // 0 legacy, 1 access list, 2 dynamic
	nonce, gas      uint64
	price, tip, cap *big.Int
	to              *common.Address
	value           *big.Int
	data            []byte
	al              ethtypes.AccessList
	alName          string
	chain           *big.Int // nil = unprotected (legacy only)
	key             int
}

func (c txCase) String() string {
	to := "nil"
	if c.to != nil {
		to = c.to.Hex()[:6]
	}
	ch := "unprotected"
	if c.chain != nil {
		ch = c.chain.String()
	}
	return fmt.Sprintf("type=%d nonce=%d gas=%d price=%s tip=%s cap=%s to=%s value=%s data=%dB al=%s chain=%s key=%d",
		c.typ, c.nonce, c.gas, short(c.price), short(c.tip), short(c.cap), to, short(c.value), len(c.data), c.alName, ch, c.key)
}

func short(b *big.Int) string {
	if b == nil {
		return "-"
	}
	if b.BitLen() > 64 {
		return fmt.Sprintf("2^%d-ish", b.BitLen())
	}
	return b.String()
}

func (c txCase) build() *ethtypes.Transaction {
	switch c.typ {
	case 0:
		return ethtypes.NewTx(&ethtypes.LegacyTx{Nonce: c.nonce, GasPrice: c.price, Gas: c.gas, To: c.to, Value: c.value, Data: c.data})
	case 1:
		return ethtypes.NewTx(&ethtypes.AccessListTx{ChainID: c.chain, Nonce: c.nonce, GasPrice: c.price, Gas: c.gas, To: c.to, Value: c.value, Data: c.data, AccessList: c.al})
	default:
		return ethtypes.NewTx(&ethtypes.DynamicFeeTx{ChainID: c.chain, Nonce: c.nonce, GasTipCap: c.tip, GasFeeCap: c.cap, Gas: c.gas, To: c.to, Value: c.value, Data: c.data, AccessList: c.al})
	}
}

func Worker(shard, n int, tier string) *engine.Result {
	res := engine.NewResult(Prop)
	enc := encoding.MakeConfig(app.ModuleBasics)
	keys := []*[32]byte{}
	for i := 0; i < 2; i++ {
		var k [32]byte
		copy(k[:], crypto.Keccak256([]byte(fmt.Sprintf("verif-c18-key-%d", i))))
		keys = append(keys, &k)
	}
	addr := common.HexToAddress("0x1234567890abcdef1234567890abcdef12345678")
	zero := common.Address{}
	tos := []*common.Address{nil, &addr, &zero}
	amounts := []*big.Int{big.NewInt(0), big.NewInt(1), max256}
	prices := []*big.Int{big.NewInt(0), big.NewInt(1), max256, new(big.Int).Lsh(big.NewInt(1), 200), big.NewInt(1000000000000)}
	nonces := []uint64{0, 1, ^uint64(0)}
	gases := []uint64{21000, 1<<63 - 1}
	big4k := bytes.Repeat([]byte{0xab, 0x00, 0xff, 0x01}, 1024)
	datas := [][]byte{{}, {0x7f}, big4k}
	als := []struct {
		name string
		al   ethtypes.AccessList
	}{
		{"nil", nil}, {"empty", ethtypes.AccessList{}},
		{"1addr0keys", ethtypes.AccessList{{Address: addr, StorageKeys: []common.Hash{}}}},
		{"2addr3keys", ethtypes.AccessList{{Address: addr, StorageKeys: []common.Hash{{1}, {2}}}, {Address: zero, StorageKeys: []common.Hash{{3}}}}},
		{"keys-then-nokeys", ethtypes.AccessList{{Address: addr, StorageKeys: []common.Hash{{1}}}, {Address: zero, StorageKeys: []common.Hash{}}, {Address: addr, StorageKeys: nil}}},
		{"nokeys-then-keys", ethtypes.AccessList{{Address: zero, StorageKeys: []common.Hash{}}, {Address: addr, StorageKeys: []common.Hash{{4}, {5}}}}},
	}
	if tier == "thorough" {
		amounts = append(amounts, new(big.Int).Lsh(big.NewInt(1), 128))
		prices = append(prices, big.NewInt(1000000000))
		nonces = append(nonces, 1<<32)
		gases = append(gases, 1, 0, 1<<63)
		datas = append(datas, bytes.Repeat([]byte{0}, 33))
	}
	baseFees := []*big.Int{nil, big.NewInt(0), big.NewInt(1), big.NewInt(7), big.NewInt(1000000000), new(big.Int).Lsh(big.NewInt(1), 255)}

	idx := 0
	for typ := 0; typ < 3; typ++ {
		chains := []*big.Int{chainID, big.NewInt(1)}
		if typ == 0 {
			chains = append(chains, nil)
		}
		alsT := als
		if typ == 0 {
			alsT = als[:1]
		}
		tips := []*big.Int{nil}
		if typ == 2 {
			tips = prices
		}
		for _, nonce := range nonces {
			for _, gas := range gases {
				for _, price := range prices {
					for _, tip := range tips {
						for _, to := range tos {
							for _, val := range amounts {
								for _, data := range datas {
									for _, al := range alsT {
										for _, ch := range chains {
											for key := range keys {
												idx++
												if idx%n != shard {
													continue
												}
												c := txCase{typ: typ, nonce: nonce, gas: gas, price: price, tip: tip, cap: price, to: to, value: val, data: data, al: al.al, alName: al.name, chain: ch, key: key}
												checkCase(res, enc.TxConfig, c, keys[key][:], baseFees)
											}
										}
									}
								}
							}
						}
					}
				}
			}
		}
	}
	batchWorker(res, shard, n, tier)
	return res
}

func eqBig(a, b *big.Int) bool {
	if a == nil || b == nil {
		return a == nil && b == nil || (a != nil && a.Sign() == 0 && b == nil) || (b != nil && b.Sign() == 0 && a == nil)
	}
	return a.Cmp(b) == 0
}

func compareTx(a, b *ethtypes.Transaction, signer ethtypes.Signer) string {
	if b == nil {
		return "nil-tx"
	}
	if a.Hash() != b.Hash() {
		return "hash"
	}
	ab, _ := a.MarshalBinary()
	bb, _ := b.MarshalBinary()
	if !bytes.Equal(ab, bb) {
		return "binary"
	}
	sa, ea := signer.Sender(a)
	sb, eb := signer.Sender(b)
	if (ea == nil) != (eb == nil) || sa != sb {
		return "sender"
	}
	if a.Type() != b.Type() {
		return "type"
	}
	if a.Nonce() != b.Nonce() {
		return "nonce"
	}
	if a.Gas() != b.Gas() {
		return "gas"
	}
	if !eqBig(a.GasPrice(), b.GasPrice()) || !eqBig(a.GasTipCap(), b.GasTipCap()) || !eqBig(a.GasFeeCap(), b.GasFeeCap()) {
		return "price"
	}
	if (a.To() == nil) != (b.To() == nil) || (a.To() != nil && *a.To() != *b.To()) {
		return "to"
	}
	if !eqBig(a.Value(), b.Value()) {
		return "value"
	}
	if !bytes.Equal(a.Data(), b.Data()) {
		return "data"
	}
	if len(a.AccessList()) != len(b.AccessList()) {
		return "accesslist"
	}
	for i := range a.AccessList() {
		x, y := a.AccessList()[i], b.AccessList()[i]
		if x.Address != y.Address || len(x.StorageKeys) != len(y.StorageKeys) {
			return "accesslist"
		}
		for j := range x.StorageKeys {
			if x.StorageKeys[j] != y.StorageKeys[j] {
				return "accesslist"
			}
		}
	}
	if !eqBig(a.ChainId(), b.ChainId()) {
		return "chainid"
	}
	v1, r1, s1 := a.RawSignatureValues()
	v2, r2, s2 := b.RawSignatureValues()
	if !eqBig(v1, v2) || !eqBig(r1, r2) || !eqBig(s1, s2) {
		return "signature"
	}
	return ""
}

func checkCase(res *engine.Result, txConfig client.TxConfig, c txCase, key []byte, baseFees []*big.Int) {
	cas := c.String()
	viol := func(field, what string, detail map[string]any) {
		res.AddViolation(engine.Violation{Signature: fmt.Sprintf("C18|type=%d|field=%s", c.typ, field), What: what, Path: []string{cas}, Detail: detail})
	}
	priv, err := crypto.ToECDSA(key)
	if err != nil {
		panic(err)
	}
	var signer ethtypes.Signer = ethtypes.HomesteadSigner{}
	if c.chain != nil {
		signer = ethtypes.LatestSignerForChainID(c.chain)
	}
	tx, err := ethtypes.SignTx(c.build(), signer, priv)
	if err != nil {
		res.Outcomes["sign-error"]++
		return
	}
	res.Evaluations++
	res.Transitions++
	res.States[cas] = 0

	// leg 1: wrap / unwrap
	msg := &evmtypes.MsgEthereumTx{}
	pan := ""
	func() {
		defer func() {
			if r := recover(); r != nil {
				pan = fmt.Sprint(r)
			}
		}()
		err = msg.FromEthereumTx(tx)
	}()
	if pan != "" || err != nil {
		// only values outside 256 bits may be refused here; the grid has none
		viol("wrap-refused", "FromEthereumTx refused or panicked on an in-domain transaction", map[string]any{"err": fmt.Sprint(err), "panic": pan})
		return
	}
	if msg.Hash != tx.Hash().Hex() {
		viol("msg-hash", "hash recorded in the message differs from the Ethereum hash", nil)
	}
	if f := compareTx(tx, msg.AsTransaction(), signer); f != "" {
		viol("unwrap-"+f, "unwrapping the message yields a different transaction", nil)
	}
	// derived figures
	td, err := evmtypes.UnpackTxData(msg.Data)
	if err != nil {
		viol("unpack", "UnpackTxData failed", nil)
		return
	}
	gasB := new(big.Int).SetUint64(tx.Gas())
	wantFee := new(big.Int).Mul(tx.GasPrice(), gasB) // GasPrice() is the fee cap for dynamic-fee txs
	if td.Fee().Cmp(wantFee) != 0 || msg.GetFee().Cmp(wantFee) != 0 {
		viol("fee", "Fee differs from gasPrice(feeCap) x gas", nil)
	}
	if td.Cost().Cmp(tx.Cost()) != 0 {
		viol("cost", "Cost differs from the original transaction's cost", nil)
	}
	for _, bf := range baseFees {
		want := new(big.Int).Set(tx.GasPrice())
		if c.typ == 2 && bf != nil {
			want = new(big.Int).Add(tx.GasTipCap(), bf)
			if want.Cmp(tx.GasFeeCap()) > 0 {
				want = new(big.Int).Set(tx.GasFeeCap())
			}
		}
		if c.typ == 2 && bf == nil {
			continue // a dynamic-fee tx has no effective price without a base fee
		}
		got := td.EffectiveGasPrice(bf)
		if got == nil || got.Cmp(want) != 0 {
			viol("effective-price", "EffectiveGasPrice differs from min(feeCap, baseFee+tip) / gasPrice", map[string]any{"basefee": fmt.Sprint(bf), "got": fmt.Sprint(got), "want": want.String()})
			break
		}
		wf := new(big.Int).Mul(want, gasB)
		if td.EffectiveFee(bf).Cmp(wf) != 0 || msg.GetEffectiveFee(bf).Cmp(wf) != 0 {
			viol("effective-fee", "EffectiveFee differs from effective price x gas", nil)
			break
		}
		if td.EffectiveCost(bf).Cmp(new(big.Int).Add(wf, tx.Value())) != 0 {
			viol("effective-cost", "EffectiveCost differs from effective fee + value", nil)
			break
		}
	}

	// reference verdict of ValidateBasic
	wantValid := tx.Gas() >= 1 && tx.Gas() <= 1<<63-1 && wantFee.BitLen() <= 256
	if c.typ == 2 && tx.GasFeeCap().Cmp(tx.GasTipCap()) < 0 {
		wantValid = false
	}
	verr := msg.ValidateBasic()
	if (verr == nil) != wantValid {
		viol("validate-verdict", "ValidateBasic verdict differs from the reference predicate", map[string]any{"err": fmt.Sprint(verr), "want_valid": wantValid})
	}
	if verr != nil {
		res.Outcomes["rejected-by-validate"]++
		return
	}

	// leg 2: Cosmos envelope
	var dec sdk.Tx
	func() {
		defer func() {
			if r := recover(); r != nil {
				pan = fmt.Sprint(r)
			}
		}()
		var built authsigning.Tx
		built, err = msg.BuildTx(txConfig.NewTxBuilder(), "aISLM")
		if err != nil {
			return
		}
		var bz []byte
		bz, err = txConfig.TxEncoder()(built)
		if err != nil {
			return
		}
		dec, err = txConfig.TxDecoder()(bz)
		if err != nil {
			return
		}
		// fee carried by the envelope
		if ft, ok := built.(sdk.FeeTx); ok {
			want := sdk.Coins{}
			if wantFee.Sign() > 0 {
				want = sdk.Coins{sdk.NewCoin("aISLM", sdkmath.NewIntFromBigInt(wantFee))}
			}
			if !ft.GetFee().IsEqual(want) || ft.GetGas() != tx.Gas() {
				viol("envelope-fee", "fee / gas carried by the Cosmos envelope differ from the transaction's", map[string]any{"got": ft.GetFee().String()})
			}
		}
	}()
	if pan != "" || err != nil {
		viol("envelope", "BuildTx / encode / decode failed for a transaction accepted by ValidateBasic", map[string]any{"err": fmt.Sprint(err), "panic": pan})
		return
	}
	msgs := dec.GetMsgs()
	if len(msgs) != 1 {
		viol("envelope-msgs", "decoded envelope does not carry exactly one message", nil)
		return
	}
	m2, ok := msgs[0].(*evmtypes.MsgEthereumTx)
	if !ok {
		viol("envelope-msgs", "decoded message is not a MsgEthereumTx", nil)
		return
	}
	if m2.Hash != tx.Hash().Hex() {
		viol("msg-hash", "hash recorded in the decoded message differs from the Ethereum hash", nil)
	}
	if f := compareTx(tx, m2.AsTransaction(), signer); f != "" {
		viol("roundtrip-"+f, "the transaction decoded from the Cosmos envelope differs from the original", nil)
	}
	if err := m2.ValidateBasic(); err != nil {
		viol("roundtrip-validate", "the decoded message fails ValidateBasic", map[string]any{"err": err.Error()})
	}
	// unwrapping by Ethereum hash (the route the JSON-RPC backend takes)
	if um, uerr := evmtypes.UnwrapEthereumMsg(&dec, tx.Hash()); uerr != nil || um == nil {
		viol("unwrap-by-hash", "the decoded envelope does not yield the transaction by its Ethereum hash", map[string]any{"err": fmt.Sprint(uerr)})
	} else if f := compareTx(tx, um.AsTransaction(), signer); f != "" || um.Hash != tx.Hash().Hex() {
		viol("unwrap-by-hash", "the transaction unwrapped by hash differs from the original", map[string]any{"field": f})
	}
	// the sender the message itself reports (GetSender / GetSigners) is the one recoverable from the
	// signature - whatever the unsigned From field of the envelope says, and whatever the message
	// object held before it was refilled
	if c.chain != nil {
		want, werr := signer.Sender(tx)
		foreign := common.HexToAddress("0x00000000000000000000000000000000000000f0")
		for _, from := range []string{"", foreign.Hex()} {
			m2.From = from
			got, gerr := m2.GetSender(c.chain)
			if (gerr == nil) != (werr == nil) || got != want {
				viol("msg-sender", "the sender reported by the decoded message differs from the one recoverable from the signature", map[string]any{"from_field": from, "got": got.Hex(), "want": want.Hex()})
			}
		}
		// refill: the same message object first holds another signer's transaction
		otherKey, _ := crypto.ToECDSA(bytes.Repeat([]byte{0x5a}, 32))
		if other, err := ethtypes.SignTx(c.build(), signer, otherKey); err == nil {
			re := &evmtypes.MsgEthereumTx{}
			ob, _ := other.MarshalBinary()
			tb, _ := tx.MarshalBinary()
			if re.UnmarshalBinary(ob) == nil {
				_, _ = re.GetSender(c.chain)
				if re.UnmarshalBinary(tb) == nil {
					if got, gerr := re.GetSender(c.chain); (gerr == nil) != (werr == nil) || got != want {
						viol("msg-sender", "a refilled message reports the sender of the transaction it held before", map[string]any{"got": got.Hex(), "want": want.Hex()})
					}
				}
			}
		}
	}
	// the recorded hash is checked on the receiving side whatever it looks like: a message that
	// arrives with the hash of another transaction, a truncated or an omitted hash is refused
	for _, wrong := range []string{"", tx.Hash().Hex()[:20], common.Hash{1}.Hex()} {
		m3 := *m2
		m3.Hash = wrong
		if err := m3.ValidateBasic(); err == nil {
			viol("wrong-hash-accepted", "a message whose recorded hash is not the Ethereum hash passes ValidateBasic", map[string]any{"recorded": wrong})
		}
	}
	// a refused wrap leaves the message as it was: the same object is asked to take a transaction
	// whose value does not fit 256 bits (legal RLP) - it must refuse, and what it holds afterwards
	// must still be consistent (recorded hash == hash of the transaction it unwraps to)
	{
		over := c
		over.value = new(big.Int).Lsh(big.NewInt(1), 256)
		if bad, err := ethtypes.SignTx(over.build(), signer, priv); err == nil {
			held := &evmtypes.MsgEthereumTx{}
			if held.FromEthereumTx(tx) == nil {
				if err := held.FromEthereumTx(bad); err == nil {
					viol("wrap-overflow", "a transaction whose value exceeds 256 bits was wrapped", nil)
				} else if held.Hash != held.AsTransaction().Hash().Hex() {
					viol("refused-wrap-hash", "after a refused wrap the hash recorded in the message differs from the hash of the transaction it holds", map[string]any{"recorded": held.Hash, "holds": held.AsTransaction().Hash().Hex()})
				}
				if bb, err := bad.MarshalBinary(); err == nil {
					held2 := &evmtypes.MsgEthereumTx{}
					if held2.FromEthereumTx(tx) == nil && held2.UnmarshalBinary(bb) != nil && held2.Hash != held2.AsTransaction().Hash().Hex() {
						viol("refused-wrap-hash", "after a refused UnmarshalBinary the hash recorded in the message differs from the hash of the transaction it holds", nil)
					}
				}
			}
		}
	}
	res.Outcomes["roundtrip-ok"]++
	res.Nontrivial[cas] = true
	if len(res.Samples) < 3 {
		res.Sample(cas)
	}
}

// batchWorker: envelopes carrying several Ethereum messages (what a batching client submits). All
// ordered tuples of length 2..L over a base set of distinct signed transactions are wrapped into one
// envelope, encoded, decoded, and every member is unwrapped by its Ethereum hash.
func batchWorker(res *engine.Result, shard, n int, tier string) {
	enc := encoding.MakeConfig(app.ModuleBasics)
	txConfig := enc.TxConfig
	signer := ethtypes.LatestSignerForChainID(chainID)
	addr := common.HexToAddress("0x1234567890abcdef1234567890abcdef12345678")
	var base []*ethtypes.Transaction
	var names []string
	for k := 0; k < 2; k++ {
		key, _ := crypto.ToECDSA(crypto.Keccak256([]byte(fmt.Sprintf("verif-c18-key-%d", k))))
		for typ := 0; typ < 3; typ++ {
			for ti, to := range []*common.Address{&addr, nil} {
				if k == 1 && ti == 1 {
					continue
				}
				c := txCase{typ: typ, nonce: uint64(len(base)), gas: 21000 + uint64(1000*len(base)), price: big.NewInt(int64(10 + len(base))), tip: big.NewInt(1), cap: big.NewInt(int64(10 + len(base))),
					to: to, value: big.NewInt(int64(len(base))), data: []byte{byte(len(base))}, chain: chainID}
				if typ > 0 {
					c.al = ethtypes.AccessList{{Address: addr, StorageKeys: []common.Hash{{byte(typ)}}}}
				}
				tx, err := ethtypes.SignTx(c.build(), signer, key)
				if err != nil {
					panic(err)
				}
				base = append(base, tx)
				names = append(names, fmt.Sprintf("t%d(type=%d,key=%d,to=%v)", len(base)-1, typ, k, to != nil))
			}
		}
	}
	maxLen := 3
	if tier == "thorough" {
		maxLen = 4
	}
	idx := 0
	var rec func(tuple []int)
	check := func(tuple []int) {
		var desc []string
		for _, i := range tuple {
			desc = append(desc, names[i])
		}
		cas := "envelope[" + strings.Join(desc, ",") + "]"
		res.Evaluations++
		viol := func(field, what string, detail map[string]any) {
			if detail == nil {
				detail = map[string]any{}
			}
			detail["case"] = cas
			res.AddViolation(engine.Violation{Signature: fmt.Sprintf("C18|batch=%d|field=%s", len(tuple), field), What: what, Path: []string{cas}, Detail: detail})
		}
		builder, ok := txConfig.NewTxBuilder().(authtx.ExtensionOptionsTxBuilder)
		if !ok {
			panic("tx builder without extension options")
		}
		option, err := codectypes.NewAnyWithValue(&evmtypes.ExtensionOptionsEthereumTx{})
		if err != nil {
			panic(err)
		}
		builder.SetExtensionOptions(option)
		var msgs []sdk.Msg
		fees := sdkmath.ZeroInt()
		gas := uint64(0)
		for _, i := range tuple {
			m := &evmtypes.MsgEthereumTx{}
			if err := m.FromEthereumTx(base[i]); err != nil {
				panic(err)
			}
			msgs = append(msgs, m)
			fees = fees.Add(sdkmath.NewIntFromBigInt(m.GetFee()))
			gas += m.GetGas()
		}
		if err := builder.SetMsgs(msgs...); err != nil {
			panic(err)
		}
		builder.SetFeeAmount(sdk.NewCoins(sdk.NewCoin("aISLM", fees)))
		builder.SetGasLimit(gas)
		bz, err := txConfig.TxEncoder()(builder.GetTx())
		if err != nil {
			viol("envelope", "encoding a multi-message envelope failed", map[string]any{"err": err.Error()})
			return
		}
		dec, err := txConfig.TxDecoder()(bz)
		if err != nil {
			viol("envelope", "decoding a multi-message envelope failed", map[string]any{"err": err.Error()})
			return
		}
		if len(dec.GetMsgs()) != len(tuple) {
			viol("envelope-msgs", "decoded envelope carries a different number of messages", nil)
			return
		}
		for pos, i := range tuple {
			um, uerr := evmtypes.UnwrapEthereumMsg(&dec, base[i].Hash())
			if uerr != nil || um == nil {
				viol("unwrap-by-hash", "a transaction of the envelope cannot be unwrapped by its Ethereum hash", map[string]any{"position": pos, "err": fmt.Sprint(uerr)})
				continue
			}
			if f := compareTx(base[i], um.AsTransaction(), signer); f != "" {
				viol("unwrap-"+f, "the transaction unwrapped by hash differs from the original", map[string]any{"position": pos})
			}
			if um.Hash != base[i].Hash().Hex() {
				viol("msg-hash", "hash recorded in the unwrapped message differs from the Ethereum hash", map[string]any{"position": pos})
			}
			m2, ok := dec.GetMsgs()[pos].(*evmtypes.MsgEthereumTx)
			if !ok || m2.AsTransaction().Hash() != base[i].Hash() {
				viol("order", "message order of the envelope changed in the round trip", map[string]any{"position": pos})
			}
		}
		for i := range base {
			in := false
			for _, j := range tuple {
				in = in || i == j
			}
			if !in {
				if um, uerr := evmtypes.UnwrapEthereumMsg(&dec, base[i].Hash()); uerr == nil {
					viol("unwrap-foreign", "a hash that is not in the envelope was unwrapped", map[string]any{"got": um.Hash})
				}
				break
			}
		}
		res.Outcomes["batch-ok"]++
		res.Nontrivial[cas] = true
	}
	rec = func(tuple []int) {
		if len(tuple) >= 2 {
			idx++
			if idx%n == shard {
				check(tuple)
			}
		}
		if len(tuple) == maxLen {
			return
		}
		for i := range base {
			dup := false
			for _, j := range tuple {
				dup = dup || i == j
			}
			if !dup {
				rec(append(append([]int{}, tuple...), i))
			}
		}
	}
	rec(nil)
}

func Run(tier string) int {
	start := time.Now()
	res := engine.RunSharded(Prop, tier, 16, Worker)
	res.TracesImpl = res.Evaluations
	return engine.Finish(res, engine.Meta{
		Property: Prop, Tier: tier, Level: "model_checking", Start: start,
		Rule:        "full cartesian grid of field values for the three tx types x 2 signing keys x chain ids through FromEthereumTx -> ValidateBasic -> BuildTx -> TxEncoder -> TxDecoder -> GetMsgs / UnwrapEthereumMsg(hash) -> AsTransaction; plus all ordered tuples of length 2..3 (thorough 4) over 9 distinct signed transactions in ONE envelope, each member unwrapped by its hash; non-trivial = case accepted by ValidateBasic and carried through the Cosmos encoding",
		Assumptions: []string{"ValidateBasic-rejected cases (fee overflow, tip > cap, gas 0 or > MaxInt64) are compared only for the wrap/unwrap leg; reference predicate for the verdict is stated in the driver"},
	})
}
