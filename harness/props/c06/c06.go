// Package c06: Ethereum messages and blocked types cannot bypass their route.
//
// Exhaustive enumeration of message forests (exec / grant wrappers to bounded size, linear chains
// across the nesting cap, wide sibling rows) x extension-option lists, each delivered through the
// real DeliverTx (real ante chain) on a branch; an independent tree predicate says which must be
// rejected, and the state is inspected for effects of the blocked message.
package c06

import (
	"fmt"
	"math/big"
	"strings"
	"time"

	sdkmath "cosmossdk.io/math"
	codectypes "github.com/cosmos/cosmos-sdk/codec/types"
	sdk "github.com/cosmos/cosmos-sdk/types"
	txtypes "github.com/cosmos/cosmos-sdk/types/tx"
	"github.com/cosmos/cosmos-sdk/x/authz"
	banktypes "github.com/cosmos/cosmos-sdk/x/bank/types"
	ethtypes "github.com/ethereum/go-ethereum/core/types"

	haqqtypes "github.com/haqq-network/haqq/types"
	evmtypes "github.com/haqq-network/haqq/x/evm/types"

	"verif/harness/engine"
	"verif/harness/world"
)

const Prop = "C06"

const (
	urlEth  = "/ethermint.evm.v1.MsgEthereumTx"
	urlVest = "/cosmos.vesting.v1beta1.MsgCreateVestingAccount"
)

type node struct {
	kind string // exec | send | eth | grantEth | grantVest | grantOK | vest
	kids []node
}

func (n node) String() string {
	if n.kind == "exec" {
		var ks []string
		for _, k := range n.kids {
			ks = append(ks, k.String())
		}
		return "X[" + strings.Join(ks, " ") + "]"
	}
	return n.kind
}

func forestString(f []node) string {
	var ks []string
	for _, k := range f {
		ks = append(ks, k.String())
	}
	return strings.Join(ks, " ")
}

var leafKinds = []string{"send", "eth", "grantEth", "grantVest", "grantOK", "vest"}

// forests enumerates all ordered forests with exactly n nodes (exec nodes have >= 1 child).
func forests(n int) [][]node {
	if n == 0 {
		return [][]node{{}}
	}
	var out [][]node
	// first tree has k nodes, the rest is a forest with n-k nodes
	for k := 1; k <= n; k++ {
		for _, t := range trees(k) {
			for _, rest := range forests(n - k) {
				out = append(out, append([]node{t}, rest...))
			}
		}
	}
	return out
}

func trees(n int) []node {
	var out []node
	if n == 1 {
		for _, k := range leafKinds {
			out = append(out, node{kind: k})
		}
		return out
	}
	for _, f := range forests(n - 1) {
		out = append(out, node{kind: "exec", kids: f})
	}
	return out
}

func chain(depth int, bottom node) node {
	n := bottom
	for i := 0; i < depth; i++ {
		n = node{kind: "exec", kids: []node{n}}
	}
	return n
}

// ---- reference predicate -------------------------------------------------------------------------

type facts struct {
	ethTop, ethUnderExec, vestUnderExec, grantBlocked, nonEth, vestTop bool
	count                                                       int
}

func scan(f []node, underExec bool, fa *facts) {
	for _, n := range f {
		fa.count++
		switch n.kind {
		case "exec":
			fa.nonEth = true
			scan(n.kids, true, fa)
		case "eth":
			if underExec {
				fa.ethUnderExec = true
			} else {
				fa.ethTop = true
			}
		case "vest":
			fa.nonEth = true
			if underExec {
				fa.vestUnderExec = true
			} else {
				fa.vestTop = true
			}
		case "grantEth", "grantVest":
			fa.nonEth = true
			fa.grantBlocked = true
		default:
			fa.nonEth = true
		}
	}
}

type optList struct {
	name    string
	crit    []string // eth | web3 | dyn | unknownMsg | unknownURL
	nonCrit []string
}

func optLists(tier string) []optList {
	base := []string{"eth", "web3", "dyn", "unknownURL"}
	out := []optList{{name: "none"}}
	for _, a := range base {
		out = append(out, optList{name: a, crit: []string{a}})
	}
	out = append(out, optList{name: "unknownMsg", crit: []string{"unknownMsg"}})
	for _, a := range base {
		for _, b := range base {
			out = append(out, optList{name: a + "+" + b, crit: []string{a, b}})
		}
	}
	for _, a := range []string{"eth", "dyn", "unknownURL"} {
		out = append(out, optList{name: "nc:" + a, nonCrit: []string{a}})
		out = append(out, optList{name: "eth|nc:" + a, crit: []string{"eth"}, nonCrit: []string{a}})
	}
	return out
}

func route(o optList) string {
	if len(o.crit) == 0 {
		return "cosmos"
	}
	switch o.crit[0] {
	case "eth":
		return "eth"
	case "web3":
		return "eip712"
	case "dyn":
		return "cosmos"
	}
	return "unknown"
}

// mustReject is the independent reading of the statement.
func mustReject(f []node, o optList) (bool, string) {
	var fa facts
	scan(f, false, &fa)
	r := route(o)
	// an option is unknown if its type is not an extension option at all, or if the route the
	// transaction takes does not define it (eth route: EthereumTx; EIP-712 route: Web3Tx; Cosmos
	// route: DynamicFeeTx)
	known := map[string]string{"eth": "eth", "eip712": "web3", "cosmos": "dyn"}[r]
	for _, c := range o.crit {
		if c == "unknownURL" || c == "unknownMsg" {
			return true, "unknown-extension-option"
		}
		if c != known {
			return true, "extension-option-unknown-to-route"
		}
	}
	// the Cosmos envelope of an Ethereum transaction is not signed: nothing may ride in it, not even
	// as a non-critical option (no option is known to the Ethereum route but its own critical marker)
	if r == "eth" && len(o.nonCrit) > 0 {
		return true, "non-critical-option-on-eth-route"
	}
	if r != "eth" && (fa.ethTop || fa.ethUnderExec) {
		return true, "eth-msg-outside-eth-route"
	}
	if fa.ethUnderExec || fa.vestUnderExec {
		return true, "blocked-under-exec"
	}
	if fa.grantBlocked {
		return true, "grant-of-blocked-type"
	}
	if r == "eth" && fa.nonEth {
		return true, "non-eth-msg-on-eth-route"
	}
	return false, ""
}

// ---- building ------------------------------------------------------------------------------------

type fixture struct {
	w       *world.World
	S, R, T int
	nonce   uint64
}

func newFixture() *fixture {
	w := world.New(world.Options{NumAccounts: 5})
	f := &fixture{w: w, S: 1, R: 2, T: 3}
	f.nonce = w.App.AccountKeeper.GetAccount(w.Ctx(), w.Addrs[f.S]).GetSequence()
	return f
}

type builder struct {
	f     *fixture
	nonce uint64 // next eth nonce to use inside this tx
	raw   bool   // forest contains an unregistered Any: tx cannot be signed through the builder
}

func (b *builder) msg(n node) (sdk.Msg, *codectypes.Any) {
	w := b.f.w
	S, R, T := w.Addrs[b.f.S], w.Addrs[b.f.R], w.Addrs[b.f.T]
	exp := w.Header.Time.Add(time.Hour)
	switch n.kind {
	case "send":
		return banktypes.NewMsgSend(S, R, sdk.NewCoins(sdk.NewInt64Coin(world.Denom, 1))), nil
	case "eth":
		to := w.Eth[b.f.R]
		tx := w.SignEth(w.Keys[b.f.S], world.EthSpec{Nonce: b.nonce, Gas: 30000, To: &to, Value: big.NewInt(7), GasPrice: big.NewInt(0)})
		b.nonce++
		m := &evmtypes.MsgEthereumTx{}
		if err := m.FromEthereumTx(tx); err != nil {
			panic(err)
		}
		return m, nil
	case "grantEth", "grantVest", "grantOK":
		url := map[string]string{"grantEth": urlEth, "grantVest": urlVest, "grantOK": sdk.MsgTypeURL(&banktypes.MsgSend{})}[n.kind]
		g, err := authz.NewMsgGrant(S, T, authz.NewGenericAuthorization(url), &exp)
		if err != nil {
			panic(err)
		}
		return g, nil
	case "vest":
		b.raw = true
		return nil, &codectypes.Any{TypeUrl: urlVest, Value: []byte{0x0a, 0x01, 0x41}}
	case "exec":
		var anys []*codectypes.Any
		for _, k := range n.kids {
			m, raw := b.msg(k)
			if raw != nil {
				anys = append(anys, raw)
				continue
			}
			anys = append(anys, world.MustAny(m))
		}
		return &authz.MsgExec{Grantee: S.String(), Msgs: anys}, nil
	}
	panic(n.kind)
}

func optAny(name string) *codectypes.Any {
	switch name {
	case "eth":
		return world.MustAny(&evmtypes.ExtensionOptionsEthereumTx{})
	case "dyn":
		return world.MustAny(&haqqtypes.ExtensionOptionDynamicFeeTx{MaxPriorityPrice: sdkmath.ZeroInt()})
	case "unknownMsg":
		return world.MustAny(&banktypes.MsgSend{})
	case "unknownURL":
		return &codectypes.Any{TypeUrl: "/verif.unknown.Option", Value: []byte{1}}
	}
	panic(name)
}

// buildTx returns the tx bytes for (forest, option list), correctly signed wherever that is
// possible for the route.
func (f *fixture) buildTx(forest []node, o optList) (bz []byte, how string, err error) {
	w := f.w
	ctx := w.Ctx()
	b := &builder{f: f, nonce: f.nonce}
	var msgs []sdk.Msg
	var rawTop []*codectypes.Any
	for _, n := range forest {
		m, raw := b.msg(n)
		if raw != nil {
			rawTop = append(rawTop, raw)
			msgs = append(msgs, banktypes.NewMsgSend(w.Addrs[f.S], w.Addrs[f.R], sdk.NewCoins(sdk.NewInt64Coin(world.Denom, 1)))) // placeholder, replaced below
			continue
		}
		rawTop = append(rawTop, nil)
		msgs = append(msgs, m)
	}
	var crit, non []*codectypes.Any
	web3 := false
	for _, c := range o.crit {
		if c == "web3" {
			web3 = true
			crit = append(crit, nil) // filled by the EIP-712 builder
			continue
		}
		crit = append(crit, optAny(c))
	}
	for _, c := range o.nonCrit {
		non = append(non, optAny(c))
	}
	r := route(o)
	allEth := true
	for _, n := range forest {
		if n.kind != "eth" {
			allEth = false
		}
	}
	switch {
	case r == "eth" && allEth && len(forest) > 0 && len(o.crit) == 1 && len(o.nonCrit) == 0:
		// the legitimate form, built the way the JSON-RPC server does
		var txs []*ethtypes.Transaction
		for _, m := range msgs {
			txs = append(txs, m.(*evmtypes.MsgEthereumTx).AsTransaction())
		}
		bz, err = world.WrapEth(txs...)
		return bz, "eth-canonical", err
	case r == "eth":
		// eth route with foreign content: unsigned envelope (the eth route refuses signatures)
		for i := range crit {
			if crit[i] == nil {
				crit[i] = world.MustAny(&haqqtypes.ExtensionOptionsWeb3Tx{FeePayer: w.Addrs[f.S].String(), TypedDataChainID: w.EIP155().Uint64()})
			}
		}
		// envelope as close to acceptable as the content allows: gas limit and fee are the sums over
		// the Ethereum messages (what the eth route's basic validation demands), no signatures
		gas := uint64(0)
		for _, m := range msgs {
			if em, ok := m.(*evmtypes.MsgEthereumTx); ok {
				gas += em.GetGas()
			}
		}
		if gas == 0 {
			gas = 500000
		}
		spec := world.CosmosSpec{Key: w.Keys[f.S], Msgs: msgs, Gas: gas, ExtOpts: crit, NonCrit: non}
		bz, err = w.UnsignedTx(spec)
		how = "eth-unsigned"
	case web3 && len(o.crit) == 1 && !b.raw:
		spec := world.EIP712Spec{CosmosSpec: world.CosmosSpec{Key: w.Keys[f.S], Msgs: msgs, Gas: 500000, NonCrit: non}}
		func() {
			defer func() {
				if r := recover(); r != nil {
					err = fmt.Errorf("panic: %v", r)
				}
			}()
			bz, err = w.EIP712Tx(ctx, spec)
		}()
		how = "eip712-signed"
		if err != nil {
			// typed data cannot be built for this message shape: deliver with an empty Web3Tx option
			spec2 := world.CosmosSpec{Key: w.Keys[f.S], Msgs: msgs, Gas: 500000, ExtOpts: []*codectypes.Any{world.MustAny(&haqqtypes.ExtensionOptionsWeb3Tx{FeePayer: w.Addrs[f.S].String()})}, NonCrit: non}
			bz, err = w.CosmosTx(ctx, spec2)
			how = "eip712-unsignable"
		}
	case web3 && len(o.crit) >= 2 && o.crit[0] == "web3" && !b.raw:
		// a properly EIP-712-signed transaction to which further critical options are appended afterwards
		// (the typed data does not cover the option list): must be refused for its options, not for its signature
		spec := world.EIP712Spec{CosmosSpec: world.CosmosSpec{Key: w.Keys[f.S], Msgs: msgs, Gas: 500000, NonCrit: non}}
		func() {
			defer func() {
				if r := recover(); r != nil {
					err = fmt.Errorf("panic: %v", r)
				}
			}()
			bz, err = w.EIP712Tx(ctx, spec)
		}()
		how = "eip712-signed+options"
		if err == nil {
			var extra []*codectypes.Any
			for i, c := range crit {
				if i == 0 {
					continue
				}
				if c == nil {
					c = world.MustAny(&haqqtypes.ExtensionOptionsWeb3Tx{FeePayer: w.Addrs[f.S].String(), TypedDataChainID: w.EIP155().Uint64()})
				}
				extra = append(extra, c)
			}
			bz, err = world.MutateTx(bz, func(body *txtypes.TxBody, _ *txtypes.AuthInfo, _ *[][]byte) {
				body.ExtensionOptions = append(body.ExtensionOptions, extra...)
			})
		}
		if err != nil {
			for i := range crit {
				if crit[i] == nil {
					crit[i] = world.MustAny(&haqqtypes.ExtensionOptionsWeb3Tx{FeePayer: w.Addrs[f.S].String(), TypedDataChainID: w.EIP155().Uint64()})
				}
			}
			bz, err = w.CosmosTx(ctx, world.CosmosSpec{Key: w.Keys[f.S], Msgs: msgs, Gas: 500000, ExtOpts: crit, NonCrit: non})
			how = "cosmos-signed"
		}
	default:
		for i := range crit {
			if crit[i] == nil {
				crit[i] = world.MustAny(&haqqtypes.ExtensionOptionsWeb3Tx{FeePayer: w.Addrs[f.S].String(), TypedDataChainID: w.EIP155().Uint64()})
			}
		}
		spec := world.CosmosSpec{Key: w.Keys[f.S], Msgs: msgs, Gas: 500000, ExtOpts: crit, NonCrit: non}
		bz, err = w.CosmosTx(ctx, spec)
		how = "cosmos-signed"
	}
	if err != nil {
		return nil, how, err
	}
	if b.raw {
		// splice the unregistered Any into the top-level messages (signature no longer matches,
		// the tx must fail at decoding anyway)
		bz, err = world.MutateTx(bz, func(body *txtypes.TxBody, _ *txtypes.AuthInfo, _ *[][]byte) {
			for i, raw := range rawTop {
				if raw != nil {
					body.Messages[i] = raw
				}
			}
		})
		how += "+raw"
	}
	return bz, how, err
}

// ---- effects ------------------------------------------------------------------------------------

type snap struct {
	seq    uint64
	balR   sdkmath.Int
	grants int
}

func (f *fixture) snap() snap {
	ctx := f.w.Ctx()
	w := f.w
	n := 0
	for _, url := range []string{urlEth, urlVest} {
		if a, _ := w.App.AuthzKeeper.GetAuthorization(ctx, w.Addrs[f.T], w.Addrs[f.S], url); a != nil {
			n++
		}
	}
	return snap{
		seq:    w.App.AccountKeeper.GetAccount(ctx, w.Addrs[f.S]).GetSequence(),
		balR:   w.App.BankKeeper.GetBalance(ctx, w.Addrs[f.R], world.Denom).Amount,
		grants: n,
	}
}

func shapeClass(f []node) string {
	var fa facts
	scan(f, false, &fa)
	d := depthOf(f)
	return fmt.Sprintf("n%d-d%d", fa.count, d)
}

func depthOf(f []node) int {
	d := 0
	for _, n := range f {
		if n.kind == "exec" {
			if x := 1 + depthOf(n.kids); x > d {
				d = x
			}
		}
	}
	return d
}

func Worker(shard, n int, tier string) *engine.Result {
	res := engine.NewResult(Prop)
	f := newFixture()
	maxNodes := 4
	if tier == "thorough" {
		maxNodes = 5
	}
	var all [][]node
	for k := 1; k <= maxNodes; k++ {
		all = append(all, forests(k)...)
	}
	res.Extra["forests_by_size"] = len(all)
	// linear chains across the nesting cap, blocked message at the bottom, and wide rows
	for d := 1; d <= 9; d++ {
		for _, bottom := range []string{"eth", "grantEth", "vest", "send"} {
			all = append(all, []node{chain(d, node{kind: bottom})})
		}
	}
	for wdt := 6; wdt <= 8; wdt++ {
		for _, bad := range []string{"eth", "grantVest", "send"} {
			var row []node
			for i := 0; i < wdt-1; i++ {
				row = append(row, node{kind: "exec", kids: []node{{kind: "send"}}})
			}
			row = append(row, node{kind: "exec", kids: []node{{kind: bad}}})
			all = append(all, row)
			all = append(all, []node{{kind: "exec", kids: row}})
		}
	}
	// wide lists of plain messages with the offender far back: inside one exec, and at top level
	for _, wdt := range []int{8, 12} {
		for _, bad := range []node{{kind: "eth"}, {kind: "vest"}, {kind: "grantEth"}, {kind: "grantVest"}, {kind: "exec", kids: []node{{kind: "eth"}}}} {
			for _, pos := range []int{7, wdt - 1} {
				var row []node
				for i := 0; i < wdt; i++ {
					if i == pos {
						row = append(row, bad)
					} else {
						row = append(row, node{kind: "send"})
					}
				}
				all = append(all, []node{{kind: "exec", kids: row}})
				all = append(all, row)
			}
		}
	}
	opts := optLists(tier)
	res.Extra["forests_total"] = len(all)
	res.Extra["option_lists"] = len(opts)
	idx := 0
	for _, forest := range all {
		for _, o := range opts {
			idx++
			if idx%n != shard {
				continue
			}
			must, why := mustReject(forest, o)
			p := []string{"opts=" + o.name, "msgs=" + forestString(forest)}
			bz, how, err := f.buildTx(forest, o)
			if err != nil {
				res.Outcomes["unbuildable:"+how]++
				res.Observe("unbuildable " + how + ": " + err.Error())
				continue
			}
			restore := f.w.Branch()
			pre := f.snap()
			r := f.w.Deliver(bz)
			post := f.snap()
			restore()
			res.Transitions++
			res.Evaluations++
			res.States[p[0]+"|"+p[1]] = 0
			rt := route(o)
			if must {
				res.Outcomes["must-reject:"+why]++
				res.Nontrivial[p[0]+"|"+p[1]] = true
				effects := !post.balR.Equal(pre.balR) || post.grants != pre.grants
				if r.Code == 0 || effects || post.seq != pre.seq {
					breach := "accepted"
					if effects {
						breach = "executed"
					}
					res.AddViolation(engine.Violation{
						Signature: fmt.Sprintf("C06|route=%s|why=%s|shape=%s|breach=%s", rt, why, shapeClass(forest), breach),
						What:      "a transaction that must be rejected before execution was accepted / had effects", Path: p,
						Detail: map[string]any{"code": r.Code, "log": r.Log, "built": how, "recipient_delta": post.balR.Sub(pre.balR).String(), "blocked_grants": post.grants, "seq_delta": post.seq - pre.seq},
					})
				}
			} else {
				if r.Code == 0 {
					res.Outcomes["free:accepted:"+rt]++
				} else {
					res.Outcomes["free:rejected:"+rt]++
					if rt == "eip712" && strings.HasPrefix(how, "eip712") {
						res.Observe("free eip712 rejected (" + how + ") " + p[1] + ": " + r.Log)
					}
				}
			}
		}
	}
	return res
}

func Run(tier string) int {
	start := time.Now()
	res := engine.RunSharded(Prop, tier, 16, Worker)
	res.TracesImpl = res.Evaluations
	res.Sample(map[string]any{"case": []string{"opts=dyn", "msgs=X[send X[eth]] grantOK"}})
	for _, rt := range []string{"cosmos", "eth", "eip712"} {
		if res.Outcomes["free:accepted:"+rt] == 0 {
			res.HarnessErr = "vacuous: no benign transaction was accepted on route " + rt
		}
	}
	return engine.Finish(res, engine.Meta{
		Property: Prop, Tier: tier, Level: "model_checking", Start: start,
		Rule: "all ordered message forests with <= 4 (thorough 5) nodes over {exec, send, eth msg, grant(blocked eth), grant(blocked vesting), grant(allowed), packed unregistered vesting msg} + exec chains of depth 1..9 + sibling rows of width 6..8 + lists of 8 / 12 plain messages with the offender at index 7 or last (inside one exec and at top level), x 29 extension-option lists (critical and non-critical), each delivered through the real DeliverTx on a branch; non-trivial = case the reference predicate says must be rejected",
		Assumptions: []string{
			"all exec wrappers name the signer as grantee, so benign trees pass authz without stored grants",
			"transactions are correctly signed wherever the route allows it; message shapes for which legacy EIP-712 typed data cannot be built are delivered with an unsigned Web3Tx option",
			"only the rejections demanded by the statement are required; everything else is free and counted",
		},
	})
}
