// Package c15: module accounting invariants hold after every block (engine E2).
//
// Every history over the template alphabet (base templates incl. slashing evidence / downtime,
// vesting, liquid vesting, DAO, ERC20, EVM and precompile operations, plus governance flows with
// deposits) is executed with real blocks; after EVERY commit every invariant route registered in
// the crisis keeper is evaluated on the committed state.
package c15

import (
	"fmt"
	"strings"
	"time"

	"verif/harness/engine"
	"verif/harness/replica"
	"verif/harness/world"
)

const Prop = "C15"

func plans(tier string, n, nBase int) []replica.Plan {
	var out []replica.Plan
	for i := 0; i < n; i++ {
		tail := 3
		if i >= nBase {
			tail = 5
		}
		out = append(out, replica.Plan{Name: fmt.Sprint(i), Blocks: [][]int{{i}}, Tail: tail})
	}
	for i := 0; i < n; i++ {
		for j := 0; j < n; j++ {
			out = append(out, replica.Plan{Blocks: [][]int{{i}, {j}}, Tail: 3})
			out = append(out, replica.Plan{Blocks: [][]int{{i, j}}, Tail: 3})
		}
	}
	if tier == "thorough" {
		for i := 0; i < nBase; i++ {
			for j := 0; j < nBase; j++ {
				for k := 0; k < nBase; k++ {
					out = append(out, replica.Plan{Blocks: [][]int{{i}, {j}, {k}}, Tail: 3})
				}
			}
		}
	}
	return out
}

func Worker(shard, n int, tier string) *engine.Result {
	res := engine.NewResult(Prop)
	f := replica.NewFix()
	base := replica.Templates()
	tmpl := append(append([]replica.Template{}, base...), replica.GovTemplates()...)
	tmpl = append(tmpl, replica.AdversarialTemplates()...)
	ps := plans(tier, len(tmpl), len(base))
	res.Extra["histories"] = len(ps)
	var cur string
	var lastNames []string
	f.OnCommit = func(w *world.World, k int, names []string) {
		if len(names) > 0 {
			lastNames = names
		}
		ctx := w.App.NewContext(true, w.Header)
		for _, r := range w.App.CrisisKeeper.Routes() {
			res.Evaluations++
			var msg string
			var broken bool
			func() {
				defer func() {
					if p := recover(); p != nil {
						msg, broken = fmt.Sprint(p), true
					}
				}()
				msg, broken = r.Invar(ctx)
			}()
			if broken {
				if len(msg) > 300 {
					msg = msg[:300]
				}
				res.AddViolation(engine.Violation{Signature: fmt.Sprintf("C15|route=%s|lastop=%s", r.FullRoute(), strings.Join(lastNames, ",")),
					What: "a registered accounting invariant is broken after a block", Path: []string{cur, fmt.Sprintf("after block %d", k)}, Detail: map[string]any{"invariant": msg}})
			}
		}
		res.Transitions++
		res.States[fmt.Sprintf("%s@%d", cur, k)] = 0
	}
	poolPokeWorker(f, res, shard, n)
	deadline := time.Now().Add(25 * time.Minute)
	for i, p := range ps {
		if i%n != shard {
			continue
		}
		if time.Now().After(deadline) {
			res.CapHit = true
			break
		}
		var bs []string
		for _, b := range p.Blocks {
			var ns []string
			for _, ti := range b {
				ns = append(ns, tmpl[ti].Name)
			}
			bs = append(bs, "{"+strings.Join(ns, ",")+"}")
		}
		cur = strings.Join(bs, " ")
		if engine.SkipScenario(cur) {
			continue
		}
		lastNames = nil
		h, ref, wref := f.RunReference(p, tmpl)
		// conformance of the E1 engine's virtual block boundary: the same concrete blocks with
		// EndBlock / transient reset / BeginBlock on the uncommitted state must give the same
		// responses and leave the same stores as real Commit-separated blocks
		if (i/n)%4 == 0 {
			saved := f.OnCommit
			f.OnCommit = nil
			vtr, wv := f.Replay(h, replica.Variant{Name: "virtual", Virtual: true, RestartAt: -1})
			f.OnCommit = saved
			var refNoCommit replica.Trace
			for _, st := range ref {
				if !strings.Contains(st.Label, ".commit") {
					refNoCommit = append(refNoCommit, st)
				}
			}
			res.Counters["virtual_boundary_conformance_histories"]++
			if dd := replica.FirstDiff(refNoCommit, vtr); dd >= 0 {
				res.HarnessErr = fmt.Sprintf("virtual block boundary diverges from real blocks in history %s at %s", cur, refNoCommit[dd].Label)
			}
			for _, name := range engine.AllStores(wref) {
				a := engine.DumpStore(wref.App.BaseApp.VerifDeliverCtx(), wref, name)
				b := engine.DumpStore(wv.App.BaseApp.VerifDeliverCtx(), wv, name)
				diff := engine.DiffStores(a, b)
				var keep []string
				for _, dl := range diff {
					// staking's historical-info entries embed the block header, whose AppHash only a real Commit produces
					if name == "staking" && strings.HasPrefix(dl, "50") {
						continue
					}
					keep = append(keep, dl)
				}
				if len(keep) > 0 {
					if len(keep) > 3 {
						keep = keep[:3]
					}
					res.HarnessErr = fmt.Sprintf("virtual block boundary leaves store %s different from real blocks in history %s: %v", name, cur, keep)
				}
			}
		}
		for _, st := range ref {
			if strings.Contains(st.Label, "deliver") && strings.HasPrefix(st.Detail, "code=0 ") {
				res.Nontrivial[cur] = true
			}
		}
	}
	res.Extra["invariant_routes"] = func() []string {
		w := f.NewWorld()
		var out []string
		for _, r := range w.App.CrisisKeeper.Routes() {
			out = append(out, r.FullRoute())
		}
		return out
	}()
	return res
}

func Run(tier string) int {
	start := time.Now()
	res := engine.RunSharded(Prop, tier, 16, Worker)
	res.TracesImpl = res.Transitions
	res.Sample(map[string]any{"history": "{liquidate} {doubleSignEvidence} + 3 empty blocks, all invariant routes after each of the 5 commits"})
	return engine.Finish(res, engine.Meta{
		Property: Prop, Tier: tier, Level: "model_checking", Start: start,
		Rule:        "every template alone, every ordered pair in consecutive blocks and in one block over 32 templates (23 base incl. evidence/downtime, vesting, liquid vesting, DAO, ERC20, EVM, precompiles + 4 governance flows with deposits + 5 adversarial: coins pushed at the pinned module accounts in five ways, a two-denomination deposit burnt after a veto, a contract with foreign coins self-destructing, stake leaving a validator in the block of its double sign, withdraw address pointed at module accounts), plus the pool-poke family (16 one-transaction programs caching a staking pool account around a staking precompile call), thorough: all triples of base templates; real InitChain/BeginBlock/DeliverTx/EndBlock/Commit; after every commit every invariant route of the crisis keeper (bank, staking, distribution, gov) is evaluated; transitions = committed blocks checked, non-trivial = history with an executed transaction",
		Assumptions: []string{"invariants are evaluated on the committed state after every block (not inside blocks)"},
	})
}
