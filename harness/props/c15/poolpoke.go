package c15

import (
	"fmt"
	"math/big"
	"time"

	sdkmath "cosmossdk.io/math"
	sdk "github.com/cosmos/cosmos-sdk/types"
	authtypes "github.com/cosmos/cosmos-sdk/x/auth/types"
	stakingtypes "github.com/cosmos/cosmos-sdk/x/staking/types"
	"github.com/ethereum/go-ethereum/common"

	"verif/harness/engine"
	"verif/harness/evmasm"
	"verif/harness/precomp"
	"verif/harness/replica"
	"verif/harness/world"
)

// poolPokeWorker: one Ethereum transaction in which a contract first gets a staking pool account
// into the EVM's cache (reads its balance / calls it with no value / lets a child frame send it a
// coin and revert), then moves stake through the staking precompile (which changes the pool's bank
// balance behind the cache), and optionally sends the pool one base unit afterwards.  Whatever the
// transaction does, the pools must match the validator and unbonding records after the block.
func poolPokeWorker(f *replica.Fix, res *engine.Result, shard, n int) {
	type prog struct{ poke, op, after string }
	var progs []prog
	for _, poke := range []string{"none", "balance", "zero-value-call", "reverted-transfer"} {
		for _, op := range []string{"delegate", "undelegate"} {
			for _, after := range []string{"none", "tip"} {
				progs = append(progs, prog{poke, op, after})
			}
		}
	}
	for i, pr := range progs {
		if i%n != shard {
			continue
		}
		w := f.NewWorld()
		abis := precomp.Load(w)
		const S = 0 // the genesis delegator: holds stake with both validators
		pool := common.BytesToAddress(authtypes.NewModuleAddress(stakingtypes.BondedPoolName))
		if pr.op == "undelegate" {
			pool = common.BytesToAddress(authtypes.NewModuleAddress(stakingtypes.NotBondedPoolName))
		}
		cAddr, childAddr := world.ContractAddr(0x60), world.ContractAddr(0x61)
		amount := new(big.Int).Mul(big.NewInt(1), new(big.Int).Exp(big.NewInt(10), big.NewInt(18), nil))
		data := precomp.MustPack(abis.Staking, pr.op, w.Eth[S], w.ValAddr[0].String(), amount)
		a := evmasm.New()
		switch pr.poke {
		case "balance":
			a.PushAddr(pool).Op(evmasm.BALANCE).Op(evmasm.POP)
		case "zero-value-call":
			a.Call(evmasm.CALL, 0, pool, big.NewInt(0), 0, 0, 0, 0).Op(evmasm.POP)
		case "reverted-transfer":
			a.Call(evmasm.CALL, 200000, childAddr, big.NewInt(1), 0, 0, 0, 0).Op(evmasm.POP)
		}
		idx := a.Data(data)
		inLen := uint64(a.CopyDataToMem(idx, 0))
		a.Call(evmasm.CALL, 0, precomp.StakingAddr, big.NewInt(0), 0, inLen, 0, 0)
		a.SStoreTop(1) // success flag of the precompile call
		if pr.after == "tip" {
			a.Call(evmasm.CALL, 0, pool, big.NewInt(1), 0, 0, 0, 0).Op(evmasm.POP)
		}
		a.Stop()
		child := evmasm.New().Call(evmasm.CALL, 0, pool, big.NewInt(1), 0, 0, 0, 0).Op(evmasm.POP).Revert().Bytes()
		ctx := w.App.BaseApp.VerifDeliverCtx()
		w.InstallContract(ctx, cAddr, a.Bytes(), nil)
		w.InstallContract(ctx, childAddr, child, nil)
		exp := w.Header.Time.Add(1000 * time.Hour)
		for _, t := range []stakingtypes.AuthorizationType{stakingtypes.AuthorizationType_AUTHORIZATION_TYPE_DELEGATE, stakingtypes.AuthorizationType_AUTHORIZATION_TYPE_UNDELEGATE} {
			au, err := stakingtypes.NewStakeAuthorization([]sdk.ValAddress{w.ValAddr[0], w.ValAddr[1]}, nil, t, nil)
			if err != nil {
				panic(err)
			}
			if err := w.App.AuthzKeeper.SaveGrant(ctx, sdk.AccAddress(cAddr.Bytes()), w.Addrs[S], au, &exp); err != nil {
				panic(err)
			}
		}
		w.NextBlock(6 * time.Second)
		desc := fmt.Sprintf("pool-poke poke=%s op=%s after=%s", pr.poke, pr.op, pr.after)
		check := func(stage string) {
			cctx := w.App.NewContext(true, w.Header)
			for _, r := range w.App.CrisisKeeper.Routes() {
				res.Evaluations++
				var msg string
				var broken bool
				func() {
					defer func() {
						if p := recover(); p != nil {
							msg, broken = fmt.Sprint(p), true
						}
					}()
					msg, broken = r.Invar(cctx)
				}()
				if broken {
					if len(msg) > 300 {
						msg = msg[:300]
					}
					res.AddViolation(engine.Violation{Signature: fmt.Sprintf("C15|route=%s|via=pool-poke|poke=%s|op=%s|after=%s", r.FullRoute(), pr.poke, pr.op, pr.after),
						What: "a registered accounting invariant is broken after a block whose only transaction is a contract moving stake through the staking precompile", Path: []string{desc, stage}, Detail: map[string]any{"invariant": msg}})
				}
			}
		}
		check("before")
		nonce := w.App.AccountKeeper.GetAccount(w.Ctx(), w.Addrs[S]).GetSequence()
		bz, err := world.WrapEth(w.SignEth(w.Keys[S], world.EthSpec{Nonce: nonce, Gas: 2000000, To: &cAddr, Value: big.NewInt(2), GasPrice: big.NewInt(0)}))
		if err != nil {
			panic(err)
		}
		r := w.Deliver(bz)
		ok := r.Code == 0 && w.Slot(w.Ctx(), cAddr, 1).Sign() != 0
		w.NextBlock(6 * time.Second)
		check("after the block with the transaction")
		w.NextBlock(6 * time.Second)
		check("one block later")
		res.Transitions++
		res.States[desc] = 0
		if ok {
			res.Nontrivial[desc] = true
			res.Outcomes["pool-poke:staked"]++
		} else {
			res.Outcomes[fmt.Sprintf("pool-poke:tx-code-%d", r.Code)]++
		}
		_ = sdkmath.ZeroInt
	}
}
