// Package c03: only the key holder can authorise a transaction, once.
//
// E1 with the real DeliverTx: for seven transaction kinds, (a) every single-field mutation of a
// signed transaction and (b) every order <= depth over {t(n), t(n+1), t(n+1) for another chain,
// mutated t(n), t(n+2)} is delivered on branches of the real deliver state; a reference automaton
// (sequence number + set of validly signed payloads) decides what may be accepted.
package c03

import (
	"fmt"
	"math/big"
	"strings"
	"time"

	sdkmath "cosmossdk.io/math"
	codectypes "github.com/cosmos/cosmos-sdk/codec/types"
	sdk "github.com/cosmos/cosmos-sdk/types"
	txtypes "github.com/cosmos/cosmos-sdk/types/tx"
	"github.com/cosmos/cosmos-sdk/types/tx/signing"
	sdkvesting "github.com/cosmos/cosmos-sdk/x/auth/vesting/types"
	banktypes "github.com/cosmos/cosmos-sdk/x/bank/types"
	"github.com/cosmos/cosmos-sdk/x/feegrant"
	"github.com/ethereum/go-ethereum/common"
	ethtypes "github.com/ethereum/go-ethereum/core/types"

	haqqtypes "github.com/haqq-network/haqq/types"
	evmtypes "github.com/haqq-network/haqq/x/evm/types"
	feemarkettypes "github.com/haqq-network/haqq/x/feemarket/types"
	vtypes "github.com/haqq-network/haqq/x/vesting/types"

	"verif/harness/engine"
	"verif/harness/world"
)

const Prop = "C03"

var kinds = []string{"eth-legacy", "eth-accesslist", "eth-dynamic", "cosmos-direct", "cosmos-amino", "eip712-ext", "eip712-signdoc"}

var secpN, _ = new(big.Int).SetString("fffffffffffffffffffffffffffffffebaaedce6af48a03bbfd25e8cd0364141", 16)

type fixture struct {
	w      *world.World
	S, R   int // account indices
	amount int64
	price  *big.Int
}

func newFixture() *fixture {
	fm := feemarkettypes.DefaultParams()
	fm.NoBaseFee = false
	fm.EnableHeight = 0
	fm.BaseFee = sdkmath.NewInt(1000000000)
	fm.MinGasPrice = sdk.ZeroDec()
	w := world.New(world.Options{NumAccounts: 5, FeeMarket: &fm, MaxGas: 40000000})
	// account 3 has granted the signer a fee allowance: naming it as fee granter after signing is then
	// a mutation that is not stopped for want of a grant, but only by the signature
	if err := w.App.FeeGrantKeeper.GrantAllowance(w.Ctx(), w.Addrs[3], w.Addrs[1], &feegrant.BasicAllowance{}); err != nil {
		panic(err)
	}
	return &fixture{w: w, S: 1, R: 2, amount: 100, price: big.NewInt(3000000000)}
}

type variant struct {
	name  string
	bytes []byte
	// seq: the sequence this payload was validly signed for by S on this chain; -1 if it is not a
	// validly signed payload at all (mutated, foreign chain, wrong account number)
	seq   int64
	class string // "valid" | "mutation" | "foreign-chain"
}

func (f *fixture) seq(ctx sdk.Context) uint64 {
	return f.w.App.AccountKeeper.GetAccount(ctx, f.w.Addrs[f.S]).GetSequence()
}

// ---- builders ---------------------------------------------------------------------------------

func (f *fixture) ethSpec(kind string, nonce uint64) world.EthSpec {
	to := f.w.Eth[f.R]
	s := world.EthSpec{Nonce: nonce, Gas: 50000, To: &to, Value: big.NewInt(f.amount), GasPrice: f.price, Tip: big.NewInt(1), Cap: f.price}
	switch kind {
	case "eth-accesslist":
		s.Type = 1
		s.AL = ethtypes.AccessList{{Address: to, StorageKeys: []common.Hash{{1}}}}
	case "eth-dynamic":
		s.Type = 2
	}
	return s
}

func (f *fixture) cosmosSpec(kind string, seq uint64) world.CosmosSpec {
	w := f.w
	gas := uint64(200000)
	fee := sdk.NewCoins(sdk.NewCoin(world.Denom, sdkmath.NewIntFromBigInt(new(big.Int).Mul(f.price, big.NewInt(int64(gas))))))
	s := world.CosmosSpec{
		Key: w.Keys[f.S], Gas: gas, Fee: fee, Seq: &seq,
		Msgs: []sdk.Msg{banktypes.NewMsgSend(w.Addrs[f.S], w.Addrs[f.R], sdk.NewCoins(sdk.NewInt64Coin(world.Denom, f.amount)))},
	}
	if kind == "cosmos-amino" {
		s.Mode = signing.SignMode_SIGN_MODE_LEGACY_AMINO_JSON
	}
	return s
}

func (f *fixture) build(ctx sdk.Context, kind string, seq uint64, foreign bool) []byte {
	w := f.w
	var bz []byte
	var err error
	switch {
	case strings.HasPrefix(kind, "eth-"):
		s := f.ethSpec(kind, seq)
		if foreign {
			s.ChainID = big.NewInt(54212)
		}
		bz, err = world.WrapEth(w.SignEth(w.Keys[f.S], s))
	case kind == "cosmos-direct" || kind == "cosmos-amino":
		s := f.cosmosSpec(kind, seq)
		if foreign {
			s.ChainID = "haqq_54212-3"
		}
		bz, err = w.CosmosTx(ctx, s)
	case kind == "eip712-ext":
		s := world.EIP712Spec{CosmosSpec: f.cosmosSpec(kind, seq)}
		if foreign {
			s.ChainID = "haqq_54212-3"
			c := uint64(54212)
			s.TypedDataChainID = &c
		}
		bz, err = w.EIP712Tx(ctx, s)
	case kind == "eip712-signdoc":
		s := f.cosmosSpec(kind, seq)
		if foreign {
			s.ChainID = "haqq_54212-3"
		}
		bz, err = w.CosmosTxEIP712Sig(ctx, s)
	}
	if err != nil {
		panic(fmt.Sprintf("build %s: %v", kind, err))
	}
	return bz
}

// ---- mutations ----------------------------------------------------------------------------------

type mutation struct {
	name string
	f    func() ([]byte, error)
}

func (f *fixture) ethMutations(kind string, n uint64) []mutation {
	w := f.w
	base := w.SignEth(w.Keys[f.S], f.ethSpec(kind, n))
	v, r, s := base.RawSignatureValues()
	other := w.Eth[3]
	type ed struct {
		name string
		f    func(nonce *uint64, price, tip, cap *big.Int, gas *uint64, to **common.Address, val *big.Int, data *[]byte, al *ethtypes.AccessList, chain *big.Int, v, r, s *big.Int, typ *int)
	}
	eds := []ed{
		{"nonce+1", func(n *uint64, _, _, _ *big.Int, _ *uint64, _ **common.Address, _ *big.Int, _ *[]byte, _ *ethtypes.AccessList, _ *big.Int, _, _, _ *big.Int, _ *int) {
			*n++
		}},
		{"price+1", func(_ *uint64, p, t, c *big.Int, _ *uint64, _ **common.Address, _ *big.Int, _ *[]byte, _ *ethtypes.AccessList, _ *big.Int, _, _, _ *big.Int, _ *int) {
			p.Add(p, big.NewInt(1))
			c.Add(c, big.NewInt(1))
		}},
		{"tip+1", func(_ *uint64, _, t, _ *big.Int, _ *uint64, _ **common.Address, _ *big.Int, _ *[]byte, _ *ethtypes.AccessList, _ *big.Int, _, _, _ *big.Int, _ *int) {
			t.Add(t, big.NewInt(1))
		}},
		{"gas+1", func(_ *uint64, _, _, _ *big.Int, g *uint64, _ **common.Address, _ *big.Int, _ *[]byte, _ *ethtypes.AccessList, _ *big.Int, _, _, _ *big.Int, _ *int) {
			*g++
		}},
		{"to-other", func(_ *uint64, _, _, _ *big.Int, _ *uint64, to **common.Address, _ *big.Int, _ *[]byte, _ *ethtypes.AccessList, _ *big.Int, _, _, _ *big.Int, _ *int) {
			*to = &other
		}},
		{"to-nil", func(_ *uint64, _, _, _ *big.Int, _ *uint64, to **common.Address, _ *big.Int, _ *[]byte, _ *ethtypes.AccessList, _ *big.Int, _, _, _ *big.Int, _ *int) {
			*to = nil
		}},
		{"value+1", func(_ *uint64, _, _, _ *big.Int, _ *uint64, _ **common.Address, val *big.Int, _ *[]byte, _ *ethtypes.AccessList, _ *big.Int, _, _, _ *big.Int, _ *int) {
			val.Add(val, big.NewInt(1))
		}},
		{"data+byte", func(_ *uint64, _, _, _ *big.Int, _ *uint64, _ **common.Address, _ *big.Int, d *[]byte, _ *ethtypes.AccessList, _ *big.Int, _, _, _ *big.Int, _ *int) {
			*d = append(*d, 0x01)
		}},
		{"accesslist+entry", func(_ *uint64, _, _, _ *big.Int, _ *uint64, _ **common.Address, _ *big.Int, _ *[]byte, al *ethtypes.AccessList, _ *big.Int, _, _, _ *big.Int, _ *int) {
			*al = append(*al, ethtypes.AccessTuple{Address: other})
		}},
		{"chainid-other", func(_ *uint64, _, _, _ *big.Int, _ *uint64, _ **common.Address, _ *big.Int, _ *[]byte, _ *ethtypes.AccessList, ch *big.Int, v, _, _ *big.Int, typ *int) {
			if *typ == 0 { // legacy: the chain id lives in v
				v.Add(v, big.NewInt(2))
			} else {
				ch.Add(ch, big.NewInt(1))
			}
		}},
		{"r+1", func(_ *uint64, _, _, _ *big.Int, _ *uint64, _ **common.Address, _ *big.Int, _ *[]byte, _ *ethtypes.AccessList, _ *big.Int, _, r, _ *big.Int, _ *int) {
			r.Add(r, big.NewInt(1))
		}},
		{"s+1", func(_ *uint64, _, _, _ *big.Int, _ *uint64, _ **common.Address, _ *big.Int, _ *[]byte, _ *ethtypes.AccessList, _ *big.Int, _, _, s *big.Int, _ *int) {
			s.Add(s, big.NewInt(1))
		}},
		{"s-malleated", func(_ *uint64, _, _, _ *big.Int, _ *uint64, _ **common.Address, _ *big.Int, _ *[]byte, _ *ethtypes.AccessList, _ *big.Int, v, _, s *big.Int, typ *int) {
			s.Sub(secpN, s)
			flipV(v, *typ)
		}},
		{"v-flip", func(_ *uint64, _, _, _ *big.Int, _ *uint64, _ **common.Address, _ *big.Int, _ *[]byte, _ *ethtypes.AccessList, _ *big.Int, v, _, _ *big.Int, typ *int) {
			flipV(v, *typ)
		}},
		{"v-unprotected", func(_ *uint64, _, _, _ *big.Int, _ *uint64, _ **common.Address, _ *big.Int, _ *[]byte, _ *ethtypes.AccessList, _ *big.Int, v, _, _ *big.Int, typ *int) {
			if *typ == 0 {
				// strip the chain id from v: 27/28
				par := new(big.Int).Sub(v, big.NewInt(35))
				par.Mod(par, big.NewInt(2))
				v.Add(par, big.NewInt(27))
			}
		}},
		{"type-change", func(_ *uint64, _, _, _ *big.Int, _ *uint64, _ **common.Address, _ *big.Int, _ *[]byte, _ *ethtypes.AccessList, _ *big.Int, v, _, _ *big.Int, typ *int) {
			if *typ == 0 {
				par := new(big.Int).Sub(v, big.NewInt(35))
				par.Mod(par, big.NewInt(2))
				v.Set(par)
				*typ = 1
			} else {
				*typ = 3 - *typ // 1 <-> 2
			}
		}},
	}
	var out []mutation
	for _, e := range eds {
		e := e
		out = append(out, mutation{e.name, func() ([]byte, error) {
			nonce, gas := base.Nonce(), base.Gas()
			price, tip, cap := new(big.Int).Set(base.GasPrice()), new(big.Int).Set(base.GasTipCap()), new(big.Int).Set(base.GasFeeCap())
			to := base.To()
			val := new(big.Int).Set(base.Value())
			data := append([]byte{}, base.Data()...)
			al := append(ethtypes.AccessList{}, base.AccessList()...)
			chain := new(big.Int).Set(w.EIP155())
			vv, rr, ss := new(big.Int).Set(v), new(big.Int).Set(r), new(big.Int).Set(s)
			typ := int(base.Type())
			e.f(&nonce, price, tip, cap, &gas, &to, val, &data, &al, chain, vv, rr, ss, &typ)
			var tx *ethtypes.Transaction
			switch typ {
			case 0:
				tx = ethtypes.NewTx(&ethtypes.LegacyTx{Nonce: nonce, GasPrice: price, Gas: gas, To: to, Value: val, Data: data, V: vv, R: rr, S: ss})
			case 1:
				tx = ethtypes.NewTx(&ethtypes.AccessListTx{ChainID: chain, Nonce: nonce, GasPrice: price, Gas: gas, To: to, Value: val, Data: data, AccessList: al, V: vv, R: rr, S: ss})
			default:
				tx = ethtypes.NewTx(&ethtypes.DynamicFeeTx{ChainID: chain, Nonce: nonce, GasTipCap: tip, GasFeeCap: cap, Gas: gas, To: to, Value: val, Data: data, AccessList: al, V: vv, R: rr, S: ss})
			}
			if tx.Hash() == base.Hash() {
				return nil, fmt.Errorf("no-op for this kind")
			}
			return world.WrapEth(tx)
		}})
	}
	// wrapper mutations (fields of the Cosmos envelope, which the Ethereum signature does not cover)
	good, _ := world.WrapEth(base)
	wrap := func(name string, f func(body *txtypes.TxBody, auth *txtypes.AuthInfo, sigs *[][]byte)) {
		out = append(out, mutation{"wrapper:" + name, func() ([]byte, error) { return world.MutateTx(good, f) }})
	}
	wrap("memo", func(b *txtypes.TxBody, _ *txtypes.AuthInfo, _ *[][]byte) { b.Memo = "x" })
	wrap("timeout", func(b *txtypes.TxBody, _ *txtypes.AuthInfo, _ *[][]byte) { b.TimeoutHeight = 1000 })
	wrap("fee+1", func(_ *txtypes.TxBody, a *txtypes.AuthInfo, _ *[][]byte) {
		a.Fee.Amount[0].Amount = a.Fee.Amount[0].Amount.AddRaw(1)
	})
	wrap("fee-1", func(_ *txtypes.TxBody, a *txtypes.AuthInfo, _ *[][]byte) {
		a.Fee.Amount[0].Amount = a.Fee.Amount[0].Amount.SubRaw(1)
	})
	wrap("fee-none", func(_ *txtypes.TxBody, a *txtypes.AuthInfo, _ *[][]byte) { a.Fee.Amount = nil })
	wrap("gaslimit+1", func(_ *txtypes.TxBody, a *txtypes.AuthInfo, _ *[][]byte) { a.Fee.GasLimit++ })
	wrap("payer", func(_ *txtypes.TxBody, a *txtypes.AuthInfo, _ *[][]byte) { a.Fee.Payer = w.Addrs[3].String() })
	wrap("granter", func(_ *txtypes.TxBody, a *txtypes.AuthInfo, _ *[][]byte) { a.Fee.Granter = w.Addrs[3].String() })
	wrap("signature", func(_ *txtypes.TxBody, _ *txtypes.AuthInfo, s *[][]byte) { *s = [][]byte{{1, 2, 3}} })
	wrap("ext-extra", func(b *txtypes.TxBody, _ *txtypes.AuthInfo, _ *[][]byte) {
		b.ExtensionOptions = append(b.ExtensionOptions, world.MustAny(&haqqtypes.ExtensionOptionDynamicFeeTx{}))
	})
	wrap("noncritical-ext", func(b *txtypes.TxBody, _ *txtypes.AuthInfo, _ *[][]byte) {
		b.NonCriticalExtensionOptions = append(b.NonCriticalExtensionOptions, world.MustAny(&haqqtypes.ExtensionOptionDynamicFeeTx{}))
	})
	msgEdit := func(name string, f func(m *evmtypes.MsgEthereumTx)) {
		out = append(out, mutation{"wrapper:" + name, func() ([]byte, error) {
			return world.MutateTx(good, func(b *txtypes.TxBody, _ *txtypes.AuthInfo, _ *[][]byte) {
				var m evmtypes.MsgEthereumTx
				if err := world.Codec().Unmarshal(b.Messages[0].Value, &m); err != nil {
					panic(err)
				}
				f(&m)
				b.Messages[0] = world.MustAny(&m)
			})
		}})
	}
	msgEdit("from-other", func(m *evmtypes.MsgEthereumTx) { m.From = w.Eth[3].Hex() })
	msgEdit("from-self", func(m *evmtypes.MsgEthereumTx) { m.From = w.Eth[f.S].Hex() })
	msgEdit("hash-wrong", func(m *evmtypes.MsgEthereumTx) { m.Hash = common.Hash{1}.Hex() })
	msgEdit("size-set", func(m *evmtypes.MsgEthereumTx) { m.Size_ = 100 })
	return out
}

func flipV(v *big.Int, typ int) {
	if typ == 0 {
		// v = 35 + 2*chain + parity
		par := new(big.Int).Sub(v, big.NewInt(35))
		if par.Bit(0) == 1 {
			v.Sub(v, big.NewInt(1))
		} else {
			v.Add(v, big.NewInt(1))
		}
	} else {
		v.Xor(v, big.NewInt(1))
	}
}

func (f *fixture) cosmosMutations(ctx sdk.Context, kind string, n uint64) []mutation {
	w := f.w
	good := f.build(ctx, kind, n, false)
	var out []mutation
	mut := func(name string, fn func(body *txtypes.TxBody, auth *txtypes.AuthInfo, sigs *[][]byte)) {
		out = append(out, mutation{name, func() ([]byte, error) { return world.MutateTx(good, fn) }})
	}
	editSend := func(b *txtypes.TxBody, fn func(m *banktypes.MsgSend)) {
		var m banktypes.MsgSend
		if err := world.Codec().Unmarshal(b.Messages[0].Value, &m); err != nil {
			panic(err)
		}
		fn(&m)
		b.Messages[0] = world.MustAny(&m)
	}
	mut("msg-amount+1", func(b *txtypes.TxBody, _ *txtypes.AuthInfo, _ *[][]byte) {
		editSend(b, func(m *banktypes.MsgSend) { m.Amount[0].Amount = m.Amount[0].Amount.AddRaw(1) })
	})
	mut("msg-recipient", func(b *txtypes.TxBody, _ *txtypes.AuthInfo, _ *[][]byte) {
		editSend(b, func(m *banktypes.MsgSend) { m.ToAddress = w.Addrs[3].String() })
	})
	mut("msg-duplicate", func(b *txtypes.TxBody, _ *txtypes.AuthInfo, _ *[][]byte) {
		b.Messages = append(b.Messages, b.Messages[0])
	})
	mut("memo", func(b *txtypes.TxBody, _ *txtypes.AuthInfo, _ *[][]byte) { b.Memo = "x" })
	mut("timeout", func(b *txtypes.TxBody, _ *txtypes.AuthInfo, _ *[][]byte) { b.TimeoutHeight = 1000 })
	mut("ext-dynamicfee", func(b *txtypes.TxBody, _ *txtypes.AuthInfo, _ *[][]byte) {
		b.ExtensionOptions = append(b.ExtensionOptions, world.MustAny(&haqqtypes.ExtensionOptionDynamicFeeTx{MaxPriorityPrice: sdkmath.NewInt(1)}))
	})
	mut("noncritical-ext", func(b *txtypes.TxBody, _ *txtypes.AuthInfo, _ *[][]byte) {
		b.NonCriticalExtensionOptions = append(b.NonCriticalExtensionOptions, world.MustAny(&haqqtypes.ExtensionOptionDynamicFeeTx{}))
	})
	mut("fee+1", func(_ *txtypes.TxBody, a *txtypes.AuthInfo, _ *[][]byte) {
		a.Fee.Amount[0].Amount = a.Fee.Amount[0].Amount.AddRaw(1)
	})
	mut("fee-1", func(_ *txtypes.TxBody, a *txtypes.AuthInfo, _ *[][]byte) {
		a.Fee.Amount[0].Amount = a.Fee.Amount[0].Amount.SubRaw(1)
	})
	mut("gaslimit+1", func(_ *txtypes.TxBody, a *txtypes.AuthInfo, _ *[][]byte) { a.Fee.GasLimit++ })
	mut("payer", func(_ *txtypes.TxBody, a *txtypes.AuthInfo, _ *[][]byte) { a.Fee.Payer = w.Addrs[3].String() })
	mut("granter", func(_ *txtypes.TxBody, a *txtypes.AuthInfo, _ *[][]byte) { a.Fee.Granter = w.Addrs[3].String() })
	mut("signerinfo-seq+1", func(_ *txtypes.TxBody, a *txtypes.AuthInfo, _ *[][]byte) { a.SignerInfos[0].Sequence++ })
	mut("signmode-switch", func(_ *txtypes.TxBody, a *txtypes.AuthInfo, _ *[][]byte) {
		s := a.SignerInfos[0].ModeInfo.GetSingle()
		if s.Mode == signing.SignMode_SIGN_MODE_DIRECT {
			s.Mode = signing.SignMode_SIGN_MODE_LEGACY_AMINO_JSON
		} else {
			s.Mode = signing.SignMode_SIGN_MODE_DIRECT
		}
	})
	mut("pubkey-other", func(_ *txtypes.TxBody, a *txtypes.AuthInfo, _ *[][]byte) {
		any, _ := codectypes.NewAnyWithValue(w.Keys[3].PubKey())
		a.SignerInfos[0].PublicKey = any
	})
	if kind != "eip712-ext" {
		mut("sig-bitflip", func(_ *txtypes.TxBody, _ *txtypes.AuthInfo, s *[][]byte) { (*s)[0] = flip((*s)[0], 5) })
		mut("sig-s-malleated", func(_ *txtypes.TxBody, _ *txtypes.AuthInfo, s *[][]byte) { (*s)[0] = malleate((*s)[0]) })
		mut("sig-second", func(_ *txtypes.TxBody, _ *txtypes.AuthInfo, s *[][]byte) { *s = append(*s, (*s)[0]) })
	} else {
		editExt := func(b *txtypes.TxBody, fn func(e *haqqtypes.ExtensionOptionsWeb3Tx)) {
			var e haqqtypes.ExtensionOptionsWeb3Tx
			if err := world.Codec().Unmarshal(b.ExtensionOptions[0].Value, &e); err != nil {
				panic(err)
			}
			fn(&e)
			b.ExtensionOptions[0] = world.MustAny(&e)
		}
		mut("ext-chainid", func(b *txtypes.TxBody, _ *txtypes.AuthInfo, _ *[][]byte) {
			editExt(b, func(e *haqqtypes.ExtensionOptionsWeb3Tx) { e.TypedDataChainID++ })
		})
		mut("ext-feepayer", func(b *txtypes.TxBody, _ *txtypes.AuthInfo, _ *[][]byte) {
			editExt(b, func(e *haqqtypes.ExtensionOptionsWeb3Tx) { e.FeePayer = w.Addrs[3].String() })
		})
		mut("ext-sig-bitflip", func(b *txtypes.TxBody, _ *txtypes.AuthInfo, _ *[][]byte) {
			editExt(b, func(e *haqqtypes.ExtensionOptionsWeb3Tx) { e.FeePayerSig = flip(e.FeePayerSig, 5) })
		})
		mut("ext-sig-malleated", func(b *txtypes.TxBody, _ *txtypes.AuthInfo, _ *[][]byte) {
			editExt(b, func(e *haqqtypes.ExtensionOptionsWeb3Tx) { e.FeePayerSig = malleate(e.FeePayerSig) })
		})
		mut("cosmos-sig-set", func(_ *txtypes.TxBody, _ *txtypes.AuthInfo, s *[][]byte) { (*s)[0] = []byte{1, 2, 3} })
		mut("ext-second-web3", func(b *txtypes.TxBody, _ *txtypes.AuthInfo, _ *[][]byte) {
			b.ExtensionOptions = append(b.ExtensionOptions, b.ExtensionOptions[0])
		})
	}
	// signed with wrong sign-doc data
	one := func(name string, edit func(s *world.CosmosSpec)) {
		out = append(out, mutation{"signdoc:" + name, func() ([]byte, error) {
			s := f.cosmosSpec(kind, n)
			edit(&s)
			switch kind {
			case "eip712-ext":
				return w.EIP712Tx(ctx, world.EIP712Spec{CosmosSpec: s})
			case "eip712-signdoc":
				return w.CosmosTxEIP712Sig(ctx, s)
			}
			return w.CosmosTx(ctx, s)
		}})
	}
	if kind == "eip712-ext" {
		// somebody else signs the typed data with their own key and names themselves fee payer, while
		// everything else (account, sequence, messages, signer-info public key) is the account's
		out = append(out, mutation{"signdoc:forged-by-other-key-as-fee-payer", func() ([]byte, error) {
			return w.EIP712Tx(ctx, world.EIP712Spec{CosmosSpec: f.cosmosSpec(kind, n), ForgeBy: w.Keys[3]})
		}})
	}
	one("accnum-other", func(s *world.CosmosSpec) { x := uint64(3); s.AccNum = &x })
	one("signed-by-other-key", func(s *world.CosmosSpec) { s.Key = w.Keys[3] })
	return out
}

func flip(b []byte, i int) []byte {
	o := append([]byte{}, b...)
	if len(o) > i {
		o[i] ^= 0x10
	}
	return o
}

// malleate returns the (r, n-s) form of a 64/65-byte signature, with the recovery byte flipped.
func malleate(sig []byte) []byte {
	o := append([]byte{}, sig...)
	if len(o) < 64 {
		return o
	}
	s := new(big.Int).SetBytes(o[32:64])
	s.Sub(secpN, s)
	sb := s.Bytes()
	copy(o[32:64], make([]byte, 32))
	copy(o[64-len(sb):64], sb)
	if len(o) == 65 {
		o[64] ^= 1
	}
	return o
}

// ---- oracle -------------------------------------------------------------------------------------

type snap struct {
	seq    uint64
	balS   sdkmath.Int
	balR   sdkmath.Int
	balOth sdkmath.Int
}

func (f *fixture) snap() snap {
	ctx := f.w.Ctx()
	return snap{
		seq:    f.seq(ctx),
		balS:   f.w.App.BankKeeper.GetBalance(ctx, f.w.Addrs[f.S], world.Denom).Amount,
		balR:   f.w.App.BankKeeper.GetBalance(ctx, f.w.Addrs[f.R], world.Denom).Amount,
		balOth: f.w.App.BankKeeper.GetBalance(ctx, f.w.Addrs[3], world.Denom).Amount,
	}
}

// submit delivers v and judges it against the reference automaton; accepted reports whether the
// reference sequence advances.
func (f *fixture) submit(kind string, v variant, refSeq uint64, delivered map[string]bool, p []string, res *engine.Result) (outcome string, accepted bool) {
	pre := f.snap()
	r := f.w.Deliver(v.bytes)
	post := f.snap()
	res.Evaluations++
	validNow := v.seq >= 0 && uint64(v.seq) == refSeq
	charged := post.seq != pre.seq || !post.balS.Equal(pre.balS) || !post.balR.Equal(pre.balR) || !post.balOth.Equal(pre.balOth)
	viol := func(breach, what string) {
		res.AddViolation(engine.Violation{Signature: fmt.Sprintf("C03|kind=%s|case=%s|breach=%s", kind, caseName(v), breach), What: what, Path: p,
			Detail: map[string]any{"code": r.Code, "log": firstLine(r.Log), "seq_before": pre.seq, "seq_after": post.seq,
				"sender_delta": post.balS.Sub(pre.balS).String(), "recipient_delta": post.balR.Sub(pre.balR).String()}})
	}
	if !validNow {
		if charged || r.Code == 0 {
			breach := "executed"
			if delivered[string(v.bytes)] {
				breach = "double"
			} else if v.class == "foreign-chain" {
				breach = "foreign-chain"
			}
			viol(breach, "a transaction that is not validly signed for (account, chain id, current sequence) was accepted or charged to the account")
		}
		return fmt.Sprintf("rejected:%s", v.class), false
	}
	if r.Code != 0 {
		if charged {
			// ante passed (sequence consumed) but execution failed: still exactly one authorisation
			if post.seq != pre.seq+1 {
				viol("seq", "a validly signed transaction changed the sequence by other than one")
			}
			return "valid:failed-in-execution", true
		}
		res.Observe(fmt.Sprintf("validly signed %s %s rejected: %s", kind, v.name, firstLine(r.Log)))
		return "valid:rejected", false
	}
	if post.seq != pre.seq+1 {
		viol("seq", "an accepted transaction did not advance the sequence by exactly one")
	}
	if !post.balR.Sub(pre.balR).Equal(sdkmath.NewInt(f.amount)) {
		viol("effect", "an accepted transfer did not credit the recipient exactly once")
	}
	delivered[string(v.bytes)] = true
	return "valid:accepted", true
}

func (f *fixture) foreignEvents(kind string, good variant, n0 uint64, res *engine.Result) {
	w := f.w
	const T = 3
	S := w.Addrs[f.S]
	restore := w.Branch()
	defer restore()
	delivered := map[string]bool{}
	p := []string{"kind=" + kind, "t(n)"}
	_, acc := f.submit(kind, good, n0, delivered, p, res)
	res.Transitions++
	if !acc {
		res.HarnessErr = "C03 foreign-events family: the original transaction was not accepted"
		return
	}
	ref := n0 + 1
	seqOf := func() uint64 { return w.App.AccountKeeper.GetAccount(w.Ctx(), S).GetSequence() }
	check := func(step string, p []string) {
		res.Evaluations++
		if got := seqOf(); got != ref {
			res.AddViolation(engine.Violation{Signature: fmt.Sprintf("C03|kind=%s|case=foreign-event:%s|breach=sequence-rewound", kind, step),
				What: "another module's message changed the signer's sequence", Path: p, Detail: map[string]any{"sequence": got, "want": ref}})
		}
		// the used transaction stays used (in a branch: a wrongly accepted replay must not disturb the rest)
		undo := w.Branch()
		f.submit(kind, good, ref, delivered, append(append([]string{}, p...), "t(n) again"), res)
		undo()
		res.Transitions++
	}
	// 0. the used Ethereum transaction re-packed by its own signer into a Cosmos transaction (alone, in
	// front of and behind another message, with and without the dynamic-fee option): it must not run again
	if strings.HasPrefix(kind, "eth-") {
		em := &evmtypes.MsgEthereumTx{}
		if err := em.FromEthereumTx(w.SignEth(w.Keys[f.S], f.ethSpec(kind, n0))); err != nil {
			panic(err)
		}
		em.From = ""
		send := banktypes.NewMsgSend(S, w.Addrs[f.R], sdk.NewCoins(sdk.NewInt64Coin(world.Denom, 1)))
		fee := sdk.NewCoins(sdk.NewCoin(world.Denom, sdkmath.NewIntFromBigInt(new(big.Int).Mul(f.price, big.NewInt(3000000)))))
		for _, shape := range []struct {
			name string
			msgs []sdk.Msg
		}{{"[eth]", []sdk.Msg{em}}, {"[eth,send]", []sdk.Msg{em, send}}, {"[send,eth]", []sdk.Msg{send, em}}, {"[eth,send,send]", []sdk.Msg{em, send, send}}} {
			for _, dyn := range []bool{false, true} {
				spec := world.CosmosSpec{Key: w.Keys[f.S], Gas: 3000000, Fee: fee, Msgs: shape.msgs}
				if dyn {
					spec.ExtOpts = []*codectypes.Any{world.MustAny(&haqqtypes.ExtensionOptionDynamicFeeTx{MaxPriorityPrice: sdkmath.NewInt(1)})}
				}
				bz, err := w.CosmosTx(w.Ctx(), spec)
				if err != nil {
					res.Outcomes["rewrap:unbuildable"]++
					continue
				}
				undo := w.Branch()
				preR := f.snap().balR
				r := w.Deliver(bz)
				postR := f.snap().balR
				undo()
				res.Transitions++
				res.Evaluations++
				if r.Code == 0 || postR.Sub(preR).GTE(sdkmath.NewInt(f.amount)) {
					res.AddViolation(engine.Violation{Signature: fmt.Sprintf("C03|kind=%s|case=rewrap|breach=double", kind),
						What: "an already executed Ethereum transaction ran again when its signer re-packed it into a Cosmos transaction", Path: append(append([]string{}, p...), fmt.Sprintf("cosmos%s dynfee=%v", shape.name, dyn)),
						Detail: map[string]any{"code": r.Code, "log": firstLine(r.Log), "recipient_delta": postR.Sub(preR).String()}})
				}
				res.Outcomes["rewrap:rejected"]++
			}
		}
	}
	// 1. a third party grants the signer vesting coins: the plain account becomes a vesting account
	start := w.Header.Time.Add(-5 * time.Second)
	grant := vtypes.NewMsgConvertIntoVestingAccount(w.Addrs[T], S, start, nil, sdkvesting.Periods{{Length: 10, Amount: sdk.NewCoins(sdk.NewInt64Coin(world.Denom, 1000))}}, false, false, nil)
	fee := sdk.NewCoins(sdk.NewCoin(world.Denom, sdkmath.NewIntFromBigInt(new(big.Int).Mul(f.price, big.NewInt(3000000)))))
	bz, err := w.CosmosTx(w.Ctx(), world.CosmosSpec{Key: w.Keys[T], Gas: 3000000, Fee: fee, Msgs: []sdk.Msg{grant}})
	if err != nil {
		panic(err)
	}
	if r := w.Deliver(bz); r.Code != 0 {
		res.HarnessErr = "C03 foreign-events family: the third-party grant failed: " + firstLine(r.Log)
		return
	}
	res.Transitions++
	p = append(p, "grant(T->S)")
	check("third-party-grant", p)
	// 2. the schedule ends, the signer converts the account back (signed by the signer: one sequence)
	w.VirtualNextBlock(time.Hour, nil, nil)
	back, err := w.CosmosTx(w.Ctx(), world.CosmosSpec{Key: w.Keys[f.S], Gas: 3000000, Fee: fee, Msgs: []sdk.Msg{vtypes.NewMsgConvertVestingAccount(S)}})
	if err != nil {
		panic(err)
	}
	if r := w.Deliver(back); r.Code != 0 {
		res.HarnessErr = "C03 foreign-events family: converting the account back failed: " + firstLine(r.Log)
		return
	}
	res.Transitions++
	ref++
	p = append(p, "block(+1h)", "convertBack(S)")
	check("convert-back", p)
	res.Nontrivial["foreign-events|"+kind] = true
	res.Outcomes["foreign-events"]++
}

func caseName(v variant) string {
	n := v.name
	if i := strings.IndexByte(n, '@'); i > 0 {
		n = n[:i]
	}
	return n
}

func firstLine(s string) string {
	if i := strings.IndexByte(s, '\n'); i >= 0 {
		s = s[:i]
	}
	if len(s) > 160 {
		s = s[:160]
	}
	return s
}

// ---- workers -----------------------------------------------------------------------------------

func Worker(shard, n int, tier string) *engine.Result {
	res := engine.NewResult(Prop)
	f := newFixture()
	w := f.w
	ctx := w.Ctx()
	n0 := f.seq(ctx)
	idx := 0
	for _, kind := range kinds {
		// (a) single-field mutations: mutated alone, and mutated followed by the valid original
		var muts []mutation
		if strings.HasPrefix(kind, "eth-") {
			muts = f.ethMutations(kind, n0)
		} else {
			muts = f.cosmosMutations(ctx, kind, n0)
		}
		good := variant{name: "t(n)", bytes: f.build(ctx, kind, n0, false), seq: int64(n0), class: "valid"}
		for _, m := range muts {
			idx++
			if idx%n != shard {
				continue
			}
			bz, err := m.f()
			if err != nil {
				res.Outcomes["mutation-not-applicable"]++
				continue
			}
			if string(bz) == string(good.bytes) {
				res.Outcomes["mutation-noop"]++
				continue
			}
			restore := w.Branch()
			delivered := map[string]bool{}
			p := []string{"kind=" + kind, "mutation:" + m.name}
			mv := variant{name: "mutation:" + m.name, bytes: bz, seq: -1, class: "mutation"}
			if kind == "eip712-signdoc" && m.name == "signmode-switch" {
				// encoding variant, not a content change: the EIP-712 typed data derived from the
				// amino and from the protobuf sign doc are identical, so the same signature
				// authorises the same content once under either mode label
				mv.seq, mv.class = int64(n0), "encoding-variant"
			}
			oc, acc0 := f.submit(kind, mv, n0, delivered, p, res)
			res.Transitions++
			res.Outcomes["mut:"+oc]++
			res.States[kind+"|"+m.name] = 1
			// the original must still be acceptable afterwards (the mutation consumed nothing)
			ref := n0
			if acc0 {
				ref++
			}
			oc2, _ := f.submit(kind, good, ref, delivered, append(p, "t(n)"), res)
			res.Transitions++
			res.Outcomes["after-mut:"+oc2]++
			res.Nontrivial[kind+"|"+m.name] = true
			restore()
		}
		// (c) batches: several Ethereum messages of two senders in one Cosmos envelope
		if strings.HasPrefix(kind, "eth-") {
			f.batches(kind, n0, shard, n, &idx, res, tier)
		}
		// (d) the account record is rewritten by other modules between the original and its replay:
		// a third party turns the signer's account into a clawback vesting account (grant by
		// MsgConvertIntoVestingAccount), later the signer converts it back; neither may rewind the
		// sequence, and the used transaction stays used
		idx++
		if idx%n == shard {
			f.foreignEvents(kind, good, n0, res)
		}
		// (b) orders
		alpha := []variant{
			good,
			{name: "t(n+1)", bytes: f.build(ctx, kind, n0+1, false), seq: int64(n0 + 1), class: "valid"},
			{name: "t(n+1)@otherchain", bytes: f.build(ctx, kind, n0+1, true), seq: -1, class: "foreign-chain"},
			{name: "t(n)@otherchain", bytes: f.build(ctx, kind, n0, true), seq: -1, class: "foreign-chain"},
			{name: "t(n+2)", bytes: f.build(ctx, kind, n0+2, false), seq: int64(n0 + 2), class: "valid"},
		}
		if bz, err := muts[6].f(); err == nil {
			alpha = append(alpha, variant{name: "mutated:" + muts[6].name, bytes: bz, seq: -1, class: "mutation"})
		}
		depth := 3
		if tier == "thorough" {
			depth = 6
		}
		var rec func(d int, path []string, refSeq uint64, delivered map[string]bool)
		rec = func(d int, path []string, refSeq uint64, delivered map[string]bool) {
			if d == depth {
				return
			}
			for i, v := range alpha {
				if d == 0 {
					idx++
					if (idx+i)%n != shard {
						continue
					}
				}
				restore := w.Branch()
				p := append(append([]string{}, path...), v.name)
				dl := map[string]bool{}
				for k := range delivered {
					dl[k] = true
				}
				oc, acc := f.submit(kind, v, refSeq, dl, p, res)
				res.Transitions++
				res.Outcomes["order:"+oc]++
				res.States[strings.Join(p, ">")] = d + 1
				ns := refSeq
				if acc {
					ns++
				}
				if d+1 > res.MaxDepth {
					res.MaxDepth = d + 1
				}
				rec(d+1, p, ns, dl)
				restore()
			}
		}
		rec(0, []string{"kind=" + kind}, n0, map[string]bool{})
	}
	return res
}

// batches delivers every envelope of <= 3 (thorough 6) Ethereum messages drawn from
// {S(n), S(n+1), T(m), T(m+1)} (repetition allowed).  Reference: walking the messages in order,
// each nonce must equal its sender's running sequence; otherwise the whole transaction must be
// rejected without any effect.
func (f *fixture) batches(kind string, n0 uint64, shard, n int, idx *int, res *engine.Result, tier string) {
	w := f.w
	const T = 3
	m0 := w.App.AccountKeeper.GetAccount(w.Ctx(), w.Addrs[T]).GetSequence()
	type el struct {
		name   string
		sender int
		nonce  uint64
		tx     *ethtypes.Transaction
		bad    bool // not signed for this chain: must make the whole envelope unacceptable
	}
	mk := func(name string, sender int, nonce uint64) el {
		s := f.ethSpec(kind, nonce)
		return el{name, sender, nonce, w.SignEth(w.Keys[sender], s), false}
	}
	// a contract creation (the EVM manages the creator's nonce itself during a creation)
	mkCreate := func(name string, sender int, nonce uint64) el {
		s := f.ethSpec(kind, nonce)
		s.To, s.AL = nil, nil
		s.Gas = 100000
		s.Data = common.FromHex("6133ff6000526002601ef3") // returns the runtime CALLER SELFDESTRUCT
		return el{name, sender, nonce, w.SignEth(w.Keys[sender], s), false}
	}
	alpha := []el{mk("S(n)", f.S, n0), mk("S(n+1)", f.S, n0+1), mk("T(m)", T, m0), mk("T(m+1)", T, m0+1), mkCreate("S(n)/create", f.S, n0), mkCreate("S(n+1)/create", f.S, n0+1)}
	// a message of the second sender with the right nonce but signed for another chain id, or (legacy
	// only) without any chain id: riding along with properly signed messages must not get it accepted
	{
		s := f.ethSpec(kind, m0)
		s.ChainID = new(big.Int).Add(w.EIP155(), big.NewInt(1))
		alpha = append(alpha, el{"T(m)/other-chain", T, m0, w.SignEth(w.Keys[T], s), true})
		if kind == "eth-legacy" {
			u := f.ethSpec(kind, m0)
			u.Unprotected = true
			alpha = append(alpha, el{"T(m)/no-chain-id", T, m0, w.SignEth(w.Keys[T], u), true})
		}
	}
	maxLen := 3
	if tier == "thorough" {
		maxLen = 6
	}
	var rec func(cur []el)
	rec = func(cur []el) {
		if len(cur) >= 2 {
			*idx++
			if *idx%n == shard {
				var txs []*ethtypes.Transaction
				var names []string
				seqS, seqT := n0, m0
				valid := true
				for _, e := range cur {
					txs = append(txs, e.tx)
					names = append(names, e.name)
					if e.bad {
						valid = false
					}
					if e.sender == f.S {
						if e.nonce != seqS {
							valid = false
						}
						seqS++
					} else {
						if e.nonce != seqT {
							valid = false
						}
						seqT++
					}
				}
				bz, err := world.WrapEth(txs...)
				if err == nil {
					p := []string{"kind=" + kind, "batch=[" + strings.Join(names, " ") + "]"}
					restore := w.Branch()
					pre := f.snap()
					preT := w.App.AccountKeeper.GetAccount(w.Ctx(), w.Addrs[T]).GetSequence()
					r := w.Deliver(bz)
					post := f.snap()
					postT := w.App.AccountKeeper.GetAccount(w.Ctx(), w.Addrs[T]).GetSequence()
					// every message of an accepted envelope is used up: delivered again on its own it
					// must be rejected
					replayed := ""
					if r.Code == 0 && valid {
						for i, e := range cur {
							if one, err := world.WrapEth(e.tx); err == nil {
								undo := w.Branch()
								if rr := w.Deliver(one); rr.Code == 0 {
									replayed = fmt.Sprintf("%s (position %d)", e.name, i)
								}
								undo()
								res.Transitions++
							}
						}
					}
					restore()
					res.Transitions++
					res.Evaluations++
					res.States[strings.Join(p, "|")] = len(cur)
					charged := post.seq != pre.seq || postT != preT || !post.balS.Equal(pre.balS) || !post.balR.Equal(pre.balR) || !post.balOth.Equal(pre.balOth)
					if !valid {
						res.Outcomes["batch:invalid"]++
						res.Nontrivial[strings.Join(p, "|")] = true
						if r.Code == 0 || charged {
							res.AddViolation(engine.Violation{Signature: fmt.Sprintf("C03|kind=%s|case=batch|breach=replay-in-batch", kind),
								What: "an envelope containing a replayed / out-of-order / wrongly signed Ethereum message was accepted or charged", Path: p,
								Detail: map[string]any{"code": r.Code, "log": firstLine(r.Log), "seqS": fmt.Sprint(pre.seq, "->", post.seq), "seqT": fmt.Sprint(preT, "->", postT)}})
						}
					} else {
						if r.Code == 0 {
							res.Outcomes["batch:valid:accepted"]++
							if replayed != "" {
								res.AddViolation(engine.Violation{Signature: fmt.Sprintf("C03|kind=%s|case=batch|breach=replay-after-batch", kind),
									What: "a message of an accepted envelope was accepted a second time when delivered on its own", Path: p, Detail: map[string]any{"replayed": replayed}})
							}
							if post.seq != seqS || postT != seqT {
								res.AddViolation(engine.Violation{Signature: fmt.Sprintf("C03|kind=%s|case=batch|breach=seq", kind),
									What: "an accepted batch did not advance every sender's sequence by its number of messages", Path: p})
							}
						} else {
							res.Outcomes["batch:valid:rejected"]++
						}
					}
				}
			}
		}
		if len(cur) == maxLen {
			return
		}
		for _, e := range alpha {
			rec(append(append([]el{}, cur...), e))
		}
	}
	rec(nil)
}

func Run(tier string) int {
	start := time.Now()
	res := engine.RunSharded(Prop, tier, 16, Worker)
	res.TracesImpl = res.Evaluations
	res.Sample(map[string]any{"mutation": []string{"kind=eth-dynamic", "mutation:tip+1", "t(n)"}, "order": []string{"kind=cosmos-amino", "t(n)", "t(n)", "t(n+1)@otherchain", "t(n+1)"}})
	// vacuity guard: every kind must have had its valid transaction accepted
	if res.Outcomes["order:valid:accepted"] == 0 || res.Outcomes["after-mut:valid:accepted"] == 0 {
		res.HarnessErr = "vacuous: no valid transaction was ever accepted"
	}
	return engine.Finish(res, engine.Meta{
		Property: Prop, Tier: tier, Level: "model_checking", Start: start,
		Rule:   "7 transaction kinds x (every single-field post-signing mutation, each followed by the untouched original) + all orders <= depth over {t(n), t(n+1), t(n+1)@otherchain, t(n)@otherchain, t(n+2), mutated t(n)} and all multi-message Ethereum envelopes <= depth over two senders' {current, next nonce} + a message signed for another chain id / without chain id + contract creations at both nonces (every message of an accepted envelope re-delivered on its own), and a foreign-events family (a third party's vesting grant and the conversion back rewrite the signer's account between original and replay), through the real DeliverTx on branches; reference automaton = sequence number + validly signed payload set; non-trivial = mutation case delivered",
		Bounds: map[string]any{"order_depth": map[string]int{"quick": 3, "thorough": 6}, "batch_len": map[string]int{"quick": 3, "thorough": 6}, "kinds": kinds},
		Assumptions: []string{
			"DeliverTx path only (CheckTx shares the ante chain; its check state is not branched by the harness)",
			"fixture: base fee 1e9 enabled so that dynamic-fee transactions are admissible; fees are paid, the oracle compares sequence and balances of sender, recipient and a third account",
			"a validly signed transaction that the chain rejects is not a violation (only-if direction), but at least one acceptance per run is required",
		},
	})
}
