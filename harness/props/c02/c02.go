// Package c02: EVM execution never mints or burns the native coin.
//
// Exhaustive scenario grid (topology x value per hop x precompile method x named account x amount x
// pre-state x journal-dirty set).  Each scenario's call tree is synthesised as bytecode and run
// through the real DeliverTx on a branch (A); on a sibling branch the same effects are replayed
// natively (bank sends for the value transfers, the module's own message for the precompile call)
// (C).  Oracles: total supply before == after in A; bank, staking and distribution stores of A == C.
package c02

import (
	"encoding/hex"
	"fmt"
	"math/big"
	"strings"
	"time"

	sdkmath "cosmossdk.io/math"
	sdk "github.com/cosmos/cosmos-sdk/types"
	authtypes "github.com/cosmos/cosmos-sdk/x/auth/types"
	distrtypes "github.com/cosmos/cosmos-sdk/x/distribution/types"
	stakingtypes "github.com/cosmos/cosmos-sdk/x/staking/types"
	transfertypes "github.com/cosmos/ibc-go/v7/modules/apps/transfer/types"
	clienttypes "github.com/cosmos/ibc-go/v7/modules/core/02-client/types"
	"github.com/ethereum/go-ethereum/common"
	ethtypes "github.com/ethereum/go-ethereum/core/types"

	evmtypes "github.com/haqq-network/haqq/x/evm/types"

	"verif/harness/calltree"
	"verif/harness/engine"
	"verif/harness/evmasm"
	"verif/harness/precomp"
	"verif/harness/props/c05"
	"verif/harness/world"
)

const Prop = "C02"

type scenario struct {
	topo   string // direct | one | two
	v0, v1 int64  // value S->R, R->X
	method string
	named  string // signer | caller
	amt    string // 1 | mid | all | all+1 | -
	pre    string // base | wd-other | no-rewards
	dirty  string // none | signer | withdrawer
	post   string // "" | payout-all: after the leaf / child the root sends its whole balance to an EOA
}

func (s scenario) String() string {
	out := fmt.Sprintf("topo=%s v0=%d v1=%d %s(%s,%s) pre=%s dirty=%s", s.topo, s.v0, s.v1, s.method, s.named, s.amt, s.pre, s.dirty)
	if s.post != "" {
		out += " post=" + s.post
	}
	return out
}

func scenarios(tier string) []scenario {
	var out []scenario
	type m struct {
		name   string
		amts   []string
		nameds []string
	}
	ms := []m{
		{"staking.delegate", []string{"1", "mid", "all", "all+1"}, []string{"signer", "caller"}},
		{"staking.undelegate", []string{"1", "mid"}, []string{"signer"}},
		{"distribution.withdrawDelegatorRewards", []string{"-"}, []string{"signer", "caller"}},
		{"distribution.claimRewards", []string{"-"}, []string{"signer", "caller"}},
		{"distribution.setWithdrawAddress", []string{"-"}, []string{"signer"}},
		{"ics20.transfer", []string{"1", "mid", "all", "all+1"}, []string{"signer", "caller"}},
		{"staking.redelegate", []string{"1", "mid"}, []string{"signer", "caller"}},
		{"staking.cancelUnbondingDelegation", []string{"1", "mid"}, []string{"signer", "caller"}},
	}
	pres := []string{"base", "wd-other", "no-rewards"}
	dirties := []string{"none", "signer", "withdrawer"}
	if tier == "thorough" {
		// more amount classes: the smallest amount above 1 and an odd mid amount
		for i := range ms {
			if len(ms[i].amts) > 1 {
				ms[i].amts = append(ms[i].amts, "2", "mid-odd")
			}
		}
	}
	for _, topo := range []string{"direct", "one", "two"} {
		v0s, v1s := []int64{0, 1000}, []int64{0}
		if topo == "direct" {
			v0s = []int64{0}
		}
		if topo == "two" {
			v1s = []int64{0, 400}
		}
		if tier == "thorough" && topo != "direct" {
			// a tiny attached value, and (two frames) the root forwarding everything it received
			v0s = append(v0s, 7)
			if topo == "two" {
				v1s = append(v1s, 7, 1000)
			}
		}
		for _, v0 := range v0s {
			for _, v1 := range v1s {
				if v1 > v0 {
					continue
				}
				for _, mm := range ms {
					for _, named := range mm.nameds {
						if named == "caller" && topo == "direct" {
							continue
						}
						if named == "caller" && (mm.name == "staking.delegate" || mm.name == "ics20.transfer") && (v0 == 0 || (topo == "two" && v1 == 0)) {
							continue // a contract delegating its own funds needs funds
						}
						for _, a := range mm.amts {
							prs := pres
							if named == "caller" && strings.HasPrefix(mm.name, "distribution.") {
								// the calling contract is itself a delegator with pending rewards
								prs = []string{"contract-rewards"}
							}
							if mm.name == "staking.redelegate" || mm.name == "staking.cancelUnbondingDelegation" {
								// no pending rewards (their payout as a side effect is the known finding RC2)
								prs = []string{"no-rewards"}
								if named == "caller" {
									prs = []string{"contract-stake"}
								}
							}
							for _, pre := range prs {
								for _, d := range dirties {
									if topo == "direct" && d != "none" {
										continue
									}
									if d != "none" && v0 == 0 {
										continue // the dirtying send needs funds in the root frame
									}
									if d != "none" && topo == "two" && v1 == v0 {
										continue // ... and leaves too little to forward everything
									}
									out = append(out, scenario{topo, v0, v1, mm.name, named, a, pre, d, ""})
									// the root pays out everything it holds after the precompile call: its balance
									// ends at exactly zero after having been written to the bank in between
									// (only for the methods that are free of the known findings RC1 / RC2 in this pre-state)
									if topo != "direct" && v0 > 0 && (pre == "no-rewards" || pre == "contract-stake") && mm.name != "staking.delegate" && mm.name != "ics20.transfer" {
										out = append(out, scenario{topo, v0, v1, mm.name, named, a, pre, d, "payout-all"})
									}
								}
							}
						}
					}
				}
			}
		}
	}
	return out
}

type runner struct {
	f *c05.Fixture
}

// applyPre puts the branch into the scenario's pre-state with native messages.
func (r *runner) applyPre(pre string) {
	w, f := r.f.W, r.f
	ctx := w.Ctx()
	S := w.Addrs[f.S]
	switch pre {
	case "wd-other":
		if _, err := w.RunMsg(ctx, distrtypes.NewMsgSetWithdrawAddress(S, w.Addrs[f.Wd])); err != nil {
			panic(err)
		}
	case "contract-rewards":
		for id := 0; id < 2; id++ {
			c := sdk.AccAddress(world.ContractAddr(byte(0x10 + id)).Bytes())
			if err := w.App.BankKeeper.SendCoins(ctx, S, c, sdk.NewCoins(sdk.NewCoin(world.Denom, e17(10)))); err != nil {
				panic(err)
			}
			if _, err := w.RunMsg(ctx, stakingtypes.NewMsgDelegate(c, w.ValAddr[0], sdk.NewCoin(world.Denom, e17(10)))); err != nil {
				panic(err)
			}
		}
		// fees in a second denomination reach the validators too: the contracts' pending rewards are
		// in two denominations
		if err := w.App.BankKeeper.SendCoinsFromAccountToModule(ctx, S, authtypes.FeeCollectorName, sdk.NewCoins(sdk.NewInt64Coin("atest", 5000000))); err != nil {
			panic(err)
		}
		w.VirtualNextBlock(6*time.Second, nil, nil)
		w.VirtualNextBlock(6*time.Second, nil, nil)
	case "no-rewards":
		if _, err := w.RunMsg(ctx, distrtypes.NewMsgWithdrawDelegatorReward(S, w.ValAddr[0])); err != nil {
			panic(err)
		}
	case "contract-stake":
		// the contracts hold stake of their own, delegated in this block (no rewards yet)
		for id := 0; id < 2; id++ {
			c := sdk.AccAddress(world.ContractAddr(byte(0x10 + id)).Bytes())
			if err := w.App.BankKeeper.SendCoins(ctx, S, c, sdk.NewCoins(sdk.NewCoin(world.Denom, e17(10)))); err != nil {
				panic(err)
			}
			if _, err := w.RunMsg(ctx, stakingtypes.NewMsgDelegate(c, w.ValAddr[0], sdk.NewCoin(world.Denom, e17(10)))); err != nil {
				panic(err)
			}
		}
	}
}

func e17(n int64) sdkmath.Int { return sdkmath.NewInt(n).Mul(sdkmath.NewInt(100000000000000000)) }

// build returns the call tree (nil root for the direct topology), the leaf, and the native replay.
func (r *runner) build(sc scenario) (root *calltree.Frame, leaf *calltree.Leaf, native func() (bool, error), leafFrame common.Address) {
	w, f := r.f.W, r.f
	ctx := w.Ctx()
	S := w.Addrs[f.S]
	sHex := w.Eth[f.S]
	v1 := w.ValAddr[0]
	st, di := f.ABIs.Staking, f.ABIs.Distr

	// which frame holds the leaf
	var holder *calltree.Frame
	switch sc.topo {
	case "one":
		root = &calltree.Frame{ID: 0, End: "stop"}
		holder = root
	case "two":
		x := &calltree.Frame{ID: 1, End: "stop"}
		root = &calltree.Frame{ID: 0, End: "stop"}
		holder = x
	}
	caller := sHex
	if holder != nil {
		caller = holder.Addr()
	}
	leafFrame = caller
	named := sHex
	namedAcc := S
	if sc.named == "caller" {
		named = caller
		namedAcc = sdk.AccAddress(caller.Bytes())
	}
	// amount
	var amt *big.Int
	balNamed := w.App.BankKeeper.GetBalance(ctx, namedAcc, world.Denom).Amount
	if sc.named == "caller" {
		balNamed = sdkmath.NewInt(sc.v0)
		if sc.topo == "two" {
			balNamed = sdkmath.NewInt(sc.v1)
		}
	} else {
		balNamed = balNamed.SubRaw(sc.v0)
		if sc.dirty == "signer" {
			balNamed = balNamed.AddRaw(1)
		}
	}
	switch sc.amt {
	case "1":
		amt = big.NewInt(1)
	case "mid":
		amt = big.NewInt(300)
	case "2":
		amt = big.NewInt(2)
	case "mid-odd":
		amt = big.NewInt(333)
	case "all":
		amt = balNamed.BigInt()
	case "all+1":
		amt = balNamed.AddRaw(1).BigInt()
	}
	var msgs []sdk.Msg
	switch sc.method {
	case "staking.delegate":
		leaf = &calltree.Leaf{Name: sc.method, To: precomp.StakingAddr, Data: precomp.MustPack(st, "delegate", named, v1.String(), amt)}
		msgs = []sdk.Msg{&stakingtypes.MsgDelegate{DelegatorAddress: namedAcc.String(), ValidatorAddress: v1.String(), Amount: sdk.Coin{Denom: world.Denom, Amount: sdkmath.NewIntFromBigInt(amt)}}}
	case "staking.undelegate":
		leaf = &calltree.Leaf{Name: sc.method, To: precomp.StakingAddr, Data: precomp.MustPack(st, "undelegate", named, v1.String(), amt)}
		msgs = []sdk.Msg{&stakingtypes.MsgUndelegate{DelegatorAddress: namedAcc.String(), ValidatorAddress: v1.String(), Amount: sdk.Coin{Denom: world.Denom, Amount: sdkmath.NewIntFromBigInt(amt)}}}
	case "staking.redelegate":
		v2 := w.ValAddr[1]
		leaf = &calltree.Leaf{Name: sc.method, To: precomp.StakingAddr, Data: precomp.MustPack(st, "redelegate", named, v1.String(), v2.String(), amt)}
		msgs = []sdk.Msg{&stakingtypes.MsgBeginRedelegate{DelegatorAddress: namedAcc.String(), ValidatorSrcAddress: v1.String(), ValidatorDstAddress: v2.String(), Amount: sdk.Coin{Denom: world.Denom, Amount: sdkmath.NewIntFromBigInt(amt)}}}
	case "staking.cancelUnbondingDelegation":
		// the named account has an unbonding entry of this block
		if _, err := w.RunMsg(ctx, &stakingtypes.MsgUndelegate{DelegatorAddress: namedAcc.String(), ValidatorAddress: v1.String(), Amount: sdk.NewInt64Coin(world.Denom, 500)}); err != nil {
			panic(err)
		}
		h := w.Header.Height
		leaf = &calltree.Leaf{Name: sc.method, To: precomp.StakingAddr, Data: precomp.MustPack(st, "cancelUnbondingDelegation", named, v1.String(), amt, big.NewInt(h))}
		msgs = []sdk.Msg{&stakingtypes.MsgCancelUnbondingDelegation{DelegatorAddress: namedAcc.String(), ValidatorAddress: v1.String(), Amount: sdk.Coin{Denom: world.Denom, Amount: sdkmath.NewIntFromBigInt(amt)}, CreationHeight: h}}
	case "distribution.withdrawDelegatorRewards":
		leaf = &calltree.Leaf{Name: sc.method, To: precomp.DistrAddr, Data: precomp.MustPack(di, "withdrawDelegatorRewards", named, v1.String())}
		msgs = []sdk.Msg{distrtypes.NewMsgWithdrawDelegatorReward(namedAcc, v1)}
	case "distribution.claimRewards":
		leaf = &calltree.Leaf{Name: sc.method, To: precomp.DistrAddr, Data: precomp.MustPack(di, "claimRewards", named, uint32(5))}
		msgs = []sdk.Msg{distrtypes.NewMsgWithdrawDelegatorReward(namedAcc, v1)}
	case "ics20.transfer":
		recv := w.Addrs[f.T].String()
		leaf = &calltree.Leaf{Name: sc.method, To: precomp.ICS20Addr, Data: precomp.MustPack(f.ABIs.ICS20, "transfer", world.IBCPort, world.IBCChannelA, world.Denom, amt, named, recv,
			struct {
				RevisionNumber uint64
				RevisionHeight uint64
			}{3, 100000}, uint64(0), "")}
		msgs = []sdk.Msg{&transfertypes.MsgTransfer{SourcePort: world.IBCPort, SourceChannel: world.IBCChannelA, Token: sdk.Coin{Denom: world.Denom, Amount: sdkmath.NewIntFromBigInt(amt)},
			Sender: namedAcc.String(), Receiver: recv, TimeoutHeight: clienttypes.NewHeight(3, 100000)}}
	case "distribution.setWithdrawAddress":
		leaf = &calltree.Leaf{Name: sc.method, To: precomp.DistrAddr, Data: precomp.MustPack(di, "setWithdrawAddress", named, w.Addrs[f.T].String())}
		msgs = []sdk.Msg{distrtypes.NewMsgSetWithdrawAddress(namedAcc, w.Addrs[f.T])}
	}
	// assemble the frames
	dirtyTo := func() *common.Address {
		switch sc.dirty {
		case "signer":
			a := sHex
			return &a
		case "withdrawer":
			a := w.Eth[f.Wd]
			return &a
		}
		return nil
	}()
	if root != nil {
		if dirtyTo != nil {
			root.Items = append(root.Items, calltree.Item{EOA: dirtyTo, Value: 1})
		}
		if sc.topo == "two" {
			holder.Items = append(holder.Items, calltree.Item{Leaf: leaf})
			root.Items = append(root.Items, calltree.Item{Child: holder, Value: sc.v1})
		} else {
			root.Items = append(root.Items, calltree.Item{Leaf: leaf})
		}
		if sc.post == "payout-all" {
			t := w.Eth[f.T]
			root.Items = append(root.Items, calltree.Item{EOA: &t, All: true})
		}
	}
	native = func() (bool, error) {
		ctx := w.Ctx()
		send := func(from, to sdk.AccAddress, v int64) {
			if v > 0 {
				if err := w.App.BankKeeper.SendCoins(ctx, from, to, sdk.NewCoins(sdk.NewInt64Coin(world.Denom, v))); err != nil {
					panic(fmt.Sprintf("native replay of a value transfer failed: %v", err))
				}
			}
		}
		if root != nil {
			rAcc := sdk.AccAddress(root.Addr().Bytes())
			send(S, rAcc, sc.v0)
			if dirtyTo != nil {
				send(rAcc, sdk.AccAddress(dirtyTo.Bytes()), 1)
			}
			if sc.topo == "two" {
				send(rAcc, sdk.AccAddress(holder.Addr().Bytes()), sc.v1)
			}
		}
		ok := true
		var lastErr error
		for _, m := range msgs {
			if _, err := w.RunMsg(ctx, m); err != nil {
				ok = false
				lastErr = err
			}
		}
		if root != nil && sc.post == "payout-all" {
			rAcc := sdk.AccAddress(root.Addr().Bytes())
			if all := w.App.BankKeeper.GetBalance(ctx, rAcc, world.Denom); all.IsPositive() {
				if err := w.App.BankKeeper.SendCoins(ctx, rAcc, w.Addrs[f.T], sdk.NewCoins(all)); err != nil {
					panic(fmt.Sprintf("native replay of the payout failed: %v", err))
				}
			}
		}
		return ok, lastErr
	}
	return
}

var cmpStores = []string{"bank", "staking", "distribution", "ibc"}

func Worker(shard, n int, tier string) *engine.Result {
	res := engine.NewResult(Prop)
	f := c05.NewFixture()
	r := &runner{f: f}
	w := f.W
	scs := scenarios(tier)
	res.Extra["scenarios"] = len(scs)
	controls(f, res, shard)
	// reverted / repeated self-destructs of a dirty contract (C05's family; here only its supply oracle)
	{
		sub := engine.NewResult(Prop)
		c05.SdWorker(f, sub, tier, shard, n)
		c05.CreateWorker(f, sub, tier, shard, n)
		res.Transitions += sub.Transitions
		res.Evaluations += sub.Evaluations
		res.Counters["selfdestruct_family_programs"] += int64(sub.Transitions)
		for _, v := range sub.Violations {
			if strings.HasSuffix(v.Signature, "leak=supply") {
				res.AddViolation(engine.Violation{Signature: "C02|method=none|control|effect=" + map[bool]string{true: "create-family-supply", false: "selfdestruct-family-supply"}[strings.Contains(v.Signature, "create-family")], What: "a transaction with self-destructs / CREATE2 onto funded addresses changed the supply by something else than what a destroyed contract still held",
					Path: v.Path, Detail: v.Detail})
			}
		}
	}
	envelopes(r, res, shard, n)
	for i, sc := range scs {
		if i%n != shard {
			continue
		}
		p := []string{sc.String()}
		// ---- A: through the EVM
		restoreA := w.Branch()
		r.applyPre(sc.pre)
		root, leaf, native, _ := r.build(sc)
		ctx := w.App.BaseApp.VerifDeliverCtx()
		supplyPre := w.App.BankKeeper.GetSupply(ctx, world.Denom).Amount
		var to common.Address
		var data []byte
		if root != nil {
			calltree.Install(w, ctx, root, nil)
			to = root.Addr()
		} else {
			to, data = leaf.To, leaf.Data
		}
		nonce := w.App.AccountKeeper.GetAccount(ctx, w.Addrs[f.S]).GetSequence()
		bz, err := world.WrapEth(w.SignEth(w.Keys[f.S], world.EthSpec{Nonce: nonce, Gas: 10000000, To: &to, Value: big.NewInt(sc.v0), GasPrice: big.NewInt(0), Data: data}))
		if err != nil {
			panic(err)
		}
		resp := w.Deliver(bz)
		ctx = w.Ctx()
		supplyPost := w.App.BankKeeper.GetSupply(ctx, world.Denom).Amount
		// did the precompile call succeed?
		okA := resp.Code == 0
		if root != nil {
			holder := root
			last := len(root.Items) - 1
			if sc.post != "" {
				last--
			}
			idx := last
			if sc.topo == "two" {
				holder = root.Items[last].Child
				idx = 0
			}
			okA = okA && w.Slot(ctx, holder.Addr(), uint64(calltree.SlotFlag+idx)).Sign() != 0
		} else if tr, err := decode(resp.Data); err == nil && tr {
			okA = false
		}
		a := map[string]map[string]string{}
		for _, s := range cmpStores {
			a[s] = engine.DumpStore(w.App.BaseApp.VerifDeliverCtx(), w, s)
		}
		balA := []sdkmath.Int{w.App.BankKeeper.GetBalance(w.Ctx(), w.Addrs[f.S], world.Denom).Amount,
			w.App.BankKeeper.GetBalance(w.Ctx(), authtypes.NewModuleAddress(authtypes.FeeCollectorName), world.Denom).Amount}
		restoreA()
		// ---- C: native replay
		restoreC := w.Branch()
		r.applyPre(sc.pre)
		_, _, native, _ = r.build(sc)
		okC, errC := native()
		c := map[string]map[string]string{}
		for _, s := range cmpStores {
			c[s] = engine.DumpStore(w.App.BaseApp.VerifDeliverCtx(), w, s)
		}
		restoreC()
		res.Transitions += 2
		res.Evaluations++
		res.States[p[0]] = 0

		caller := map[string]string{"direct": "eoa", "one": "contract", "two": "contract"}[sc.topo]
		wd := "self"
		if sc.pre == "wd-other" {
			wd = "other"
		}
		rewards := "pending"
		if sc.pre == "no-rewards" {
			rewards = "none"
		}
		if sc.pre == "contract-rewards" {
			rewards = "pending-on-caller"
		}
		if sc.pre == "contract-stake" {
			rewards = "none-caller-staked"
		}
		sig := func(effect string) string {
			// the journal-dirty set and the nesting depth are in the detail, not in the signature: they
			// select WHICH stale cached balance gets written back, not a different defect
			out := fmt.Sprintf("C02|method=%s|caller=%s|named=%s|wd=%s|rewards=%s|effect=%s", sc.method, caller, sc.named, wd, rewards, effect)
			if sc.post != "" {
				out += "|post=" + sc.post
			}
			return out
		}
		if resp.Code != 0 {
			res.Outcomes["tx-failed"]++
		}
		if okA {
			res.Outcomes["precompile-ok:"+sc.method]++
			res.Nontrivial[p[0]] = true
		} else {
			res.Outcomes["precompile-failed:"+sc.method]++
		}
		detail := map[string]any{"tx_code": resp.Code, "log": short(resp.Log), "precompile_ok": okA, "native_ok": okC, "native_err": fmt.Sprint(errC),
			"supply_delta": supplyPost.Sub(supplyPre).String()}
		if !supplyPost.Equal(supplyPre) {
			eff := "mint"
			if supplyPost.LT(supplyPre) {
				eff = "burn"
			}
			res.AddViolation(engine.Violation{Signature: sig(eff), What: "executing an Ethereum transaction changed the total supply of the native coin", Path: p, Detail: detail})
			continue
		}
		if resp.Code != 0 {
			continue // whole tx failed with unchanged supply: nothing to compare (C05 covers failed txs)
		}
		if okA != okC {
			res.AddViolation(engine.Violation{Signature: sig("verdict"), What: "the precompile call and its native replay do not succeed / fail alike", Path: p, Detail: detail})
			continue
		}
		for _, s := range cmpStores {
			if d := engine.DiffStores(c[s], a[s]); len(d) > 0 {
				if len(d) > 6 {
					d = d[:6]
				}
				detail["native->evm:"+s] = d
			}
		}
		if len(detail) > 6 && !okA {
			res.AddViolation(engine.Violation{Signature: sig("failed-call-leaves-state"), What: "a precompile call that failed (like its native counterpart) nevertheless left module state modified", Path: p, Detail: detail})
		} else if len(detail) > 6 {
			res.AddViolation(engine.Violation{Signature: sig("misdirect"), What: "balances / stake after the transaction differ from the native replay of the same transfers and message", Path: p, Detail: detail})
		}
		if len(detail) > 6 {
			continue
		}
		// ---- P: the same transaction with a non-zero gas price: supply still unchanged, and the bank
		// store equals run A's except that the signer paid exactly gasUsed x price to the fee collector
		restoreP := w.Branch()
		r.applyPre(sc.pre)
		rootP, leafP, _, _ := r.build(sc)
		ctxP := w.App.BaseApp.VerifDeliverCtx()
		toP, dataP := to, data
		if rootP != nil {
			calltree.Install(w, ctxP, rootP, nil)
			toP, dataP = rootP.Addr(), nil
		} else {
			toP, dataP = leafP.To, leafP.Data
		}
		// (alternately a legacy tx at 1 gwei and a dynamic-fee tx with tip 1 gwei under a cap of 3 gwei:
		// the base fee is 0 here, so the effective price is 1 gwei in both)
		price := big.NewInt(1000000000)
		specP := world.EthSpec{Nonce: nonce, Gas: 10000000, To: &toP, Value: big.NewInt(sc.v0), GasPrice: price, Data: dataP}
		if i%2 == 1 {
			specP.Type, specP.Tip, specP.Cap = 2, price, big.NewInt(3000000000)
		}
		bzP, err := world.WrapEth(w.SignEth(w.Keys[f.S], specP))
		if err != nil {
			panic(err)
		}
		respP := w.Deliver(bzP)
		okP := respP.Code == 0
		if rootP != nil {
			lastP := len(rootP.Items) - 1
			if sc.post != "" {
				lastP--
			}
			holderP, idxP := rootP, lastP
			if sc.topo == "two" {
				holderP, idxP = rootP.Items[lastP].Child, 0
			}
			okP = okP && w.Slot(w.Ctx(), holderP.Addr(), uint64(calltree.SlotFlag+idxP)).Sign() != 0
		} else if tr, err := decode(respP.Data); err == nil && tr {
			okP = false
		}
		supplyP := w.App.BankKeeper.GetSupply(w.Ctx(), world.Denom).Amount
		pb := engine.DumpStore(w.App.BaseApp.VerifDeliverCtx(), w, "bank")
		balP := func(a sdk.AccAddress) sdkmath.Int { return w.App.BankKeeper.GetBalance(w.Ctx(), a, world.Denom).Amount }
		feeColl := authtypes.NewModuleAddress(authtypes.FeeCollectorName)
		sP, fP := balP(w.Addrs[f.S]), balP(feeColl)
		restoreP()
		res.Transitions++
		res.Evaluations++
		fee := sdkmath.NewIntFromBigInt(new(big.Int).Mul(price, big.NewInt(respP.GasUsed)))
		dP := map[string]any{"tx_code": respP.Code, "log": short(respP.Log), "gas_used": respP.GasUsed, "fee": fee.String()}
		switch {
		case respP.Code != resp.Code:
			dP["code_at_price_0"] = resp.Code
			res.AddViolation(engine.Violation{Signature: sig("priced-verdict"), What: "the same transaction succeeds / fails differently once it has a gas price", Path: p, Detail: dP})
		case !supplyP.Equal(supplyPre):
			dP["supply_delta"] = supplyP.Sub(supplyPre).String()
			res.AddViolation(engine.Violation{Signature: sig("priced-supply"), What: "executing an Ethereum transaction with a gas price changed the total supply of the native coin", Path: p, Detail: dP})
		case okP != okA:
			// the fee leaves less to spend: amounts derived from the whole balance legitimately stop
			// succeeding; for any other amount the verdict must not depend on the price
			if strings.Contains(sc.String(), ",all") {
				res.Counters["priced_runs_verdict_differs_for_whole-balance_amounts"]++
			} else {
				dP["precompile_ok_at_price_0"] = okA
				res.AddViolation(engine.Violation{Signature: sig("priced-verdict"), What: "the precompile call succeeds / fails differently once the transaction has a gas price", Path: p, Detail: dP})
			}
		default:
			// expected bank store: run A's with the fee moved from the signer to the fee collector
			want := map[string]string{}
			for k, v := range a["bank"] {
				want[k] = v
			}
			diff := engine.DiffStores(want, pb)
			// the only keys allowed to differ are the two balances; check them by value
			var other []string
			sKey, fKey := hex.EncodeToString(w.Addrs[f.S]), hex.EncodeToString(feeColl)
			for _, dl := range diff {
				if !strings.Contains(dl, sKey) && !strings.Contains(dl, fKey) {
					other = append(other, dl)
				}
			}
			if len(other) > 0 {
				if len(other) > 4 {
					other = other[:4]
				}
				dP["bank_diff"] = other
				res.AddViolation(engine.Violation{Signature: sig("priced-misdirect"), What: "with a gas price, balances other than the signer's and the fee collector's differ from the run at price 0", Path: p, Detail: dP})
			}
			sA, fA := balA[0], balA[1]
			if !sA.Sub(sP).Equal(fee) || !fP.Sub(fA).Equal(fee) {
				dP["signer_paid"] = sA.Sub(sP).String()
				dP["collector_got"] = fP.Sub(fA).String()
				res.AddViolation(engine.Violation{Signature: sig("priced-fee"), What: "the signer did not pay exactly gasUsed x price to the fee collector on top of the effects at price 0", Path: p, Detail: dP})
			}
			res.Counters["priced_runs_compared"]++
		}
	}
	return res
}

// envelopes: one Cosmos transaction carrying several Ethereum messages of the signer - a direct
// precompile call and plain value transfers before / after it.  Supply must not change and the bank,
// staking and distribution stores must equal the native replay (the message, then the transfers).
// Only combinations free of the known findings in the direct topology are used.
func envelopes(r *runner, res *engine.Result, shard, n int) {
	w, f := r.f.W, r.f
	type env struct {
		method, amt, pre string
	}
	envs := []env{{"distribution.claimRewards", "-", "base"}, {"distribution.withdrawDelegatorRewards", "-", "base"}, {"distribution.claimRewards", "-", "wd-other"},
		{"staking.undelegate", "mid", "base"}, {"staking.delegate", "mid", "no-rewards"}, {"staking.redelegate", "mid", "no-rewards"}, {"distribution.setWithdrawAddress", "-", "base"}}
	shapes := []string{"call,transfer", "transfer,call", "transfer,call,transfer", "call,call"}
	idx := 0
	for _, e := range envs {
		for _, shape := range shapes {
			idx++
			if idx%n != shard {
				continue
			}
			sc := scenario{topo: "direct", method: e.method, named: "signer", amt: e.amt, pre: e.pre, dirty: "none"}
			p := []string{fmt.Sprintf("envelope[%s] %s(signer,%s) pre=%s", shape, e.method, e.amt, e.pre)}
			parts := strings.Split(shape, ",")
			tEth := w.Eth[f.T]
			run := func(native bool) (map[string]map[string]string, sdkmath.Int, sdkmath.Int, uint32) {
				restore := w.Branch()
				defer restore()
				r.applyPre(sc.pre)
				_, leaf, nat, _ := r.build(sc)
				ctx := w.App.BaseApp.VerifDeliverCtx()
				pre := w.App.BankKeeper.GetSupply(ctx, world.Denom).Amount
				var code uint32
				if native {
					for _, part := range parts {
						if part == "call" {
							_, _ = nat()
						} else if err := w.App.BankKeeper.SendCoins(w.Ctx(), w.Addrs[f.S], w.Addrs[f.T], sdk.NewCoins(sdk.NewInt64Coin(world.Denom, 5))); err != nil {
							panic(err)
						}
					}
				} else {
					nonce := w.App.AccountKeeper.GetAccount(ctx, w.Addrs[f.S]).GetSequence()
					var txs []*ethtypes.Transaction
					for k, part := range parts {
						spec := world.EthSpec{Nonce: nonce + uint64(k), Gas: 3000000, GasPrice: big.NewInt(0)}
						if part == "call" {
							to := leaf.To
							spec.To, spec.Data = &to, leaf.Data
						} else {
							spec.To, spec.Value = &tEth, big.NewInt(5)
						}
						txs = append(txs, w.SignEth(w.Keys[f.S], spec))
					}
					bz, err := world.WrapEth(txs...)
					if err != nil {
						panic(err)
					}
					code = w.Deliver(bz).Code
				}
				out := map[string]map[string]string{}
				for _, st := range []string{"bank", "staking", "distribution"} {
					out[st] = engine.DumpStore(w.App.BaseApp.VerifDeliverCtx(), w, st)
				}
				return out, pre, w.App.BankKeeper.GetSupply(w.Ctx(), world.Denom).Amount, code
			}
			a, supplyPre, supplyPost, code := run(false)
			c, _, _, _ := run(true)
			res.Transitions += 2
			res.Evaluations++
			res.States[p[0]] = 0
			sig := func(effect string) string {
				return fmt.Sprintf("C02|method=%s|envelope=%s|pre=%s|effect=%s", e.method, strings.ReplaceAll(shape, ",", "+"), e.pre, effect)
			}
			detail := map[string]any{"tx_code": code, "supply_delta": supplyPost.Sub(supplyPre).String()}
			if code != 0 {
				res.Outcomes["envelope:tx-failed"]++
				if !supplyPost.Equal(supplyPre) {
					res.AddViolation(engine.Violation{Signature: sig("supply"), What: "a failed multi-message Ethereum transaction changed the total supply", Path: p, Detail: detail})
				}
				continue
			}
			res.Outcomes["envelope:ok"]++
			res.Nontrivial[p[0]] = true
			if !supplyPost.Equal(supplyPre) {
				eff := "mint"
				if supplyPost.LT(supplyPre) {
					eff = "burn"
				}
				res.AddViolation(engine.Violation{Signature: sig(eff), What: "a multi-message Ethereum transaction changed the total supply of the native coin", Path: p, Detail: detail})
				continue
			}
			for _, st := range []string{"bank", "staking", "distribution"} {
				if d := engine.DiffStores(c[st], a[st]); len(d) > 0 {
					if len(d) > 6 {
						d = d[:6]
					}
					detail["native->evm:"+st] = d
				}
			}
			if len(detail) > 2 {
				res.AddViolation(engine.Violation{Signature: sig("misdirect"), What: "balances / stake after a multi-message Ethereum transaction differ from the native replay of its message and transfers", Path: p, Detail: detail})
			}
		}
	}
}

func decode(data []byte) (failed bool, err error) {
	tr, err := evmtypes.DecodeTxResponse(data)
	if err != nil {
		return false, err
	}
	return tr.Failed(), nil
}

func short(s string) string {
	if len(s) > 200 {
		return s[:200]
	}
	return s
}

func Run(tier string) int {
	start := time.Now()
	res := engine.RunSharded(Prop, tier, 16, Worker)
	res.TracesImpl = res.Transitions
	res.Sample(map[string]any{"scenario": "topo=two v0=1000 v1=400 staking.delegate(caller,all) pre=wd-other dirty=signer"})
	return engine.Finish(res, engine.Meta{
		Property: Prop, Tier: tier, Level: "model_checking", Start: start,
		Rule: "envelope family (several Ethereum messages of the signer in one transaction: precompile call and transfers, 7 calls x 4 shapes vs native replay); full grid: topology {EOA->precompile, EOA->contract->precompile, EOA->contract->contract->precompile} x value per hop {0, v} x {delegate(signer|calling contract; 1, mid, all, all+1), undelegate, redelegate, cancelUnbondingDelegation, ics20.transfer, withdrawDelegatorRewards, claimRewards, setWithdrawAddress} x pre-state {pending rewards, withdraw address elsewhere, no rewards} x journal-dirty set {none, signer, withdrawer}; every scenario synthesised as bytecode and delivered through DeliverTx, and replayed natively on a sibling branch; plus C05's self-destruct family (supply oracle); every clean scenario re-run with a gas price (same verdict, supply unchanged, bank store identical but for exactly gasUsed x price moved from the signer to the fee collector); non-trivial = scenario whose precompile call succeeded",
		Assumptions: []string{
			"gas price 0 (fee flow is checked by C07)",
			"contract callers hold generic staking grants from the signer (fixture)",
			"ICS-20 transfers run over transfer channel ends written on ibc-go's sentinel localhost connection; the bank precompile is read-only (covered in C05's trees)",
			strings.TrimSpace("reverted frames are covered by C05; here every frame ends normally"),
		},
	})
}

// controls: plain value chains and self-destructs (no precompile involved).
func controls(f *c05.Fixture, res *engine.Result, shard int) {
	if shard != 0 {
		return
	}
	w := f.W
	S := w.Addrs[f.S]
	tAddr := w.Eth[f.T]
	rAddr, xAddr := world.ContractAddr(0x30), world.ContractAddr(0x31)
	type ctl struct {
		name       string
		rCode      []byte
		xCode      []byte
		v0         int64
		wantSupply int64            // expected supply delta
		wantBal    map[string]int64 // expected balance deltas: S, R, X, T
	}
	fwd := func(to common.Address, v int64) []byte {
		return evmasm.New().Call(evmasm.CALL, 0, to, big.NewInt(v), 0, 0, 0, 0).Op(evmasm.POP).Stop().Bytes()
	}
	sd := func(to common.Address) []byte { return evmasm.New().PushAddr(to).Op(evmasm.SELFDESTRUCT).Bytes() }
	cs := []ctl{
		{"chain S->R(1000)->X(400)->T(100)", fwd(xAddr, 400), fwd(tAddr, 100), 1000, 0, map[string]int64{"S": -1000, "R": 600, "X": 300, "T": 100}},
		{"chain with failing hop S->R(1000)->X(400, X reverts)", fwd(xAddr, 400), evmasm.New().Revert().Bytes(), 1000, 0, map[string]int64{"S": -1000, "R": 1000, "X": 0, "T": 0}},
		{"selfdestruct to a third account", sd(tAddr), nil, 1000, 0, map[string]int64{"S": -1000, "R": 0, "X": 0, "T": 1000}},
		{"selfdestruct to self (the sanctioned burn)", sd(rAddr), nil, 1000, -1000, map[string]int64{"S": -1000, "R": 0, "X": 0, "T": 0}},
		{"value returned to the signer", fwd(w.Eth[f.S], 250), nil, 1000, 0, map[string]int64{"S": -750, "R": 750, "X": 0, "T": 0}},
	}
	for _, c := range cs {
		restore := w.Branch()
		ctx := w.App.BaseApp.VerifDeliverCtx()
		w.InstallContract(ctx, rAddr, c.rCode, nil)
		if c.xCode != nil {
			w.InstallContract(ctx, xAddr, c.xCode, nil)
		}
		accs := map[string]sdk.AccAddress{"S": S, "R": sdk.AccAddress(rAddr.Bytes()), "X": sdk.AccAddress(xAddr.Bytes()), "T": w.Addrs[f.T]}
		pre := map[string]sdkmath.Int{}
		for k, a := range accs {
			pre[k] = w.App.BankKeeper.GetBalance(ctx, a, world.Denom).Amount
		}
		preSupply := w.App.BankKeeper.GetSupply(ctx, world.Denom).Amount
		nonce := w.App.AccountKeeper.GetAccount(ctx, S).GetSequence()
		bz, _ := world.WrapEth(w.SignEth(w.Keys[f.S], world.EthSpec{Nonce: nonce, Gas: 3000000, To: &rAddr, Value: big.NewInt(c.v0), GasPrice: big.NewInt(0)}))
		r := w.Deliver(bz)
		ctx = w.Ctx()
		res.Transitions++
		res.Evaluations++
		res.States["control|"+c.name] = 0
		res.Nontrivial["control|"+c.name] = true
		res.Outcomes["control"]++
		bad := map[string]any{}
		if d := w.App.BankKeeper.GetSupply(ctx, world.Denom).Amount.Sub(preSupply); !d.Equal(sdkmath.NewInt(c.wantSupply)) {
			bad["supply_delta"] = d.String()
		}
		for k, a := range accs {
			if d := w.App.BankKeeper.GetBalance(ctx, a, world.Denom).Amount.Sub(pre[k]); !d.Equal(sdkmath.NewInt(c.wantBal[k])) {
				bad["delta_"+k] = d.String()
			}
		}
		restore()
		if len(bad) > 0 || r.Code != 0 {
			bad["code"] = r.Code
			eff := "misdirect"
			if _, ok := bad["supply_delta"]; ok {
				eff = "supply"
			}
			res.AddViolation(engine.Violation{Signature: "C02|method=none|control|effect=" + eff, What: "a plain value-transfer / self-destruct scenario does not conserve balances as the yellow paper says", Path: []string{c.name}, Detail: bad})
		}
	}
}
