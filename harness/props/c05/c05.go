// Package c05: a reverted EVM call frame leaves no trace, precompiles included.
//
// Every call tree of a bounded family (frames x endings x caught/bubbled x value x one precompile
// leaf at every position) is synthesised as bytecode and run twice through the real DeliverTx on
// branches of the same state: A = the program as is; B = the same code with the skip switch set
// on exactly the frames that fail in A, i.e. the execution in which those frames did nothing.
// Reverts leave no trace iff all persistent state of A equals B (and equals the pre-state, but
// for the nonce, when the top frame fails).
package c05

import (
	"fmt"
	"math/big"
	"sort"
	"strings"
	"time"

	sdkmath "cosmossdk.io/math"
	sdk "github.com/cosmos/cosmos-sdk/types"
	"github.com/cosmos/cosmos-sdk/x/authz"
	sdkvesting "github.com/cosmos/cosmos-sdk/x/auth/vesting/types"
	stakingtypes "github.com/cosmos/cosmos-sdk/x/staking/types"
	transfertypes "github.com/cosmos/ibc-go/v7/modules/apps/transfer/types"
	"github.com/ethereum/go-ethereum/common"
	"github.com/ethereum/go-ethereum/crypto"

	coinomicstypes "github.com/haqq-network/haqq/x/coinomics/types"
	evmtypes "github.com/haqq-network/haqq/x/evm/types"
	vtypes "github.com/haqq-network/haqq/x/vesting/types"

	"verif/harness/calltree"
	"verif/harness/engine"
	"verif/harness/evmasm"
	"verif/harness/precomp"
	"verif/harness/world"
)

const Prop = "C05"

type Fixture struct {
	W        *world.World
	ABIs     precomp.ABIs
	S, Wd, T int
	All      []string
}

func e17(n int64) sdkmath.Int { return sdkmath.NewInt(n).Mul(sdkmath.NewInt(100000000000000000)) }

// NewFixture: signer S with a delegation to V1 and pending rewards; the three frame contracts
// hold generic staking grants from S (so delegations on S's behalf from a contract succeed).
func NewFixture() *Fixture { return NewFixtureOpts(true) }

// NewFixtureOpts: withGrants=false leaves the authz store empty (C04 builds its own grants); the
// third account T then also holds a delegation with pending rewards.
func NewFixtureOpts(withGrants bool) *Fixture {
	cp := coinomicstypes.DefaultParams()
	w := world.New(world.Options{NumAccounts: 5, NumVals: 2, Coinomics: &cp, Balance: e17(100), ExtraCoins: sdk.NewCoins(sdk.NewInt64Coin("atest", 1000000000))})
	f := &Fixture{W: w, S: 1, Wd: 2, T: 3}
	f.ABIs = precomp.Load(w)
	ctx := w.Ctx()
	w.App.CoinomicsKeeper.SetMaxSupply(ctx, sdk.NewCoin(world.Denom, e17(1000000000)))
	if _, err := w.RunMsg(ctx, stakingtypes.NewMsgDelegate(w.Addrs[f.S], w.ValAddr[0], sdk.NewCoin(world.Denom, e17(10)))); err != nil {
		panic(err)
	}
	exp := w.Header.Time.Add(1000 * time.Hour)
	if !withGrants {
		if _, err := w.RunMsg(ctx, stakingtypes.NewMsgDelegate(w.Addrs[f.T], w.ValAddr[0], sdk.NewCoin(world.Denom, e17(10)))); err != nil {
			panic(err)
		}
	}
	for id := 0; id < 3 && withGrants; id++ {
		grantee := sdk.AccAddress(world.ContractAddr(byte(0x10 + id)).Bytes())
		for _, t := range []stakingtypes.AuthorizationType{stakingtypes.AuthorizationType_AUTHORIZATION_TYPE_DELEGATE, stakingtypes.AuthorizationType_AUTHORIZATION_TYPE_UNDELEGATE,
			stakingtypes.AuthorizationType_AUTHORIZATION_TYPE_REDELEGATE, stakingtypes.AuthorizationType_AUTHORIZATION_TYPE_CANCEL_UNBONDING_DELEGATION} {
			a, err := stakingtypes.NewStakeAuthorization([]sdk.ValAddress{w.ValAddr[0], w.ValAddr[1]}, nil, t, nil)
			if err != nil {
				panic(err)
			}
			if err := w.App.AuthzKeeper.SaveGrant(ctx, grantee, w.Addrs[f.S], a, &exp); err != nil {
				panic(err)
			}
		}
	}
	_ = authz.ModuleName
	if err := w.OpenLocalhostChannels(w.Ctx()); err != nil {
		panic(err)
	}
	for id := 0; id < 3 && withGrants; id++ {
		grantee := sdk.AccAddress(world.ContractAddr(byte(0x10 + id)).Bytes())
		ta := &transfertypes.TransferAuthorization{Allocations: []transfertypes.Allocation{{SourcePort: world.IBCPort, SourceChannel: world.IBCChannelA,
			SpendLimit: sdk.NewCoins(sdk.NewCoin(world.Denom, e17(100000000000)))}}}
		if err := w.App.AuthzKeeper.SaveGrant(w.Ctx(), grantee, w.Addrs[f.S], ta, &exp); err != nil {
			panic(err)
		}
	}
	w.NextBlock(6 * time.Second)
	w.NextBlock(6 * time.Second)
	f.All = engine.AllStores(w)
	return f
}

// Leaves returns the precompile leaves of the family (nil = no leaf).
func (f *Fixture) Leaves(frameAddr common.Address) []*calltree.Leaf {
	w := f.W
	s := w.Eth[f.S]
	v1 := w.ValAddr[0].String()
	st, di, bk := f.ABIs.Staking, f.ABIs.Distr, f.ABIs.Bank
	return []*calltree.Leaf{
		{Name: "staking.delegate(signer)", To: precomp.StakingAddr, Data: precomp.MustPack(st, "delegate", s, v1, big.NewInt(1000))},
		{Name: "staking.delegate(self)", To: precomp.StakingAddr, Data: precomp.MustPack(st, "delegate", frameAddr, v1, big.NewInt(3))},
		{Name: "staking.undelegate(signer)", To: precomp.StakingAddr, Data: precomp.MustPack(st, "undelegate", s, v1, big.NewInt(1000))},
		{Name: "distribution.setWithdrawAddress(signer)", To: precomp.DistrAddr, Data: precomp.MustPack(di, "setWithdrawAddress", s, w.Addrs[f.Wd].String())},
		{Name: "distribution.withdrawDelegatorRewards(signer)", To: precomp.DistrAddr, Data: precomp.MustPack(di, "withdrawDelegatorRewards", s, v1)},
		{Name: "staking.approve(third)", To: precomp.StakingAddr, Data: precomp.MustPack(st, "approve", w.Eth[f.T], big.NewInt(5), []string{"/cosmos.staking.v1beta1.MsgDelegate"})},
		{Name: "ics20.transfer(signer)", To: precomp.ICS20Addr, Data: precomp.MustPack(f.ABIs.ICS20, "transfer", world.IBCPort, world.IBCChannelA, world.Denom, big.NewInt(100), s,
			w.Addrs[f.Wd].String(), struct {
				RevisionNumber uint64
				RevisionHeight uint64
			}{3, 100000}, uint64(0), "")},
		{Name: "bank.totalSupply", To: precomp.BankAddr, Data: precomp.MustPack(bk, "totalSupply")},
		{Name: "bank.totalSupply", To: precomp.BankAddr, Data: precomp.MustPack(bk, "totalSupply"), Static: true},
		{Name: "staking.validator", To: precomp.StakingAddr, Data: precomp.MustPack(st, "validator", v1), Static: true},
	}
}

// leafFamily names the call site a finding is attached to: which precompile is entered (each
// has its own Run / stateDB.Commit), whether the method changes state, and the call opcode.
func leafFamily(l *calltree.Leaf) string {
	if l == nil {
		return "none"
	}
	n := l.Name
	if i := strings.IndexByte(n, '('); i > 0 {
		n = n[:i]
	}
	pc := n[:strings.IndexByte(n, '.')]
	kind := "tx"
	if strings.HasPrefix(n, "bank.") || n == "staking.validator" {
		kind = "query"
	}
	mode := "call"
	if l.Static {
		mode = "staticcall"
	}
	return pc + "." + kind + ":" + mode
}

type Scenario struct {
	Root    *calltree.Frame
	Leaf    *calltree.Leaf
	LeafIn  int // frame id holding the leaf (-1 none)
	TxValue int64
}

// Trees enumerates the family.
func (f *Fixture) Trees(tier string) []Scenario {
	var out []Scenario
	ends := []string{"stop", "revert", "invalid"}
	type place struct {
		in     int // 0 root, 1 child
		before bool
	}
	for _, rEnd := range ends {
		// root only
		mkRoot := func() *calltree.Frame { return &calltree.Frame{ID: 0, Pre: true, Post: true, Log: true, End: rEnd} }
		out = append(out, Scenario{Root: mkRoot(), LeafIn: -1, TxValue: 20})
		for _, l := range f.Leaves(world.ContractAddr(0x10)) {
			r := mkRoot()
			r.Items = []calltree.Item{{Leaf: l}}
			out = append(out, Scenario{Root: r, Leaf: l, LeafIn: 0, TxValue: 20})
		}
		// root + child
		for _, xEnd := range ends {
			for _, bubble := range []bool{false, true} {
				for _, val := range []int64{0, 5} {
					mk := func() (*calltree.Frame, *calltree.Frame) {
						x := &calltree.Frame{ID: 1, Pre: true, Post: true, Log: true, End: xEnd}
						r := mkRoot()
						r.Items = []calltree.Item{{Child: x, Bubble: bubble, Value: val}}
						return r, x
					}
					r, _ := mk()
					out = append(out, Scenario{Root: r, LeafIn: -1, TxValue: 20})
					for _, pl := range []place{{0, true}, {0, false}, {1, false}} {
						addr := world.ContractAddr(byte(0x10 + pl.in))
						for _, l := range f.Leaves(addr) {
							r, x := mk()
							switch {
							case pl.in == 1:
								x.Items = []calltree.Item{{Leaf: l}}
							case pl.before:
								r.Items = append([]calltree.Item{{Leaf: l}}, r.Items...)
							default:
								r.Items = append(r.Items, calltree.Item{Leaf: l})
							}
							out = append(out, Scenario{Root: r, Leaf: l, LeafIn: pl.in, TxValue: 20})
						}
					}
					if tier == "thorough" {
						// third level: X calls Y, leaf in Y
						for _, yEnd := range ends {
							for _, yb := range []bool{false, true} {
								for _, l := range append([]*calltree.Leaf{nil}, f.Leaves(world.ContractAddr(0x12))...) {
									r, x := mk()
									y := &calltree.Frame{ID: 2, Pre: true, Post: true, End: yEnd}
									if l != nil {
										y.Items = []calltree.Item{{Leaf: l}}
									}
									x.Items = []calltree.Item{{Child: y, Bubble: yb, Value: val / 2}}
									li := -1
									if l != nil {
										li = 2
									}
									out = append(out, Scenario{Root: r, Leaf: l, LeafIn: li, TxValue: 20})
								}
							}
						}
					}
				}
			}
		}
	}
	return out
}

type RunState struct {
	Code    uint32
	VMError string
	Logs    int
	LogList []string // index|address|first topic of every log in the receipt
	Stores  map[string]map[string]string
	Supply  sdkmath.Int
}

// Exec installs the tree (with the given skip set) on a fresh branch, delivers the signer's
// transaction to the root frame and returns the resulting state.
func (f *Fixture) Exec(sc Scenario, skip map[int]bool) RunState {
	w := f.W
	restore := w.Branch()
	defer restore()
	ctx := w.App.BaseApp.VerifDeliverCtx()
	calltree.Install(w, ctx, sc.Root, skip)
	to := sc.Root.Addr()
	nonce := w.App.AccountKeeper.GetAccount(ctx, w.Addrs[f.S]).GetSequence()
	bz, err := world.WrapEth(w.SignEth(w.Keys[f.S], world.EthSpec{Nonce: nonce, Gas: 10000000, To: &to, Value: big.NewInt(sc.TxValue), GasPrice: big.NewInt(0)}))
	if err != nil {
		panic(err)
	}
	r := w.Deliver(bz)
	out := RunState{Code: r.Code, Stores: map[string]map[string]string{}}
	if tr, err := evmtypes.DecodeTxResponse(r.Data); err == nil {
		out.VMError = tr.VmError
		out.Logs = len(tr.Logs)
		for _, l := range tr.Logs {
			t0 := ""
			if len(l.Topics) > 0 {
				t0 = l.Topics[0]
			}
			out.LogList = append(out.LogList, fmt.Sprintf("%d|%s|%s", l.Index, l.Address, t0))
		}
	}
	ctx = w.App.BaseApp.VerifDeliverCtx()
	for _, s := range f.All {
		out.Stores[s] = engine.DumpStore(ctx, w, s)
	}
	out.Supply = w.App.BankKeeper.GetSupply(ctx, world.Denom).Amount
	return out
}

// Pre returns the state with the tree installed but no transaction delivered.
func (f *Fixture) Pre(sc Scenario) RunState {
	w := f.W
	restore := w.Branch()
	defer restore()
	ctx := w.App.BaseApp.VerifDeliverCtx()
	calltree.Install(w, ctx, sc.Root, nil)
	out := RunState{Stores: map[string]map[string]string{}}
	for _, s := range f.All {
		out.Stores[s] = engine.DumpStore(ctx, w, s)
	}
	out.Supply = w.App.BankKeeper.GetSupply(ctx, world.Denom).Amount
	return out
}

func skipKey(addr common.Address) string {
	return fmt.Sprintf("%x", append(evmtypes.AddressStoragePrefix(addr), common.BigToHash(big.NewInt(calltree.SlotSkip)).Bytes()...))
}

// DiffRuns compares two runs store by store, ignoring the skip switches and the signer's nonce.
func (f *Fixture) DiffRuns(a, b RunState, sc Scenario, ignoreSeqOf sdk.AccAddress) map[string][]string {
	out := map[string][]string{}
	skipKeys := map[string]bool{}
	for _, fr := range sc.Root.Frames() {
		skipKeys[skipKey(fr.Addr())] = true
	}
	for _, s := range f.All {
		var keep []string
		for _, l := range engine.DiffStores(b.Stores[s], a.Stores[s]) {
			k := l[:strings.Index(l, ":")]
			if s == "evm" && skipKeys[k] {
				continue
			}
			keep = append(keep, l)
		}
		if len(keep) > 0 {
			out[s] = keep
		}
	}
	return out
}

// leakKinds collapses the differing stores into: evm (contract storage, balances, account
// records written by the EVM side) and cosmos (module state written by a precompile).
func leakKinds(d map[string][]string) []string {
	set := map[string]bool{}
	for s := range d {
		switch s {
		case "evm", "bank", "acc":
			set["evm"] = true
		default:
			set["cosmos"] = true
		}
	}
	var out []string
	for k := range set {
		out = append(out, k)
	}
	sort.Strings(out)
	return out
}

// revertPos: where the failure is relative to the frame holding the leaf.
func revertPos(sc Scenario, failed []*calltree.Frame) string {
	if len(failed) == 0 {
		return "none"
	}
	if sc.LeafIn < 0 {
		return "noleaf"
	}
	for _, ff := range failed {
		for _, sub := range ff.Frames() {
			if sub.ID == sc.LeafIn {
				if ff.ID == sc.LeafIn {
					return "same-frame"
				}
				return "ancestor"
			}
		}
	}
	return "elsewhere"
}

func Worker(shard, n int, tier string) *engine.Result {
	res := engine.NewResult(Prop)
	f := NewFixture()
	scs := f.Trees(tier)
	res.Extra["trees"] = len(scs)
	for i, sc := range scs {
		if i%n != shard {
			continue
		}
		failed := sc.Root.FailedFrames(nil)
		skip := map[int]bool{}
		for _, ff := range failed {
			skip[ff.ID] = true
		}
		a := f.Exec(sc, nil)
		b := f.Exec(sc, skip)
		res.Transitions += 2
		res.Evaluations++
		p := []string{sc.Root.String()}
		res.States[p[0]] = 0
		pos := revertPos(sc, failed)
		fam := leafFamily(sc.Leaf)
		res.Outcomes["pos:"+pos]++
		if len(failed) > 0 {
			res.Nontrivial[p[0]] = true
		}
		d := f.DiffRuns(a, b, sc, nil)
		viol := func(leak, what string, detail map[string]any) {
			res.AddViolation(engine.Violation{Signature: fmt.Sprintf("C05|leaf=%s|revertpos=%s|leak=%s", fam, pos, leak), What: what, Path: p, Detail: detail})
		}
		if len(d) > 0 {
			detail := map[string]any{"failed_frames": fmt.Sprint(skip), "vm_error": a.VMError}
			for s, l := range d {
				if len(l) > 4 {
					l = l[:4]
				}
				detail["diff:"+s] = l
			}
			viol(strings.Join(leakKinds(d), "+"), "state after the transaction differs from the execution in which the reverted frames did nothing", detail)
		}
		if a.Logs != b.Logs {
			viol("logs", "logs emitted inside a reverted frame survive in the receipt", map[string]any{"logs": a.Logs, "want": b.Logs})
		} else if fmt.Sprint(a.LogList) != fmt.Sprint(b.LogList) {
			viol("logs", "the receipt's logs (index, address, topic) differ from those of the execution without the reverted frames", map[string]any{"logs": a.LogList, "want": b.LogList})
		}
		if !a.Supply.Equal(b.Supply) {
			viol("supply", "total supply differs from the execution in which the reverted frames did nothing", map[string]any{"got": a.Supply.String(), "want": b.Supply.String()})
		}
		// whole-transaction failure: nothing but the nonce may change
		if sc.Root.Fails(nil) {
			pre := f.Pre(sc)
			dd := f.DiffRuns(a, pre, sc, nil)
			// the signer's account record may differ in its sequence only
			if acc := dd["acc"]; len(acc) == 1 && strings.Contains(acc[0], fmt.Sprintf("01%x", f.W.Addrs[f.S].Bytes())) {
				delete(dd, "acc")
			}
			if len(dd) > 0 {
				detail := map[string]any{}
				for s, l := range dd {
					if len(l) > 4 {
						l = l[:4]
					}
					detail["diff:"+s] = l
				}
				res.AddViolation(engine.Violation{Signature: fmt.Sprintf("C05|leaf=%s|revertpos=whole-tx|leak=%s", fam, strings.Join(leakKinds(dd), "+")),
					What: "a transaction whose top frame failed changed more than the nonce", Path: p, Detail: detail})
			}
			res.Outcomes["whole-tx-failed"]++
		}
	}
	revisitWorker(f, res, tier, shard, n)
	FailingLeafWorker(f, res, shard, n)
	SdWorker(f, res, tier, shard, n)
	CreateWorker(f, res, tier, shard, n)
	WarmthWorker(f, res, shard, n)
	RefundWorker(f, res, shard, n)
	return res
}

// FailingLeafWorker: the reverted call frame is the precompile call itself.  A contract holding a
// LIMITED grant of the signer calls a state-changing precompile method with arguments the module
// refuses (more than is delegated, no such unbonding entry, more than the balance, no such
// delegation), swallows the failure and stops.  The transaction succeeds; apart from the signer's
// sequence nothing may differ from the state before it - in particular the grant is not used up.
func FailingLeafWorker(f *Fixture, res *engine.Result, shard, n int) {
	w := f.W
	s := w.Eth[f.S]
	S := w.Addrs[f.S]
	v1, v2 := w.ValAddr[0].String(), w.ValAddr[1].String()
	st, di := f.ABIs.Staking, f.ABIs.Distr
	ctx := w.Ctx()
	del, _ := w.App.StakingKeeper.GetDelegation(ctx, S, w.ValAddr[0])
	delegated := del.Shares.TruncateInt()
	over := delegated.AddRaw(1).BigInt()
	bal := w.App.BankKeeper.GetBalance(ctx, S, world.Denom).Amount
	limit := sdk.NewCoin(world.Denom, delegated.MulRaw(3).Add(bal))
	leaves := []*calltree.Leaf{
		{Name: "staking.undelegate(signer,delegated+1)", To: precomp.StakingAddr, Data: precomp.MustPack(st, "undelegate", s, v1, over)},
		{Name: "staking.redelegate(signer,delegated+1)", To: precomp.StakingAddr, Data: precomp.MustPack(st, "redelegate", s, v1, v2, over)},
		{Name: "staking.cancelUnbondingDelegation(signer,no-entry)", To: precomp.StakingAddr, Data: precomp.MustPack(st, "cancelUnbondingDelegation", s, v1, big.NewInt(5), big.NewInt(w.Header.Height))},
		{Name: "distribution.withdrawDelegatorRewards(signer,no-delegation)", To: precomp.DistrAddr, Data: precomp.MustPack(di, "withdrawDelegatorRewards", s, v2)},
		{Name: "ics20.transfer(signer,balance+1)", To: precomp.ICS20Addr, Data: precomp.MustPack(f.ABIs.ICS20, "transfer", world.IBCPort, world.IBCChannelA, world.Denom, bal.AddRaw(1).BigInt(), s,
			w.Addrs[f.Wd].String(), struct {
				RevisionNumber uint64
				RevisionHeight uint64
			}{3, 100000}, uint64(0), "")},
	}
	// the signer as a clawback vesting account (a third party granted it 1 ISLM that vests in 1000 s):
	// a delegation of one base unit more than its free coins is refused by the staking wrapper
	vestedSigner := &calltree.Leaf{Name: "staking.delegate(vesting-signer,free+1)", To: precomp.StakingAddr,
		Data: precomp.MustPack(st, "delegate", s, v1, bal.AddRaw(1).BigInt())}
	leaves = append(leaves, vestedSigner)
	idx := 0
	for _, l := range leaves {
		for _, nested := range []bool{false, true} {
			idx++
			if idx%n != shard {
				continue
			}
			root := &calltree.Frame{ID: 0, End: "stop"}
			holder := root
			if nested {
				holder = &calltree.Frame{ID: 1, End: "stop"}
				root.Items = []calltree.Item{{Child: holder}}
			}
			holder.Items = []calltree.Item{{Leaf: l}}
			sc := Scenario{Root: root, Leaf: l, LeafIn: holder.ID}
			restore := w.Branch()
			if l == vestedSigner {
				g := vtypes.NewMsgConvertIntoVestingAccount(w.Addrs[f.T], S, w.Header.Time, nil,
					sdkvesting.Periods{{Length: 1000, Amount: sdk.NewCoins(sdk.NewCoin(world.Denom, e17(10)))}}, false, false, nil)
				if _, err := w.RunMsg(w.Ctx(), g); err != nil {
					panic(err)
				}
			}
			// limited grants of every staking type and a limited transfer allocation for the caller
			exp := w.Header.Time.Add(1000 * time.Hour)
			grantee := sdk.AccAddress(holder.Addr().Bytes())
			for _, t := range []stakingtypes.AuthorizationType{stakingtypes.AuthorizationType_AUTHORIZATION_TYPE_DELEGATE, stakingtypes.AuthorizationType_AUTHORIZATION_TYPE_UNDELEGATE,
				stakingtypes.AuthorizationType_AUTHORIZATION_TYPE_REDELEGATE, stakingtypes.AuthorizationType_AUTHORIZATION_TYPE_CANCEL_UNBONDING_DELEGATION} {
				a, err := stakingtypes.NewStakeAuthorization([]sdk.ValAddress{w.ValAddr[0], w.ValAddr[1]}, nil, t, &limit)
				if err != nil {
					panic(err)
				}
				if err := w.App.AuthzKeeper.SaveGrant(w.Ctx(), grantee, S, a, &exp); err != nil {
					panic(err)
				}
			}
			ta := &transfertypes.TransferAuthorization{Allocations: []transfertypes.Allocation{{SourcePort: world.IBCPort, SourceChannel: world.IBCChannelA, SpendLimit: sdk.NewCoins(limit)}}}
			if err := w.App.AuthzKeeper.SaveGrant(w.Ctx(), grantee, S, ta, &exp); err != nil {
				panic(err)
			}
			a := f.Exec(sc, nil)
			pre := f.Pre(sc)
			restore()
			res.Transitions++
			res.Evaluations++
			p := []string{"failing-leaf " + root.String()}
			res.States[p[0]] = 0
			flagKey := fmt.Sprintf("%x", append(evmtypes.AddressStoragePrefix(holder.Addr()), common.BigToHash(big.NewInt(calltree.SlotFlag)).Bytes()...))
			if a.Code != 0 || a.Stores["evm"][flagKey] != "" {
				// the call did not fail (or the transaction did): not a member of this family
				// the call was built so that the module must refuse it
				res.Outcomes["failing-leaf:not-failing"]++
				res.AddViolation(engine.Violation{Signature: fmt.Sprintf("C05|leaf=%s|revertpos=failed-call|leak=not-refused", leafFamily(l)),
					What: "a precompile call the module must refuse (more than delegated / no such entry / no such delegation / more than the balance / unvested coins) went through", Path: p,
					Detail: map[string]any{"call": l.Name, "tx_code": a.Code}})
				continue
			}
			res.Outcomes["failing-leaf:failed-and-caught"]++
			res.Nontrivial[p[0]] = true
			dd := f.DiffRuns(a, pre, sc, nil)
			if acc := dd["acc"]; len(acc) == 1 && strings.Contains(acc[0], fmt.Sprintf("01%x", S.Bytes())) {
				delete(dd, "acc")
			}
			if len(dd) > 0 {
				detail := map[string]any{}
				for sn, ls := range dd {
					if len(ls) > 4 {
						ls = ls[:4]
					}
					detail["diff:"+sn] = ls
				}
				res.AddViolation(engine.Violation{Signature: fmt.Sprintf("C05|leaf=%s|revertpos=failed-call|leak=%s", leafFamily(l), strings.Join(leakKinds(dd), "+")),
					What: "a precompile call that failed (and was caught by the calling contract) left state behind", Path: p, Detail: detail})
			}
		}
	}
}

func Run(tier string) int {
	start := time.Now()
	res := engine.RunSharded(Prop, tier, 16, Worker)
	res.TracesImpl = res.Transitions
	res.Sample(map[string]any{"tree": "F0{S L call!$5(F1{S L pc[staking.delegate(signer)] S';revert}) S';stop}"})
	return engine.Finish(res, engine.Meta{
		Property: Prop, Tier: tier, Level: "model_checking", Start: start,
		Rule: "all call trees of the family: root frame x {no child, child with 3 endings x caught/bubbled x value 0/5} (thorough: + grandchild) x frame endings {STOP, REVERT, INVALID} x one precompile leaf (10 kinds incl. ics20.transfer, read-only by CALL and STATICCALL, or none) at every position; each tree is synthesised as bytecode and delivered twice (as is / with the failing frames switched off) through the real DeliverTx; all persistent stores, the ordered log list (index, address, topic) and supply compared; further families: re-entry programs (store, call back in with or without a precompile flush, revert), 584 self-destruct programs, 80 CREATE2 programs against a model, and the warmth differential (gas of BALANCE(callee) after a stopped vs a reverted callee); non-trivial = tree in which at least one frame fails",
		Assumptions: []string{
			"gas price 0; the signer's nonce is the only permitted trace of a failed transaction",
			"the reference execution uses the same bytecode with a storage switch that makes the failing frames revert at entry",
			"ICS-20 leaves run over two transfer channel ends written on ibc-go's sentinel localhost connection",
		},
	})
}

// ---- revisit family ---------------------------------------------------------------------------
//
// A parametric child P (calldata: slot, value, end-flag): SSTORE(slot, value); REVERT if the flag
// is set, else STOP.  The root calls P k times (k <= 3) with every combination of
// (slot in {1,2}, value in {7,9}, outcome, attached value in {0,3}); the expected final storage and
// balances are computed by a trivial model that applies the surviving calls only.  This covers
// what the skip-switch differential cannot: a frame address that is re-entered after one of its
// invocations was reverted.

func paramChildCode() []byte {
	a := evmasm.New()
	// value = byte1, slot = byte0
	a.PushU(1).Op(evmasm.CALLDATALOAD).PushU(248).Op(evmasm.SHR)
	a.PushU(0).Op(evmasm.CALLDATALOAD).PushU(248).Op(evmasm.SHR)
	a.Op(evmasm.SSTORE)
	// byte3: call a stateful precompile (a bank query: it flushes the pending EVM state on entry)
	a.PushU(3).Op(evmasm.CALLDATALOAD).PushU(248).Op(evmasm.SHR).Op(evmasm.ISZERO).PushLabel("nopc").Op(evmasm.JUMPI)
	sel := a.Data([]byte{0x18, 0x16, 0x0d, 0xdd}) // totalSupply()
	n := a.CopyDataToMem(sel, 0)
	a.Call(evmasm.STATICCALL, 0, precomp.BankAddr, nil, 0, uint64(n), 0, 0).Op(evmasm.POP)
	a.Label("nopc")
	a.PushU(2).Op(evmasm.CALLDATALOAD).PushU(248).Op(evmasm.SHR)
	a.PushLabel("rev").Op(evmasm.JUMPI)
	a.Stop()
	a.Label("rev")
	a.Revert()
	return a.Bytes()
}

type pcall struct {
	slot, val byte
	revert    bool
	value     int64
	pc        bool // the invocation calls a stateful precompile after its store
}

func (c pcall) String() string {
	e := "ok"
	if c.revert {
		e = "revert"
	}
	if c.pc {
		e += ",after-precompile"
	}
	return fmt.Sprintf("P(slot%d=%d,$%d,%s)", c.slot, c.val, c.value, e)
}

func revisitWorker(f *Fixture, res *engine.Result, tier string, shard, n int) {
	w := f.W
	pAddr := world.ContractAddr(0x20)
	rAddr := world.ContractAddr(0x21)
	var opts []pcall
	for _, slot := range []byte{1, 2} {
		for _, val := range []byte{0, 7, 9} {
			for _, rv := range []bool{false, true} {
				for _, v := range []int64{0, 3} {
					opts = append(opts, pcall{slot, val, rv, v, false})
				}
				if rv {
					// the reverting invocation first lets a stateful precompile flush the pending state
					opts = append(opts, pcall{slot, val, rv, 0, true})
				}
			}
		}
	}
	maxK := 2
	if tier == "thorough" {
		maxK = 3
	}
	idx := 0
	var rec func(cur []pcall)
	rec = func(cur []pcall) {
		if len(cur) >= 1 {
			idx++
			if idx%n == shard {
				// root program: the calls in order, each caught, then STOP
				a := evmasm.New()
				for _, c := range cur {
					flag := byte(0)
					if c.revert {
						flag = 1
					}
					pcf := byte(0)
					if c.pc {
						pcf = 1
					}
					d := a.Data([]byte{c.slot, c.val, flag, pcf})
					ln := a.CopyDataToMem(d, 0)
					a.Call(evmasm.CALL, 500000, pAddr, big.NewInt(c.value), 0, uint64(ln), 0, 0).Op(evmasm.POP)
				}
				a.Stop()
				var names []string
				want := map[uint64]uint64{1: 5} // slot 1 holds a committed non-zero value before the transaction
				wantBal := int64(0)
				effective := false // a surviving invocation really changes the contract (so it is written at the end)
				for _, c := range cur {
					names = append(names, c.String())
					if !c.revert {
						if c.value > 0 || want[uint64(c.slot)] != uint64(c.val) {
							effective = true
						}
						want[uint64(c.slot)] = uint64(c.val)
						wantBal += c.value
					}
				}
				p := []string{"R{" + strings.Join(names, " ") + "}"}
				restore := w.Branch()
				ctx := w.App.BaseApp.VerifDeliverCtx()
				w.InstallContract(ctx, pAddr, paramChildCode(), map[uint64]uint64{1: 5})
				w.InstallContract(ctx, rAddr, a.Bytes(), nil)
				nonce := w.App.AccountKeeper.GetAccount(ctx, w.Addrs[f.S]).GetSequence()
				bz, _ := world.WrapEth(w.SignEth(w.Keys[f.S], world.EthSpec{Nonce: nonce, Gas: 5000000, To: &rAddr, Value: big.NewInt(20), GasPrice: big.NewInt(0)}))
				preSupply := w.App.BankKeeper.GetSupply(ctx, world.Denom).Amount
				r := w.Deliver(bz)
				ctx = w.Ctx()
				got1, got2 := w.Slot(ctx, pAddr, 1).Uint64(), w.Slot(ctx, pAddr, 2).Uint64()
				balP := w.App.BankKeeper.GetBalance(ctx, sdk.AccAddress(pAddr.Bytes()), world.Denom).Amount.Int64()
				balR := w.App.BankKeeper.GetBalance(ctx, sdk.AccAddress(rAddr.Bytes()), world.Denom).Amount.Int64()
				supply := w.App.BankKeeper.GetSupply(ctx, world.Denom).Amount
				restore()
				res.Transitions++
				res.Evaluations++
				res.States[p[0]] = 0
				res.Outcomes["revisit"]++
				anyRev := false
				for _, c := range cur {
					anyRev = anyRev || c.revert
				}
				if anyRev {
					res.Nontrivial[p[0]] = true
				}
				if r.Code != 0 || got1 != want[1] || got2 != want[2] || balP != wantBal || balR != 20-wantBal || !supply.Equal(preSupply) {
					leak := "evm"
					if !supply.Equal(preSupply) {
						leak = "supply"
					}
					// whether a precompile flushed a reverting invocation's store, and whether another
					// invocation of the contract survives (the contract is then written at the end anyway)
					leaf, survivor := "none", "no"
					for _, c := range cur {
						if c.pc {
							leaf = "bank.query:staticcall"
						}
					}
					if effective {
						survivor = "yes"
					}
					sig := "C05|leaf=" + leaf + "|revertpos=revisited-frame|leak=" + leak
					if leaf != "none" {
						sig += "|survivor=" + survivor
					}
					res.AddViolation(engine.Violation{Signature: sig,
						What: "a contract re-entered after one of its invocations reverted ends with storage / balance that the surviving calls do not explain", Path: p,
						Detail: map[string]any{"code": r.Code, "slot1": got1, "slot2": got2, "want": fmt.Sprint(want), "balP": balP, "wantBalP": wantBal, "balR": balR}})
				}
			}
		}
		if len(cur) == maxK {
			return
		}
		for _, o := range opts {
			rec(append(append([]pcall{}, cur...), o))
		}
	}
	rec(nil)
}

// ---- self-destruct family ----------------------------------------------------------------------
//
// The parametric child P can also SELFDESTRUCT (to a fixed beneficiary), and calls can go through a
// wrapper W that forwards calldata and value to P and then stops or reverts.  The root makes every
// sequence of <= 3 calls from a menu of 8 (writes and self-destructs; direct / through a surviving
// wrapper / through a reverting wrapper; with and without value); a trivial model applies the
// surviving calls only (classic SELFDESTRUCT semantics: balance to the beneficiary at once, account
// with code and storage deleted at the end of the transaction, anything it received after that is
// destroyed with it).  This covers reverted and repeated self-destructs of a dirty contract.

func sdChildCode(ben common.Address) []byte {
	a := evmasm.New()
	a.PushU(2).Op(evmasm.CALLDATALOAD).PushU(248).Op(evmasm.SHR).PushU(2).Op(evmasm.EQ).PushLabel("sd").Op(evmasm.JUMPI)
	a.PushU(1).Op(evmasm.CALLDATALOAD).PushU(248).Op(evmasm.SHR)
	a.PushU(0).Op(evmasm.CALLDATALOAD).PushU(248).Op(evmasm.SHR)
	a.Op(evmasm.SSTORE)
	a.PushU(2).Op(evmasm.CALLDATALOAD).PushU(248).Op(evmasm.SHR)
	a.PushLabel("rev").Op(evmasm.JUMPI)
	a.Stop()
	a.Label("rev")
	a.Revert()
	a.Label("sd")
	a.PushAddr(ben).Op(evmasm.SELFDESTRUCT)
	return a.Bytes()
}

func sdWrapperCode(p common.Address) []byte {
	a := evmasm.New()
	a.Op(evmasm.CALLDATASIZE).PushU(0).PushU(0).Op(evmasm.CALLDATACOPY)
	a.PushU(0).PushU(0).Op(evmasm.CALLDATASIZE).PushU(0).Op(evmasm.CALLVALUE).PushAddr(p).PushU(300000).Op(evmasm.CALL).Op(evmasm.POP)
	a.PushU(3).Op(evmasm.CALLDATALOAD).PushU(248).Op(evmasm.SHR)
	a.PushLabel("rev").Op(evmasm.JUMPI)
	a.Stop()
	a.Label("rev")
	a.Revert()
	return a.Bytes()
}

type sdcall struct {
	name      string
	slot, val byte
	flag      byte // 0 stop, 1 revert, 2 self-destruct
	via       byte // 0 direct, 1 wrapper that stops, 2 wrapper that reverts
	value     int64
}

// SdWorker runs the self-destruct family (also used by C02 for its supply oracle).
func SdWorker(f *Fixture, res *engine.Result, tier string, shard, n int) {
	w := f.W
	pAddr, rAddr, wAddr := world.ContractAddr(0x24), world.ContractAddr(0x25), world.ContractAddr(0x26)
	ben := world.ContractAddr(0x27)
	menu := []sdcall{
		{"write(1=7,$0)", 1, 7, 0, 0, 0},
		{"write(1=7,$3)", 1, 7, 0, 0, 3},
		{"write(1=7,$3,revert)", 1, 7, 1, 0, 3},
		{"W!{write(1=7,$3)}", 1, 7, 0, 2, 3},
		{"W{write(2=9,$0)}", 2, 9, 0, 1, 0},
		{"selfdestruct", 0, 0, 2, 0, 0},
		{"W{selfdestruct}", 0, 0, 2, 1, 0},
		{"W!{selfdestruct}", 0, 0, 2, 2, 0},
	}
	idx := 0
	var rec func(cur []sdcall)
	rec = func(cur []sdcall) {
		if len(cur) >= 1 {
			idx++
			if idx%n == shard {
				a := evmasm.New()
				for _, c := range cur {
					wf := byte(0)
					if c.via == 2 {
						wf = 1
					}
					d := a.Data([]byte{c.slot, c.val, c.flag, wf})
					ln := a.CopyDataToMem(d, 0)
					to := pAddr
					if c.via != 0 {
						to = wAddr
					}
					a.Call(evmasm.CALL, 600000, to, big.NewInt(c.value), 0, uint64(ln), 0, 0).Op(evmasm.POP)
				}
				a.Stop()
				// the model
				slots := map[uint64]uint64{1: 5}
				balP, balB, balR := int64(0), int64(0), int64(20)
				destroyed, anyUndone := false, false
				var names []string
				for _, c := range cur {
					names = append(names, c.name)
					if c.flag == 1 || c.via == 2 {
						anyUndone = true
						continue
					}
					balP += c.value
					balR -= c.value
					if c.flag == 2 {
						balB += balP
						balP = 0
						destroyed = true
					} else {
						slots[uint64(c.slot)] = uint64(c.val)
					}
				}
				burned := int64(0)
				if destroyed {
					slots = map[uint64]uint64{}
					burned, balP = balP, 0
				}
				p := []string{"SD{" + strings.Join(names, " ") + "}"}
				restore := w.Branch()
				ctx := w.App.BaseApp.VerifDeliverCtx()
				w.InstallContract(ctx, pAddr, sdChildCode(ben), map[uint64]uint64{1: 5})
				w.InstallContract(ctx, wAddr, sdWrapperCode(pAddr), nil)
				w.InstallContract(ctx, rAddr, a.Bytes(), nil)
				nonce := w.App.AccountKeeper.GetAccount(ctx, w.Addrs[f.S]).GetSequence()
				bz, _ := world.WrapEth(w.SignEth(w.Keys[f.S], world.EthSpec{Nonce: nonce, Gas: 5000000, To: &rAddr, Value: big.NewInt(20), GasPrice: big.NewInt(0)}))
				preSupply := w.App.BankKeeper.GetSupply(ctx, world.Denom).Amount
				r := w.Deliver(bz)
				ctx = w.Ctx()
				bal := func(ad common.Address) int64 {
					return w.App.BankKeeper.GetBalance(ctx, sdk.AccAddress(ad.Bytes()), world.Denom).Amount.Int64()
				}
				got1, got2 := w.Slot(ctx, pAddr, 1).Uint64(), w.Slot(ctx, pAddr, 2).Uint64()
				codeLen := len(w.App.EvmKeeper.GetCode(ctx, common.BytesToHash(w.App.EvmKeeper.GetAccountOrEmpty(ctx, pAddr).CodeHash)))
				gP, gB, gR, gW := bal(pAddr), bal(ben), bal(rAddr), bal(wAddr)
				supplyDelta := w.App.BankKeeper.GetSupply(ctx, world.Denom).Amount.Sub(preSupply).Int64()
				restore()
				res.Transitions++
				res.Evaluations++
				res.States[p[0]] = 0
				res.Outcomes["selfdestruct-family"]++
				if anyUndone {
					res.Nontrivial[p[0]] = true
				}
				alive := codeLen > 0
				if r.Code != 0 || got1 != slots[1] || got2 != slots[2] || alive == destroyed || gP != balP || gB != balB || gR != balR || gW != 0 || supplyDelta != -burned {
					leak := "evm"
					if supplyDelta != -burned {
						leak = "supply"
					}
					res.AddViolation(engine.Violation{Signature: "C05|leaf=none|revertpos=selfdestruct-family|leak=" + leak,
						What: "after reverted / repeated self-destructs the contract's existence, storage or balances are not what the surviving calls explain", Path: p,
						Detail: map[string]any{"code": r.Code, "slot1": got1, "slot2": got2, "want_slots": fmt.Sprint(slots), "alive": alive, "want_destroyed": destroyed,
							"balP": gP, "wantBalP": balP, "balBeneficiary": gB, "wantBalBeneficiary": balB, "balRoot": gR, "wantBalRoot": balR, "balWrapper": gW,
							"supply_delta": supplyDelta, "want_supply_delta": -burned}})
				}
			}
		}
		if len(cur) == 3 {
			return
		}
		for _, o := range menu {
			rec(append(append([]sdcall{}, cur...), o))
		}
	}
	rec(nil)
}

// ---- creation family ---------------------------------------------------------------------------
//
// A factory makes one CREATE2 whose target address may already hold coins (funded by an earlier
// transaction and / or by the factory just before), with or without an endowment; the init code
// returns code, returns nothing, reverts, or self-destructs to a third party / to itself; afterwards
// the factory may send coins to the address again.  All 80 combinations are checked against a
// model (classic CREATE2 / SELFDESTRUCT semantics): balances of factory, target and beneficiary,
// existence of code at the target, and the supply (which may only fall by what a destroyed account
// still held).  This covers failed and self-destructing deployments onto funded addresses.

// CreateWorker runs the creation family (also used by C02 for its supply oracle).
func CreateWorker(f *Fixture, res *engine.Result, tier string, shard, n int) {
	w := f.W
	fAddr := world.ContractAddr(0x28)
	ben := world.ContractAddr(0x29)
	salt := common.Hash{31: 7}
	inits := []struct {
		name string
		code func(self common.Address) []byte
	}{
		{"returns-code", func(common.Address) []byte { // RETURN(31,1) of a zero byte: runtime code 0x00 (STOP)
			return evmasm.New().PushU(1).PushU(31).Op(evmasm.RETURN).Bytes()
		}},
		{"returns-nothing", func(common.Address) []byte { return evmasm.New().Stop().Bytes() }},
		{"reverts", func(common.Address) []byte { return evmasm.New().Revert().Bytes() }},
		{"selfdestructs(third)", func(common.Address) []byte { return evmasm.New().PushAddr(ben).Op(evmasm.SELFDESTRUCT).Bytes() }},
		{"selfdestructs(self)", func(common.Address) []byte { return evmasm.New().Op(evmasm.ADDRESS).Op(evmasm.SELFDESTRUCT).Bytes() }},
	}
	idx := 0
	for _, prefund := range []int64{0, 70} {
		for _, pre := range []int64{0, 3} {
			for _, in := range inits {
				for _, endow := range []int64{0, 5} {
					for _, post := range []int64{0, 4} {
						idx++
						if idx%n != shard {
							continue
						}
						init := in.code(common.Address{})
						x := crypto.CreateAddress2(fAddr, salt, crypto.Keccak256(init))
						// factory program
						a := evmasm.New()
						if pre > 0 {
							a.Call(evmasm.CALL, 0, x, big.NewInt(pre), 0, 0, 0, 0).Op(evmasm.POP)
						}
						d := a.Data(init)
						ln := a.CopyDataToMem(d, 0)
						// CREATE2(value, offset, size, salt)
						a.PushBytes(salt.Bytes()).PushU(uint64(ln)).PushU(0).PushU(uint64(endow)).Op(0xf5).Op(evmasm.POP)
						if post > 0 {
							a.Call(evmasm.CALL, 0, x, big.NewInt(post), 0, 0, 0, 0).Op(evmasm.POP)
						}
						a.Stop()
						// the model
						balF, balX, balB, burned := int64(20), prefund, int64(0), int64(0)
						balX += pre
						balF -= pre
						hasCode, destroyed := false, false
						switch in.name {
						case "returns-code":
							balX += endow
							balF -= endow
							hasCode = true
						case "returns-nothing":
							balX += endow
							balF -= endow
						case "reverts":
						case "selfdestructs(third)":
							balF -= endow
							balB += balX + endow
							balX = 0
							destroyed = true
						case "selfdestructs(self)":
							balF -= endow
							burned += balX + endow
							balX = 0
							destroyed = true
						}
						balX += post
						balF -= post
						if destroyed {
							burned += balX // what arrives after the self-destruct disappears with the account
							balX = 0
						}
						p := []string{fmt.Sprintf("CREATE2{prefund=%d pre-send=%d init=%s endowment=%d post-send=%d}", prefund, pre, in.name, endow, post)}
						restore := w.Branch()
						ctx := w.App.BaseApp.VerifDeliverCtx()
						if prefund > 0 {
							if err := w.App.BankKeeper.SendCoins(ctx, w.Addrs[f.S], sdk.AccAddress(x.Bytes()), sdk.NewCoins(sdk.NewInt64Coin(world.Denom, prefund))); err != nil {
								panic(err)
							}
						}
						w.InstallContract(ctx, fAddr, a.Bytes(), nil)
						nonce := w.App.AccountKeeper.GetAccount(ctx, w.Addrs[f.S]).GetSequence()
						bz, _ := world.WrapEth(w.SignEth(w.Keys[f.S], world.EthSpec{Nonce: nonce, Gas: 5000000, To: &fAddr, Value: big.NewInt(20), GasPrice: big.NewInt(0)}))
						preSupply := w.App.BankKeeper.GetSupply(ctx, world.Denom).Amount
						r := w.Deliver(bz)
						ctx = w.Ctx()
						bal := func(ad common.Address) int64 {
							return w.App.BankKeeper.GetBalance(ctx, sdk.AccAddress(ad.Bytes()), world.Denom).Amount.Int64()
						}
						codeLen := len(w.App.EvmKeeper.GetCode(ctx, common.BytesToHash(w.App.EvmKeeper.GetAccountOrEmpty(ctx, x).CodeHash)))
						gF, gX, gB := bal(fAddr), bal(x), bal(ben)
						supplyDelta := w.App.BankKeeper.GetSupply(ctx, world.Denom).Amount.Sub(preSupply).Int64()
						restore()
						res.Transitions++
						res.Evaluations++
						res.States[p[0]] = 0
						res.Outcomes["create-family"]++
						if in.name == "reverts" || destroyed {
							res.Nontrivial[p[0]] = true
						}
						if r.Code != 0 || gF != balF || gX != balX || gB != balB || (codeLen > 0) != hasCode || supplyDelta != -burned {
							leak := "evm"
							if supplyDelta != -burned {
								leak = "supply"
							}
							res.AddViolation(engine.Violation{Signature: "C05|leaf=none|revertpos=create-family|leak=" + leak,
								What: "after a CREATE2 onto a (possibly funded) address the balances, the code or the supply are not what the deployment's outcome explains", Path: p,
								Detail: map[string]any{"code": r.Code, "balFactory": gF, "wantFactory": balF, "balTarget": gX, "wantTarget": balX, "balBeneficiary": gB, "wantBeneficiary": balB,
									"has_code": codeLen > 0, "want_code": hasCode, "supply_delta": supplyDelta, "want_supply_delta": -burned}})
						}
					}
				}
			}
		}
	}
}

// ---- warmth differential -------------------------------------------------------------------------
//
// What a reverted frame did to the EIP-2929 access list must be undone, and nothing more: the callee
// of a CALL is warmed by the caller's frame, so after the call the price of touching it again must
// not depend on whether the callee reverted.  The root calls the parametric child (whose store is
// the first slot access on its account), catches the outcome, then measures the gas of BALANCE(child)
// with the GAS opcode and stores it; the stored figure must be the same for a child that stopped and
// for one that reverted (and for one that reverted after a precompile call).
// RefundWorker: the refund counter is state of the transaction too.  Contract R (slot 1 holds a
// committed non-zero value) clears slot 1 (earning the refund), dirties slot 2, and calls itself;
// the inner frame writes 7 into one slot and reverts.  Written into the dirty slot 2 the inner
// SSTORE touches no refund, written into the cleared slot 1 it takes the refund away - and the
// revert gives it back.  Both inner frames cost the same gas, so the two transactions must use
// exactly the same gas (the gas limit is tight enough for the minimum-gas floor not to hide it).
func RefundWorker(f *Fixture, res *engine.Result, shard, n int) {
	if shard != 1%n {
		return
	}
	w := f.W
	rAddr := world.ContractAddr(0x2c)
	measure := func(slot uint64, revert bool) (int64, uint32) {
		a := evmasm.New()
		a.Op(evmasm.CALLDATASIZE).PushLabel("inner").Op(evmasm.JUMPI)
		a.SStore(1, 0).SStore(2, 5)
		a.PushU(slot).PushU(0).Op(evmasm.MSTORE)
		a.PushU(0).PushU(0).PushU(32).PushU(0).PushU(0).Op(evmasm.ADDRESS).Op(evmasm.GAS).Op(evmasm.CALL).Op(evmasm.POP)
		a.Stop()
		a.Label("inner")
		a.PushU(7).PushU(0).Op(evmasm.CALLDATALOAD).Op(evmasm.SSTORE)
		if revert {
			a.Revert()
		} else {
			a.Stop()
		}
		restore := w.Branch()
		defer restore()
		ctx := w.App.BaseApp.VerifDeliverCtx()
		w.InstallContract(ctx, rAddr, a.Bytes(), map[uint64]uint64{1: 1})
		nonce := w.App.AccountKeeper.GetAccount(ctx, w.Addrs[f.S]).GetSequence()
		bz, _ := world.WrapEth(w.SignEth(w.Keys[f.S], world.EthSpec{Nonce: nonce, Gas: 62000, To: &rAddr, GasPrice: big.NewInt(0)}))
		r := w.Deliver(bz)
		return r.GasUsed, r.Code
	}
	base, c1 := measure(2, true)
	got, c2 := measure(1, true)
	// the inner frame that keeps its write is the control: there the refund is really lost
	kept, c3 := measure(1, false)
	res.Transitions += 3
	res.Evaluations++
	res.States["refund|reverted-subrefund"] = 0
	res.Nontrivial["refund|reverted-subrefund"] = true
	res.Outcomes["refund-differential"]++
	d := map[string]any{"gas_inner_writes_dirty_slot": base, "gas_inner_writes_cleared_slot": got, "gas_inner_keeps_its_write": kept, "codes": fmt.Sprint(c1, c2, c3)}
	if c1 != 0 || c2 != 0 || c3 != 0 || kept <= base {
		res.HarnessErr = fmt.Sprintf("refund differential: the control does not behave as constructed (%v)", d)
		return
	}
	if got != base {
		res.AddViolation(engine.Violation{Signature: "C05|leaf=none|revertpos=refund|leak=gas",
			What: "a reverted frame that had taken a gas refund away did not give it back: the transaction is charged for state the revert undid",
			Path: []string{"R{clear slot 1; dirty slot 2; call self{write cleared slot; revert}} vs R{...; call self{write dirty slot; revert}}"}, Detail: d})
	}
}

func WarmthWorker(f *Fixture, res *engine.Result, shard, n int) {
	if shard != 0 {
		return
	}
	w := f.W
	pAddr, rAddr := world.ContractAddr(0x2a), world.ContractAddr(0x2b)
	measure := func(flag, pc byte) (uint64, uint32) {
		a := evmasm.New()
		d := a.Data([]byte{2, 9, flag, pc})
		ln := a.CopyDataToMem(d, 0)
		a.Call(evmasm.CALL, 500000, pAddr, big.NewInt(0), 0, uint64(ln), 0, 0).Op(evmasm.POP)
		a.Op(evmasm.GAS).PushAddr(pAddr).Op(evmasm.BALANCE).Op(evmasm.POP).Op(evmasm.GAS).Op(evmasm.SWAP1).Op(evmasm.SUB).SStoreTop(5)
		a.Stop()
		restore := w.Branch()
		defer restore()
		ctx := w.App.BaseApp.VerifDeliverCtx()
		w.InstallContract(ctx, pAddr, paramChildCode(), map[uint64]uint64{1: 5})
		w.InstallContract(ctx, rAddr, a.Bytes(), nil)
		nonce := w.App.AccountKeeper.GetAccount(ctx, w.Addrs[f.S]).GetSequence()
		bz, _ := world.WrapEth(w.SignEth(w.Keys[f.S], world.EthSpec{Nonce: nonce, Gas: 5000000, To: &rAddr, GasPrice: big.NewInt(0)}))
		r := w.Deliver(bz)
		return w.Slot(w.Ctx(), rAddr, 5).Uint64(), r.Code
	}
	base, code := measure(0, 0)
	res.Transitions++
	for _, v := range []struct {
		name     string
		flag, pc byte
	}{{"child reverts", 1, 0}, {"child reverts after a precompile call", 1, 1}} {
		got, c2 := measure(v.flag, v.pc)
		res.Transitions++
		res.Evaluations++
		res.States["warmth|"+v.name] = 0
		res.Nontrivial["warmth|"+v.name] = true
		res.Outcomes["warmth-differential"]++
		if got != base || code != 0 || c2 != 0 || base == 0 {
			res.AddViolation(engine.Violation{Signature: "C05|leaf=none|revertpos=warmth|leak=gas",
				What: "touching the callee again costs a different amount of gas after it reverted than after it stopped: the revert changed the access list beyond undoing the frame's own additions",
				Path: []string{"R{call P; measure BALANCE(P)}: " + v.name}, Detail: map[string]any{"gas_after_stop": base, "gas_after_revert": got, "codes": fmt.Sprint(code, c2)}})
		}
	}
}
