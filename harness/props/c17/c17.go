// Package c17: base fee follows EIP-1559 and stays within its bounds.
//
// Three exhaustive parts, all on the real fee-market keeper:
//
//	fn       full cartesian grid over (base, block gas limit, elasticity, denominator, min gas
//	         price, g) through the real CalculateBaseFee, against a math/big transcription of the
//	         statement, plus monotonicity in g on every adjacent pair of the g axis;
//	endblock grid over (gasWanted, gasUsed, multiplier) through the real EndBlock;
//	history  E1 exploration of all sequences <= depth of blocks with chosen gas figures through
//	         real EndBlock/BeginBlock, against the reference recurrence.
package c17

import (
	"fmt"
	"math/big"
	"sort"
	"time"

	sdkmath "cosmossdk.io/math"
	abci "github.com/cometbft/cometbft/abci/types"
	tmproto "github.com/cometbft/cometbft/proto/tendermint/types"
	storetypes "github.com/cosmos/cosmos-sdk/store/types"
	sdk "github.com/cosmos/cosmos-sdk/types"
	banktypes "github.com/cosmos/cosmos-sdk/x/bank/types"

	"github.com/haqq-network/haqq/x/feemarket"
	feemarkettypes "github.com/haqq-network/haqq/x/feemarket/types"

	"verif/harness/engine"
	"verif/harness/world"
)

const Prop = "C17"

var maxU64 = new(big.Int).SetUint64(^uint64(0))

func bi(s string) *big.Int {
	v, ok := new(big.Int).SetString(s, 10)
	if !ok {
		panic(s)
	}
	return v
}

func pow2(n uint) *big.Int { return new(big.Int).Lsh(big.NewInt(1), n) }

// ref is the statement transcribed: returns nil when the statement's domain is left (T = 0).
func ref(base *big.Int, g uint64, limit int64, elast, denom uint32, mgp sdk.Dec) (*big.Int, string) {
	lim := new(big.Int).Set(maxU64)
	if limit > -1 {
		lim = big.NewInt(limit)
	}
	T := new(big.Int).Div(lim, big.NewInt(int64(elast)))
	if T.Sign() == 0 {
		return nil, "T=0"
	}
	G := new(big.Int).SetUint64(g)
	switch G.Cmp(T) {
	case 0:
		return new(big.Int).Set(base), "eq"
	case 1:
		d := new(big.Int).Sub(G, T)
		d.Mul(d, base)
		d.Div(d, T)
		d.Div(d, big.NewInt(int64(denom)))
		if d.Cmp(big.NewInt(1)) < 0 {
			d = big.NewInt(1)
		}
		return d.Add(d, base), "up"
	default:
		d := new(big.Int).Sub(T, G)
		d.Mul(d, base)
		d.Div(d, T)
		d.Div(d, big.NewInt(int64(denom)))
		r := new(big.Int).Sub(base, d)
		floor := mgp.TruncateInt().BigInt()
		if r.Cmp(floor) < 0 {
			r = floor
		}
		return r, "down"
	}
}

func fixture(maxGas int64, fm *feemarkettypes.Params) *world.World {
	return world.New(world.Options{NumAccounts: 2, FeeMarket: fm, MaxGas: maxGas})
}

func defaultFM() feemarkettypes.Params {
	p := feemarkettypes.DefaultParams()
	p.NoBaseFee = false
	p.EnableHeight = 0
	p.MinGasPrice = sdk.ZeroDec()
	p.MinGasMultiplier = sdk.NewDecWithPrec(5, 1)
	return p
}

// ---- part fn ----------------------------------------------------------------------------------

func partFn(res *engine.Result, tier string, shard, n int) {
	fm := defaultFM()
	w := fixture(-1, &fm)
	k := w.App.FeeMarketKeeper
	bases := []*big.Int{big.NewInt(0), big.NewInt(1), big.NewInt(2), big.NewInt(7), big.NewInt(8), big.NewInt(9), big.NewInt(100),
		big.NewInt(1000000000), pow2(63), pow2(200)}
	limits := []int64{-1, 2, 10, 100, 30000000}
	elasts := []uint32{1, 2, 3}
	denoms := []uint32{1, 2, 8, ^uint32(0)}
	if tier == "thorough" {
		bases = append(bases, big.NewInt(3), big.NewInt(15), big.NewInt(16), big.NewInt(17), big.NewInt(999), pow2(64), pow2(128), new(big.Int).Sub(pow2(256), big.NewInt(1)))
		limits = append(limits, 1, 3, 7, 1000, 1<<62)
		elasts = append(elasts, 4, 7, ^uint32(0))
		denoms = append(denoms, 3, 50, 1000)
	}
	idx := 0
	for _, base := range bases {
		mgps := []sdk.Dec{sdk.ZeroDec(), sdk.NewDecWithPrec(5, 1), sdk.OneDec(), sdk.NewDecFromBigInt(pow2(220))}
		// min gas prices around the base fee, where an 18-decimals Dec can hold them (about 2^255 / 10^18)
		if base.BitLen() <= 250 {
			mgps = append(mgps, sdk.NewDecFromBigInt(new(big.Int).Add(base, big.NewInt(1))), sdk.NewDecFromBigInt(base))
		}
		if base.Sign() > 0 && base.BitLen() <= 250 {
			mgps = append(mgps, sdk.NewDecFromBigInt(new(big.Int).Sub(base, big.NewInt(1))),
				sdk.NewDecFromBigInt(base).Sub(sdk.NewDecWithPrec(5, 1)))
		}
		for _, limit := range limits {
			for _, el := range elasts {
				for _, dn := range denoms {
					for _, mgp := range mgps {
						idx++
						if idx%n != shard {
							continue
						}
						lim := new(big.Int).Set(maxU64)
						if limit > -1 {
							lim = big.NewInt(limit)
						}
						T := new(big.Int).Div(lim, big.NewInt(int64(el))).Uint64()
						gs := map[uint64]bool{0: true, 1: true, ^uint64(0): true, T: true}
						if T > 0 {
							gs[T-1] = true
						}
						if T < ^uint64(0) {
							gs[T+1] = true
						}
						if T <= (^uint64(0))/2 {
							gs[2*T] = true
						}
						if limit > -1 {
							gs[uint64(limit)] = true
						}
						if tier == "thorough" {
							gs[T/2] = true
							gs[T/2+T] = true
							gs[3] = true
						}
						var gl []uint64
						for g := range gs {
							gl = append(gl, g)
						}
						sort.Slice(gl, func(i, j int) bool { return gl[i] < gl[j] })
						evalRow(w, res, base, limit, el, dn, mgp, gl)
					}
				}
			}
		}
	}
	_ = k
}

func evalRow(w *world.World, res *engine.Result, base *big.Int, limit int64, el, dn uint32, mgp sdk.Dec, gl []uint64) {
	k := w.App.FeeMarketKeeper
	ctx, _ := w.Ctx().CacheContext()
	p := defaultFM()
	p.BaseFee = sdkmath.NewIntFromBigInt(base)
	p.ElasticityMultiplier = el
	p.BaseFeeChangeDenominator = dn
	p.MinGasPrice = mgp
	if err := p.Validate(); err != nil {
		res.Outcomes["fn:params-rejected"]++
		return
	}
	if err := k.SetParams(ctx, p); err != nil {
		res.Outcomes["fn:setparams-error"]++
		return
	}
	cp := ctx.ConsensusParams()
	ncp := &tmproto.ConsensusParams{Block: &tmproto.BlockParams{MaxBytes: 200000, MaxGas: limit}}
	if cp != nil {
		ncp.Evidence, ncp.Validator, ncp.Version = cp.Evidence, cp.Validator, cp.Version
	}
	ctx = ctx.WithConsensusParams(ncp).WithBlockHeight(10)
	inDomain := base.Cmp(mgp.TruncateInt().BigInt()) >= 0
	var prev *big.Int
	var prevG uint64
	for _, g := range gl {
		k.SetBlockGasWanted(ctx, g)
		want, branch := ref(base, g, limit, el, dn, mgp)
		var got *big.Int
		panicked := ""
		func() {
			defer func() {
				if r := recover(); r != nil {
					panicked = fmt.Sprint(r)
				}
			}()
			got = k.CalculateBaseFee(ctx)
		}()
		res.Transitions++
		res.Evaluations++
		key := fmt.Sprintf("%s|%d|%d|%d|%s|%d", base, limit, el, dn, mgp, g)
		res.States[key] = 0
		if want == nil {
			res.Outcomes["fn:out-of-domain(T=0)"]++
			if panicked != "" {
				res.Observe("CalculateBaseFee panics (division by zero) when block gas limit < elasticity multiplier (target T = 0); outside the statement's domain")
			}
			prev = nil
			continue
		}
		res.Outcomes["fn:"+branch]++
		viol := func(breach, what string) {
			res.AddViolation(engine.Violation{
				Signature: fmt.Sprintf("C17|part=fn|branch=%s|breach=%s", branch, breach), What: what,
				Path:   []string{fmt.Sprintf("base=%s limit=%d elasticity=%d denom=%d mgp=%s g=%d", base, limit, el, dn, mgp, g)},
				Detail: map[string]any{"got": fmt.Sprint(got), "want": want.String(), "panic": panicked},
			})
		}
		if panicked != "" {
			viol("panic", "CalculateBaseFee panicked inside the statement's domain")
			prev = nil
			continue
		}
		if got == nil || got.Cmp(want) != 0 {
			viol("value", "CalculateBaseFee differs from the EIP-1559 reference")
		}
		if got != nil {
			if branch != "eq" || g != 0 {
				res.Nontrivial[key] = true
			}
			if !inDomain {
				res.Outcomes["fn:base<mgp(observation)"]++
			} else if prev != nil && got.Cmp(prev) < 0 {
				res.AddViolation(engine.Violation{
					Signature: "C17|part=fn|branch=" + branch + "|breach=monotone", What: "base fee is not monotone in g",
					Path:   []string{fmt.Sprintf("base=%s limit=%d elasticity=%d denom=%d mgp=%s g=%d->%d", base, limit, el, dn, mgp, prevG, g)},
					Detail: map[string]any{"f(g1)": prev.String(), "f(g2)": got.String()},
				})
			}
			if inDomain && got.Cmp(mgp.TruncateInt().BigInt()) < 0 {
				viol("below-floor", "base fee fell below the minimum gas price")
			}
			prev, prevG = got, g
		}
	}
	if !inDomain {
		res.Observe("for base < floor(minGasPrice) the statement's clauses are mutually inconsistent with monotonicity (g<T jumps up to the floor, g>=T stays near base); rows with base<mgp are checked for equality with the piecewise reference only")
	}
}

// ---- part endblock ----------------------------------------------------------------------------

func partEndBlock(res *engine.Result, tier string) {
	fm := defaultFM()
	w := fixture(-1, &fm)
	k := w.App.FeeMarketKeeper
	vals := []uint64{0, 1, 2, 3, 20999, 21000, 21001, 100000, 1 << 40, 1<<63 - 1}
	if tier == "thorough" {
		vals = append(vals, 7, 99, 42000, 1<<62+1, 1<<63, ^uint64(0))
	}
	mults := []string{"0", "0.5", "1", "0.000000000000000001", "0.999999999999999999"}
	for _, ms := range mults {
		m := sdk.MustNewDecFromStr(ms)
		for _, gw := range vals {
			for _, gu := range vals {
				ctx, _ := w.Ctx().CacheContext()
				p := defaultFM()
				p.MinGasMultiplier = m
				_ = k.SetParams(ctx, p)
				gm := storetypes.NewInfiniteGasMeter()
				gm.ConsumeGas(gu, "verif")
				ctx = ctx.WithBlockGasMeter(gm)
				k.SetTransientBlockGasWanted(ctx, gw)
				k.SetBlockGasWanted(ctx, 424242)
				k.EndBlock(ctx, abci.RequestEndBlock{})
				got := k.GetBlockGasWanted(ctx)
				res.Transitions++
				res.Evaluations++
				res.States[fmt.Sprintf("eb|%s|%d|%d", ms, gw, gu)] = 0
				if gw > 1<<63-1 || gu > 1<<63-1 {
					// out of the int64 range: implementation logs and keeps the previous figure
					res.Outcomes["endblock:overflow-skipped"]++
					if got != 424242 {
						res.AddViolation(engine.Violation{Signature: "C17|part=endblock|breach=overflow", What: "gas figure changed on overflowing input",
							Path: []string{fmt.Sprintf("mult=%s gasWanted=%d gasUsed=%d", ms, gw, gu)}})
					}
					continue
				}
				// reference: max(floor(gw*m), gu) with exact rational arithmetic
				num := new(big.Int).Mul(new(big.Int).SetUint64(gw), m.BigInt())
				fl := num.Div(num, bi("1000000000000000000"))
				want := fl
				if new(big.Int).SetUint64(gu).Cmp(want) > 0 {
					want = new(big.Int).SetUint64(gu)
				}
				res.Outcomes["endblock:ok"]++
				if gw != gu && gw != 0 {
					res.Nontrivial[fmt.Sprintf("eb|%s|%d|%d", ms, gw, gu)] = true
				}
				if new(big.Int).SetUint64(got).Cmp(want) != 0 {
					res.AddViolation(engine.Violation{Signature: "C17|part=endblock|breach=value",
						What: "block gas figure differs from max(gasWanted x minGasMultiplier, gasUsed)",
						Path: []string{fmt.Sprintf("mult=%s gasWanted=%d gasUsed=%d", ms, gw, gu)}, Detail: map[string]any{"got": got, "want": want.String()}})
				}
			}
		}
	}
}

// ---- part history -----------------------------------------------------------------------------

type histFixture struct {
	name   string
	maxGas int64
	fm     feemarkettypes.Params
}

func histFixtures() []histFixture {
	a := defaultFM()
	a.BaseFee = sdkmath.NewInt(1000)
	a.MinGasPrice = sdk.NewDec(900)
	a.BaseFeeChangeDenominator = 8
	b := defaultFM()
	b.BaseFee = sdkmath.NewInt(7)
	b.MinGasPrice = sdk.NewDec(0)
	b.BaseFeeChangeDenominator = 2
	b.MinGasMultiplier = sdk.OneDec()
	c := defaultFM()
	c.BaseFee = sdkmath.NewInt(100)
	c.MinGasPrice = sdk.NewDec(1000) // base below the floor: observation territory for monotonicity, recurrence still checked
	// a base fee beyond 2^63: the recurrence is over big integers, nothing may clamp or freeze it
	e := defaultFM()
	e.BaseFee, _ = sdkmath.NewIntFromString("20000000000000000000")
	e.MinGasPrice = sdk.NewDec(0)
	e.BaseFeeChangeDenominator = 8
	return []histFixture{{"base1000-mgp900-lim100", 100, a}, {"base7-mgp0-lim100-mult1", 100, b}, {"base100-mgp1000-lim100", 100, c}, {"base2e19-mgp0-lim100", 100, e}}
}

type gasOp struct{ gw, gu uint64 }

func histWorker(res *engine.Result, tier string, shard, n int) {
	depth := 3
	if tier == "thorough" {
		depth = 6
	}
	// (the block gas limit of these fixtures is 100: the last two declare more gas than the limit,
	// which a block can carry as long as the gas actually used stays below it)
	gasOps := []gasOp{{0, 0}, {50, 50}, {100, 100}, {100, 0}, {49, 49}, {51, 51}, {100, 25}, {2, 1}, {150, 10}, {260, 90}}
	if tier == "thorough" {
		gasOps = append(gasOps, gasOp{98, 0}, gasOp{75, 75}, gasOp{1, 1}, gasOp{60, 40})
	}
	for fi, fx := range histFixtures() {
		fm := fx.fm
		w := fixture(fx.maxGas, &fm)
		k := w.App.FeeMarketKeeper
		var ops []engine.Op
		type gasOpX struct {
			gasOp
			reimport bool
		}
		var gx []gasOpX
		for _, g := range gasOps {
			gx = append(gx, gasOpX{g, false})
		}
		// the chain is exported after the block and restarted from the export before the next one: the
		// parent gas figure travels in the genesis document
		gx = append(gx, gasOpX{gasOp{100, 100}, true}, gasOpX{gasOp{51, 0}, true})
		for _, g := range gx {
			g := g
			name := fmt.Sprintf("block(gw=%d,gu=%d)", g.gw, g.gu)
			if g.reimport {
				name += "+export/import"
			}
			ops = append(ops, engine.Op{Name: name, Apply: func(w *world.World, p []string, res *engine.Result) string {
				ctx := w.App.BaseApp.VerifDeliverCtx()
				pre := k.GetParams(ctx)
				base := pre.BaseFee.BigInt()
				if _, err := k.AddTransientGasWanted(ctx, g.gw); err != nil {
					return "err:gaswanted"
				}
				ctx.BlockGasMeter().ConsumeGas(g.gu, "verif")
				if g.reimport {
					w.VirtualEndBlock()
					ictx := w.App.BaseApp.VerifDeliverCtx()
					gs := feemarket.ExportGenesis(ictx, k)
					k.SetBlockGasWanted(ictx, 0) // what a fresh store holds
					feemarket.InitGenesis(ictx, k, *gs)
					w.VirtualBeginBlock(6*time.Second, nil, nil)
				} else {
					w.VirtualNextBlock(6*time.Second, nil, nil)
				}
				ctx = w.App.BaseApp.VerifDeliverCtx()
				res.Evaluations++
				// reference
				fl := new(big.Int).Mul(new(big.Int).SetUint64(g.gw), pre.MinGasMultiplier.BigInt())
				fl.Div(fl, bi("1000000000000000000"))
				fig := fl.Uint64()
				if g.gu > fig {
					fig = g.gu
				}
				gotFig := k.GetBlockGasWanted(ctx)
				viol := func(breach, what string, detail map[string]any) {
					res.AddViolation(engine.Violation{Signature: "C17|part=history|breach=" + breach, What: what, Fixture: fx.name,
						Path: append([]string{"fixture=" + fx.name}, p...), Detail: detail})
				}
				if gotFig != fig {
					viol("gasfigure", "stored block gas figure differs from max(gasWanted x multiplier, gasUsed)", map[string]any{"got": gotFig, "want": fig})
				}
				want, branch := ref(base, fig, fx.maxGas, pre.ElasticityMultiplier, pre.BaseFeeChangeDenominator, pre.MinGasPrice)
				got := k.GetParams(ctx).BaseFee.BigInt()
				if want == nil || got.Cmp(want) != 0 {
					viol("recurrence", "stored base fee differs from the EIP-1559 recurrence", map[string]any{"got": got.String(), "want": fmt.Sprint(want), "prev": base.String(), "g": fig})
				}
				floor := pre.MinGasPrice.TruncateInt().BigInt()
				if base.Cmp(floor) >= 0 && got.Cmp(floor) < 0 {
					viol("below-floor", "base fee fell below the minimum gas price", map[string]any{"got": got.String()})
				}
				res.Nontrivial[fmt.Sprintf("h|%s|%s|%d", fx.name, base, fig)] = true
				return "ok:" + branch
			}})
		}
		// governance raises the minimum gas price above the live base fee: the base fee keeps following
		// the recurrence (unchanged at target, raised above it) and meets the new floor only on its way down
		ops = append(ops, engine.Op{Name: "minGasPrice(3 x base fee)", Apply: func(w *world.World, p []string, res *engine.Result) string {
			ctx := w.App.BaseApp.VerifDeliverCtx()
			pr := k.GetParams(ctx)
			if pr.BaseFee.BigInt().BitLen() > 200 || pr.MinGasPrice.TruncateInt().GT(pr.BaseFee) {
				return "skip"
			}
			pr.MinGasPrice = sdk.NewDecFromInt(pr.BaseFee.MulRaw(3))
			if err := k.SetParams(ctx, pr); err != nil {
				return "err:params"
			}
			return "ok"
		}})
		sub := engine.NewResult(Prop)
		e := &engine.Explorer{W: w, Res: sub, Stores: []string{"feemarket"}, MaxDepth: depth, Shard: shard, NShards: n,
			Ops: func(*world.World, int, []string) []engine.Op { return ops }}
		e.Run()
		// namespace digests per fixture
		for d, v := range sub.States {
			res.States[fmt.Sprintf("h%d|%s", fi, d)] = v
		}
		sub.States = map[string]int{}
		res.Merge(sub)
	}
}

// ---- part real-tx: the gas figure of blocks carrying real transactions ---------------------------
//
// The history part above injects gasWanted / gasUsed directly.  Here blocks carry real Cosmos and
// Ethereum transactions, so that the figure is what the ante handlers' gas-wanted tracking and the
// block gas meter produce: it must be max(sum of gas limits x multiplier, gas used), from the block
// at which the base fee becomes active onwards, and the next base fee must follow from it.
func realTxWorker(res *engine.Result, tier string, shard, n int) {
	depth := 3
	if tier == "thorough" {
		depth = 4
	}
	const maxGas = 10000000
	for _, enableAt := range []int64{0, 3} { // active from the start / activated at the second block of the history
		enableAt := enableAt
		fm := defaultFM()
		fm.BaseFee = sdkmath.NewInt(1000)
		fm.EnableHeight = enableAt
		fm.BaseFeeChangeDenominator = 8
		w := fixture(maxGas, &fm)
		k := w.App.FeeMarketKeeper
		type txs struct {
			name   string
			cosmos []uint64
			eth    []uint64
		}
		menu := []txs{{"none", nil, nil}, {"cosmos(200k)", []uint64{200000}, nil}, {"cosmos(6M)", []uint64{6000000}, nil}, {"cosmos(10M)", []uint64{10000000}, nil},
			{"eth(21000)", nil, []uint64{21000}}, {"eth(4M)", nil, []uint64{4000000}}, {"cosmos(6M)+eth(4M)", []uint64{6000000}, []uint64{4000000}}}
		var ops []engine.Op
		for _, m := range menu {
			m := m
			ops = append(ops, engine.Op{Name: "block{" + m.name + "}", Apply: func(w *world.World, p []string, res *engine.Result) string {
				ctx := w.App.BaseApp.VerifDeliverCtx()
				pre := k.GetParams(ctx)
				h := w.Header.Height
				enabled := !pre.NoBaseFee && h >= pre.EnableHeight
				price := new(big.Int).Mul(pre.BaseFee.BigInt(), big.NewInt(3))
				var sumLimits uint64
				for _, g := range m.cosmos {
					fee := sdk.NewCoins(sdk.NewCoin(world.Denom, sdkmath.NewIntFromBigInt(new(big.Int).Mul(price, new(big.Int).SetUint64(g)))))
					bz, err := w.CosmosTx(w.Ctx(), world.CosmosSpec{Key: w.Keys[1], Gas: g, Fee: fee,
						Msgs: []sdk.Msg{banktypes.NewMsgSend(w.Addrs[1], w.Addrs[0], sdk.NewCoins(sdk.NewInt64Coin(world.Denom, 1)))}})
					if err != nil {
						panic(err)
					}
					if r := w.Deliver(bz); r.Code != 0 {
						return "tx-rejected"
					}
					sumLimits += g
				}
				for _, g := range m.eth {
					to := w.Eth[0]
					nonce := w.App.AccountKeeper.GetAccount(w.Ctx(), w.Addrs[1]).GetSequence()
					bz, err := world.WrapEth(w.SignEth(w.Keys[1], world.EthSpec{Nonce: nonce, Gas: g, To: &to, Value: big.NewInt(1), GasPrice: price}))
					if err != nil {
						panic(err)
					}
					if r := w.Deliver(bz); r.Code != 0 {
						return "tx-rejected"
					}
					sumLimits += g
				}
				ctx = w.App.BaseApp.VerifDeliverCtx()
				used := ctx.BlockGasMeter().GasConsumedToLimit()
				base := pre.BaseFee.BigInt()
				w.VirtualNextBlock(6*time.Second, nil, nil)
				ctx = w.App.BaseApp.VerifDeliverCtx()
				res.Evaluations++
				viol := func(breach, what string, detail map[string]any) {
					res.AddViolation(engine.Violation{Signature: "C17|part=realtx|breach=" + breach, What: what, Fixture: fmt.Sprintf("enable-height=%d", enableAt),
						Path: append([]string{fmt.Sprintf("fixture=enable-height=%d", enableAt)}, p...), Detail: detail})
				}
				if !enabled {
					return "ok:not-yet-active"
				}
				fl := new(big.Int).Mul(new(big.Int).SetUint64(sumLimits), pre.MinGasMultiplier.BigInt())
				fl.Div(fl, bi("1000000000000000000"))
				fig := fl.Uint64()
				if used > fig {
					fig = used
				}
				if got := k.GetBlockGasWanted(ctx); got != fig {
					viol("gasfigure", "the stored gas figure of a block with real transactions differs from max(sum of gas limits x multiplier, gas used)",
						map[string]any{"got": got, "want": fig, "sum_gas_limits": sumLimits, "gas_used": used, "height": h})
				}
				want, branch := ref(base, fig, maxGas, pre.ElasticityMultiplier, pre.BaseFeeChangeDenominator, pre.MinGasPrice)
				got := k.GetParams(ctx).BaseFee.BigInt()
				if want == nil || got.Cmp(want) != 0 {
					viol("recurrence", "the base fee after a block with real transactions differs from the EIP-1559 recurrence on its gas figure", map[string]any{"got": got.String(), "want": fmt.Sprint(want), "prev": base.String(), "g": fig, "height": h})
				}
				res.Nontrivial[fmt.Sprintf("rt|%d|%s|%d", enableAt, m.name, h)] = true
				return "ok:" + branch
			}})
		}
		sub := engine.NewResult(Prop)
		e := &engine.Explorer{W: w, Res: sub, Stores: []string{"feemarket"}, MaxDepth: depth, Shard: shard, NShards: n, NoDedup: true,
			Ops: func(*world.World, int, []string) []engine.Op { return ops }}
		e.Run()
		for d, v := range sub.States {
			res.States[fmt.Sprintf("rt%d|%s", enableAt, d)] = v
		}
		sub.States = map[string]int{}
		res.Merge(sub)
	}
}

func Worker(shard, n int, tier string) *engine.Result {
	res := engine.NewResult(Prop)
	partFn(res, tier, shard, n)
	if shard == 0 {
		partEndBlock(res, tier)
	}
	if shard < 8 {
		histWorker(res, tier, shard, 8)
	} else {
		realTxWorker(res, tier, shard-8, n-8)
	}
	return res
}

func Run(tier string) int {
	start := time.Now()
	res := engine.RunSharded(Prop, tier, 16, Worker)
	res.TracesImpl = res.Evaluations
	res.Sample(map[string]any{"fn": "base=100 limit=100 elasticity=2 denom=8 mgp=0 g in {0,1,49,50,51,100,2^64-1}", "history": []string{"fixture=base1000-mgp900-lim100", "block(gw=100,gu=0)", "block(gw=0,gu=0)", "block(gw=100,gu=100)"}})
	return engine.Finish(res, engine.Meta{
		Property: Prop, Tier: tier, Level: "model_checking", Start: start,
		Rule:   "fn: full cartesian grid of boundary values through the real CalculateBaseFee vs a math/big reference, monotone on adjacent g; endblock: full (gasWanted,gasUsed,multiplier) grid through the real EndBlock; history: all sequences <= depth of blocks with chosen gas figures (incl. declared gas above the block gas limit) a governance change raising the minimum gas price above the live base fee, and blocks followed by an export / import of the module's genesis, through real EndBlock/BeginBlock on 4 parameter fixtures (one with a base fee beyond 2^63); real-tx: all sequences <= 3 (thorough 4) of blocks carrying real Cosmos / Ethereum transactions. Non-trivial = grid point off the g=T=unchanged axis / block with distinct (base, g)",
		Bounds: map[string]any{"history_depth": map[string]int{"quick": 3, "thorough": 6}},
		Assumptions: []string{
			"monotonicity is required only where base >= floor(minGasPrice): below it the statement's own clauses are incompatible with monotonicity (recorded as an observation)",
			"target T = 0 (block gas limit < elasticity) is outside the statement's domain; the implementation divides by zero there (observation)",
			"history part uses the virtual block boundary",
		},
	})
}
