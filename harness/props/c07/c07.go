// Package c07: every transaction pays the fee floor; EVM gas is charged exactly.
//
// Full grid over parameter fixtures x transaction kind x gas limit x price axis x tip x execution
// outcome, every case through the real DeliverTx on a branch, judged by math/big reference
// arithmetic and by hand-computed (yellow-paper) gas constants for the fixed programs.
package c07

import (
	"fmt"
	"math/big"
	"strings"
	"time"

	sdkmath "cosmossdk.io/math"
	codectypes "github.com/cosmos/cosmos-sdk/codec/types"
	sdk "github.com/cosmos/cosmos-sdk/types"
	authtypes "github.com/cosmos/cosmos-sdk/x/auth/types"
	banktypes "github.com/cosmos/cosmos-sdk/x/bank/types"
	"github.com/ethereum/go-ethereum/common"
	ethtypes "github.com/ethereum/go-ethereum/core/types"

	haqqtypes "github.com/haqq-network/haqq/types"
	feemarkettypes "github.com/haqq-network/haqq/x/feemarket/types"

	"verif/harness/engine"
	"verif/harness/evmasm"
	"verif/harness/world"
)

const Prop = "C07"

type fx struct {
	name   string
	noBase bool
	base   int64
	mgp    string
	mult   string
	enable int64 // feemarket EnableHeight (0: adjustment running from the start)
}

func fixtures(tier string) []fx {
	out := []fx{
		{"nobase-mgp0-m0.5", true, 0, "0", "0.5", 0},
		{"nobase-mgp1e9-m0.5", true, 0, "1000000000", "0.5", 0},
		{"base1e9-mgp0-m0.5", false, 1000000000, "0", "0.5", 0},
		{"base1e9-mgp5e8-m0", false, 1000000000, "500000000", "0", 0},
		{"base1e9-mgp1e9-m1", false, 1000000000, "1000000000", "1", 0},
		{"base7-mgp0-m0.5", false, 7, "0", "0.5", 0},
		{"base1e9-mgp1.5-m0.5", false, 1000000000, "1.5", "0.5", 0},
		{"nobase-mgp12.25-m0.5", true, 0, "12.25", "0.5", 0},
		// the base-fee adjustment has not started yet (EnableHeight ahead): the configured base fee is
		// the current one and is enforced all the same
		{"base1e9-mgp0-m0.5-enable@1000", false, 1000000000, "0", "0.5", 1000},
	}
	if tier == "thorough" {
		out = append(out, fx{"base1e9-mgp2e9-m0.5", false, 1000000000, "2000000000", "0.5", 0},
			fx{"nobase-mgp0.3-m0.999", true, 0, "0.3", "0.999999999999999999", 0},
			fx{"base3-mgp2.5-m0.25", false, 3, "2.5", "0.25", 0})
	}
	return out
}

type world7 struct {
	f       fx
	w       *world.World
	S, R    int
	clearC  common.Address
	revertC common.Address
	oogC    common.Address
	feeCol  sdk.AccAddress
}

func newWorld(f fx) *world7 {
	fm := feemarkettypes.DefaultParams()
	fm.NoBaseFee = f.noBase
	fm.EnableHeight = f.enable
	fm.BaseFee = sdkmath.NewInt(f.base)
	fm.MinGasPrice = sdk.MustNewDecFromStr(f.mgp)
	fm.MinGasMultiplier = sdk.MustNewDecFromStr(f.mult)
	w := world.New(world.Options{NumAccounts: 4, FeeMarket: &fm, MaxGas: 100000000})
	x := &world7{f: f, w: w, S: 1, R: 2}
	ctx := w.Ctx()
	x.clearC, x.revertC, x.oogC = world.ContractAddr(1), world.ContractAddr(2), world.ContractAddr(3)
	w.InstallContract(ctx, x.clearC, evmasm.New().SStore(0, 0).Stop().Bytes(), map[uint64]uint64{0: 1})
	w.InstallContract(ctx, x.revertC, evmasm.New().Revert().Bytes(), nil)
	w.InstallContract(ctx, x.oogC, evmasm.New().Label("l").PushLabel("l").Op(evmasm.JUMP).Bytes(), nil)
	x.feeCol = authtypes.NewModuleAddress(authtypes.FeeCollectorName)
	return x
}

type outcome struct {
	name string
	to   func(x *world7) common.Address
	val  int64
	// gEVM: EVM gas after refunds for this program (yellow paper), excluding access-list cost;
	// -1: consumes the whole limit
	gEVM  int64
	fails bool
	// refund: gas given back at the end; the execution itself needs gEVM + refund to be available
	refund int64
}

var outcomes = []outcome{
	{"transfer", func(x *world7) common.Address { return x.w.Eth[x.R] }, 100, 21000, false, 0},
	// PUSH1 PUSH1 SSTORE(cold, 1->0): 3+3+2100+2900 = 5006 ; refund min(4800, 26006/5) = 4800
	{"sstore-clear-refund", func(x *world7) common.Address { return x.clearC }, 0, 21000 + 5006 - 4800, false, 4800},
	{"revert", func(x *world7) common.Address { return x.revertC }, 0, 21000 + 6, true, 0},
	{"out-of-gas", func(x *world7) common.Address { return x.oogC }, 0, -1, true, 0},
	// a transfer of (balance - 1): affordable on its own, not once the fee has been deducted; the
	// execution fails before any code runs and consumes the intrinsic gas only
	{"transfer-unaffordable", func(x *world7) common.Address { return x.w.Eth[x.R] }, -1, 21000, true, 0},
}

func ceilMul(d sdk.Dec, n uint64) *big.Int {
	return d.MulInt(sdkmath.NewIntFromUint64(n)).Ceil().RoundInt().BigInt()
}

func floorMul(d sdk.Dec, n uint64) uint64 {
	return d.MulInt(sdkmath.NewIntFromUint64(n)).TruncateInt().Uint64()
}

func (x *world7) bal(a sdk.AccAddress) *big.Int {
	return x.w.App.BankKeeper.GetBalance(x.w.Ctx(), a, world.Denom).Amount.BigInt()
}

func (x *world7) run(res *engine.Result, tier string, shard, n int, idx *int) {
	w := x.w
	ctx := w.Ctx()
	fmParams := w.App.FeeMarketKeeper.GetParams(ctx)
	// with NoBaseFee the EVM keeper reports a base fee of 0 (London rules stay active)
	base := big.NewInt(0)
	if !fmParams.NoBaseFee {
		base = fmParams.BaseFee.BigInt()
	}
	mgp := fmParams.MinGasPrice
	mult := fmParams.MinGasMultiplier
	floorP := mgp.Ceil().RoundInt().BigInt() // smallest integer price that meets the floor for every gas limit
	if base.Cmp(floorP) > 0 {
		floorP = new(big.Int).Set(base)
	}
	if floorP.Sign() == 0 {
		floorP = big.NewInt(2)
	}
	prices := []*big.Int{new(big.Int).Sub(floorP, big.NewInt(1)), floorP, new(big.Int).Add(floorP, big.NewInt(1)), new(big.Int).Mul(floorP, big.NewInt(10)), big.NewInt(0)}
	if base.Sign() > 0 && mgp.IsPositive() {
		prices = append(prices, mgp.TruncateInt().BigInt(), new(big.Int).Sub(base, big.NewInt(1)))
	}
	gases := []uint64{21000, 21001, 60000, 300000}
	if tier == "thorough" {
		gases = append(gases, 26006, 26007, 21206, 42000, 1000000)
	}
	nonce := w.App.AccountKeeper.GetAccount(ctx, w.Addrs[x.S]).GetSequence()

	viol := func(kind, oc, breach, what string, p []string, d map[string]any) {
		res.AddViolation(engine.Violation{Signature: fmt.Sprintf("C07|kind=%s|outcome=%s|breach=%s", kind, oc, breach), What: what, Fixture: x.f.name, Path: p, Detail: d})
	}

	// ---- Ethereum transactions
	for typ, kind := range []string{"eth-legacy", "eth-accesslist", "eth-dynamic"} {
		tips := []*big.Int{nil}
		for _, oc := range outcomes {
			for _, gas := range gases {
				for _, price := range prices {
					if typ == 2 {
						tips = []*big.Int{big.NewInt(0), big.NewInt(1), price}
					}
					for _, tip := range tips {
						*idx++
						if *idx%n != shard {
							continue
						}
						to := oc.to(x)
						spec := world.EthSpec{Type: typ, Nonce: nonce, Gas: gas, To: &to, Value: big.NewInt(oc.val), GasPrice: price, Cap: price, Tip: tip}
						if oc.val < 0 {
							// (only where the up-front fee is at least 2 base units; otherwise the value stays affordable)
							pe := new(big.Int).Set(price)
							if typ == 2 {
								if pe = new(big.Int).Add(base, tip); pe.Cmp(price) > 0 {
									pe = new(big.Int).Set(price)
								}
							}
							if new(big.Int).Mul(pe, new(big.Int).SetUint64(gas)).Cmp(big.NewInt(2)) < 0 {
								continue
							}
							spec.Value = new(big.Int).Sub(x.bal(w.Addrs[x.S]), big.NewInt(1))
						}
						alGas := int64(0)
						if typ == 1 {
							spec.AL = ethtypes.AccessList{{Address: w.Eth[3], StorageKeys: []common.Hash{{1}}}}
							alGas = 2400 + 1900
						}
						if typ == 2 && tip.Cmp(price) > 0 {
							continue
						}
						bz, err := world.WrapEth(w.SignEth(w.Keys[x.S], spec))
						if err != nil {
							res.Outcomes["unbuildable"]++
							continue
						}
						p := []string{"fixture=" + x.f.name, fmt.Sprintf("%s %s gas=%d price=%s tip=%v", kind, oc.name, gas, price, tip)}
						restore := w.Branch()
						preS, preC, preR := x.bal(w.Addrs[x.S]), x.bal(x.feeCol), x.bal(w.Addrs[x.R])
						r := w.Deliver(bz)
						postS, postC, postR := x.bal(w.Addrs[x.S]), x.bal(x.feeCol), x.bal(w.Addrs[x.R])
						seqAfter := w.App.AccountKeeper.GetAccount(w.Ctx(), w.Addrs[x.S]).GetSequence()
						restore()
						res.Transitions++
						res.Evaluations++
						res.States[strings.Join(p, "|")] = 0
						paid := new(big.Int).Sub(preS, postS)
						got := new(big.Int).Sub(postC, preC)
						charged := seqAfter != nonce || paid.Sign() != 0
						// effective price
						peff := new(big.Int).Set(price)
						if typ == 2 {
							peff = new(big.Int).Add(base, tip)
							if peff.Cmp(price) > 0 {
								peff = new(big.Int).Set(price)
							}
						}
						d := map[string]any{"code": r.Code, "log": short(r.Log), "gas_used": r.GasUsed, "gas_wanted": r.GasWanted, "paid": paid.String(), "collector": got.String(), "peff": peff.String(), "base": fmt.Sprint(base), "mgp": mgp.String(), "mult": mult.String()}
						if !charged {
							res.Outcomes["eth:rejected"]++
							if got.Sign() != 0 {
								viol(kind, oc.name, "collector", "fee collector balance changed by a rejected transaction", p, d)
							}
							continue
						}
						// accepted into the block: floor rules
						effFee := new(big.Int).Mul(peff, new(big.Int).SetUint64(gas))
						if effFee.Cmp(ceilMul(mgp, gas)) < 0 {
							viol(kind, oc.name, "floor", "an Ethereum transaction was accepted with a fee below gasLimit x minGasPrice", p, d)
						}
						if price.Cmp(base) < 0 {
							viol(kind, oc.name, "basefee", "an Ethereum transaction was accepted with a fee cap below the base fee", p, d)
						}
						intrinsic := uint64(21000 + alGas)
						if gas < intrinsic {
							res.Outcomes["eth:below-intrinsic"]++
							continue
						}
						res.Outcomes["eth:executed:"+oc.name]++
						res.Nontrivial[strings.Join(p, "|")] = true
						// gas used
						g := uint64(oc.gEVM + alGas)
						// the refund comes at the end: the limit must cover the gas before refunds
						oog := oc.gEVM < 0 || uint64(oc.gEVM+oc.refund+alGas) > gas
						if oog {
							g = gas // ran out of gas: everything is consumed
						}
						want := g
						if m := floorMul(mult, gas); m > want {
							want = m
						}
						if want > gas {
							viol(kind, oc.name, "harness", "reference gasUsed exceeds the gas limit", p, d)
						}
						d["gas_used_want"] = want
						if uint64(r.GasUsed) != want {
							viol(kind, oc.name, "gasused", "reported gas used differs from max(EVM gas after refunds, minGasMultiplier x gasLimit)", p, d)
						}
						if uint64(r.GasUsed) > gas {
							viol(kind, oc.name, "gasused-over-limit", "gas used exceeds the gas limit", p, d)
						}
						if uint64(r.GasWanted) != gas {
							viol(kind, oc.name, "gaswanted", "reported gas wanted differs from the gas limit", p, d)
						}
						wantPay := new(big.Int).Mul(peff, new(big.Int).SetUint64(want))
						wantS := new(big.Int).Set(wantPay)
						failed := oc.fails || oog
						moved := new(big.Int).Sub(postR, preR)
						if !failed {
							wantS.Add(wantS, big.NewInt(oc.val))
							if moved.Cmp(big.NewInt(oc.val)) != 0 {
								viol(kind, oc.name, "value", "recipient did not receive exactly the value", p, d)
							}
						} else if moved.Sign() != 0 {
							viol(kind, oc.name, "value", "a failed execution moved value", p, d)
						}
						if paid.Cmp(wantS) != 0 {
							d["paid_want"] = wantS.String()
							viol(kind, oc.name, "sender", "sender's net payment differs from value + gasUsed x effectiveGasPrice", p, d)
						}
						if got.Cmp(wantPay) != 0 {
							d["collector_want"] = wantPay.String()
							viol(kind, oc.name, "collector", "fee collector did not receive exactly gasUsed x effectiveGasPrice", p, d)
						}
					}
				}
			}
		}
	}

	// ---- two Ethereum messages in one transaction, each with its own price
	for _, price := range prices {
		for _, price2 := range prices {
			*idx++
			if *idx%n != shard {
				continue
			}
			to1, to2 := w.Eth[x.R], x.clearC
			t1 := w.SignEth(w.Keys[x.S], world.EthSpec{Nonce: nonce, Gas: 30000, To: &to1, Value: big.NewInt(5), GasPrice: price})
			t2 := w.SignEth(w.Keys[x.S], world.EthSpec{Nonce: nonce + 1, Gas: 60000, To: &to2, GasPrice: price2})
			bz, err := world.WrapEth(t1, t2)
			if err != nil {
				continue
			}
			p := []string{"fixture=" + x.f.name, fmt.Sprintf("two-eth-msgs price=%s,%s", price, price2)}
			restore := w.Branch()
			preS, preC := x.bal(w.Addrs[x.S]), x.bal(x.feeCol)
			r := w.Deliver(bz)
			postS, postC := x.bal(w.Addrs[x.S]), x.bal(x.feeCol)
			restore()
			res.Transitions++
			res.Evaluations++
			paid, got := new(big.Int).Sub(preS, postS), new(big.Int).Sub(postC, preC)
			if paid.Sign() == 0 {
				res.Outcomes["eth2:rejected"]++
				continue
			}
			res.Outcomes["eth2:executed"]++
			g1 := uint64(21000)
			if m := floorMul(mult, 30000); m > g1 {
				g1 = m
			}
			g2 := uint64(21000 + 5006 - 4800)
			if m := floorMul(mult, 60000); m > g2 {
				g2 = m
			}
			d := map[string]any{"code": r.Code, "gas_used": r.GasUsed, "paid": paid.String(), "collector": got.String(), "want_gas": g1 + g2, "base": fmt.Sprint(base), "mgp": mgp.String()}
			wantPay := new(big.Int).Add(new(big.Int).Mul(price, new(big.Int).SetUint64(g1)), new(big.Int).Mul(price2, new(big.Int).SetUint64(g2)))
			if uint64(r.GasUsed) != g1+g2 {
				viol("eth-multi", "two-msgs", "gasused", "gas used of a two-message Ethereum transaction differs from the sum of the per-message figures", p, d)
			}
			if got.Cmp(wantPay) != 0 || paid.Cmp(new(big.Int).Add(wantPay, big.NewInt(5))) != 0 {
				d["want_pay"] = wantPay.String()
				viol("eth-multi", "two-msgs", "sender", "payment of a two-message Ethereum transaction differs from the sum of gasUsed x price of its messages", p, d)
			}
			// the floor and the base fee bind every message on its own
			if new(big.Int).Mul(price, big.NewInt(30000)).Cmp(ceilMul(mgp, 30000)) < 0 || new(big.Int).Mul(price2, big.NewInt(60000)).Cmp(ceilMul(mgp, 60000)) < 0 {
				viol("eth-multi", "two-msgs", "floor", "a message of a two-message Ethereum transaction was accepted below gasLimit x minGasPrice", p, d)
			}
			if price.Cmp(base) < 0 || price2.Cmp(base) < 0 {
				viol("eth-multi", "two-msgs", "basefee", "a message of a two-message Ethereum transaction was accepted with a price below the base fee", p, d)
			}
		}
	}

	// ---- Cosmos transactions
	for _, kind := range []string{"cosmos", "cosmos-dynfee"} {
		for _, gas := range []uint64{100000, 200001} {
			// beside the price grid: the exact floor ceil(gas x minGasPrice) and its neighbours (for a
			// fractional minimum gas price no integer price x gas lands there)
			pricesC := append(append([]*big.Int{}, prices...), nil)
			for _, price := range pricesC {
				for _, adj := range []int64{0, -1, 1} { // fee = price*gas + adj: probes the ceil() of the floor
					tipsC := []*big.Int{nil}
					if kind == "cosmos-dynfee" {
						tipsC = []*big.Int{big.NewInt(0), big.NewInt(1), big.NewInt(1 << 40)}
					}
					for _, tip := range tipsC {
						*idx++
						if *idx%n != shard {
							continue
						}
						var fee *big.Int
						if price == nil {
							fee = ceilMul(mgp, gas)
						} else {
							fee = new(big.Int).Mul(price, new(big.Int).SetUint64(gas))
						}
						fee.Add(fee, big.NewInt(adj))
						if fee.Sign() < 0 {
							continue
						}
						spec := world.CosmosSpec{Key: w.Keys[x.S], Gas: gas,
							Msgs: []sdk.Msg{banktypes.NewMsgSend(w.Addrs[x.S], w.Addrs[x.R], sdk.NewCoins(sdk.NewInt64Coin(world.Denom, 100)))}}
						if fee.Sign() > 0 {
							spec.Fee = sdk.NewCoins(sdk.NewCoin(world.Denom, sdkmath.NewIntFromBigInt(fee)))
						}
						if tip != nil {
							spec.ExtOpts = []*codectypes.Any{world.MustAny(&haqqtypes.ExtensionOptionDynamicFeeTx{MaxPriorityPrice: sdkmath.NewIntFromBigInt(tip)})}
						}
						bz, err := w.CosmosTx(ctx, spec)
						if err != nil {
							res.Outcomes["unbuildable"]++
							continue
						}
						p := []string{"fixture=" + x.f.name, fmt.Sprintf("%s gas=%d fee=%s tip=%v", kind, gas, fee, tip)}
						restore := w.Branch()
						preS, preC := x.bal(w.Addrs[x.S]), x.bal(x.feeCol)
						r := w.Deliver(bz)
						postS, postC := x.bal(w.Addrs[x.S]), x.bal(x.feeCol)
						restore()
						res.Transitions++
						res.Evaluations++
						res.States[strings.Join(p, "|")] = 0
						paid, got := new(big.Int).Sub(preS, postS), new(big.Int).Sub(postC, preC)
						d := map[string]any{"code": r.Code, "log": short(r.Log), "paid": paid.String(), "collector": got.String(), "fee": fee.String(), "base": fmt.Sprint(base), "mgp": mgp.String()}
						if r.Code != 0 && paid.Sign() == 0 {
							res.Outcomes["cosmos:rejected"]++
							continue
						}
						res.Outcomes["cosmos:accepted"]++
						res.Nontrivial[strings.Join(p, "|")] = true
						if fee.Cmp(ceilMul(mgp, gas)) < 0 {
							viol(kind, "send", "floor", "a Cosmos transaction was accepted with a fee below gasLimit x minGasPrice", p, d)
						}
						paidFee := new(big.Int).Set(paid)
						if r.Code == 0 {
							paidFee.Sub(paidFee, big.NewInt(100))
						}
						if paidFee.Cmp(fee) > 0 {
							viol(kind, "send", "overcharge", "more than the declared fee was deducted", p, d)
						}
						if got.Cmp(paidFee) != 0 {
							viol(kind, "send", "collector", "fee collector did not receive exactly what the sender paid as fee", p, d)
						}
						{
							feeCap := new(big.Int).Div(fee, new(big.Int).SetUint64(gas))
							if feeCap.Cmp(base) < 0 {
								viol(kind, "send", "basefee", "a Cosmos transaction was accepted with a gas price below the base fee", p, d)
							}
						}
						if paidFee.Cmp(ceilMul(mgp, gas)) < 0 {
							res.Observe("Cosmos route: the dynamic fee checker deducts the effective fee (baseFee+tip) x gas, which can be below gasLimit x minGasPrice when the declared fee is not (statement ambiguous: declared fee is checked; recorded as observation)")
						}
					}
				}
			}
		}
	}
}

func short(s string) string {
	if len(s) > 200 {
		return s[:200]
	}
	return s
}

func Worker(shard, n int, tier string) *engine.Result {
	res := engine.NewResult(Prop)
	idx := 0
	for _, f := range fixtures(tier) {
		x := newWorld(f)
		x.run(res, tier, shard, n, &idx)
	}
	return res
}

func Run(tier string) int {
	start := time.Now()
	res := engine.RunSharded(Prop, tier, 16, Worker)
	res.TracesImpl = res.Evaluations
	res.Sample(map[string]any{"case": []string{"fixture=base1e9-mgp5e8-m0", "eth-dynamic sstore-clear-refund gas=60000 price=1000000001 tip=1"}})
	if res.Outcomes["eth:executed:transfer"] == 0 || res.Outcomes["cosmos:accepted"] == 0 || res.Outcomes["eth:rejected"] == 0 {
		res.HarnessErr = "vacuous: some class of transactions was never accepted / rejected"
	}
	return engine.Finish(res, engine.Meta{
		Property: Prop, Tier: tier, Level: "model_checking", Start: start,
		Rule: "full grid: parameter fixtures (base fee disabled/7/1e9, min gas price 0/below/equal/fractional, multiplier 0/0.5/1) x {legacy, access-list, dynamic-fee, 2-message eth, Cosmos, Cosmos+DynamicFee option} x gas limits x price axis around the floor x tips x {transfer, refund-earning SSTORE clear, revert, out of gas, transfer not affordable after the fee}; every case through the real DeliverTx; non-trivial = transaction that entered the block",
		Assumptions: []string{
			"EVM gas of the fixed programs is a hand-computed constant (21000 transfer; +5006-4800 for the cold SSTORE clear with refund; +6 for PUSH PUSH REVERT; whole limit for the loop; +2400+1900 for the access list)",
			"'fee' in the acceptance clause is the fee the transaction carries: declared fee (Cosmos) / effective fee (eth); deducted-below-floor on the Cosmos route is an observation",
			"DeliverTx only; CheckTx-only mempool rules (validator min gas prices, intrinsic gas) are out of scope",
		},
	})
}
