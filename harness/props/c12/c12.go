// Package c12: UC DAO ledger — shares always add up to the pooled funds.
//
// Explicit-state search (E1) over the real ucdao msg server on branches of the real deliver
// state, digest dedup over {ucdao, bank}, lock-step ledger-map reference model.
package c12

import (
	"fmt"
	"sort"
	"strings"
	"time"

	sdkmath "cosmossdk.io/math"
	"github.com/cosmos/cosmos-sdk/store/prefix"
	sdk "github.com/cosmos/cosmos-sdk/types"
	authtypes "github.com/cosmos/cosmos-sdk/x/auth/types"
	banktypes "github.com/cosmos/cosmos-sdk/x/bank/types"

	erc20types "github.com/haqq-network/haqq/x/erc20/types"
	ucdaokeeper "github.com/haqq-network/haqq/x/ucdao/keeper"
	ucdaotypes "github.com/haqq-network/haqq/x/ucdao/types"

	"verif/harness/engine"
	"verif/harness/world"
)

const (
	Prop   = "C12"
	liquid = "aLIQUID99" // sorts last among the denominations of the wide genesis below
	bad    = "atest"
)

var names = []string{"A", "B", "C"}

const wideGenesis = "genesis(balances,total,101 denominations)"

type ledger map[string]map[string]sdkmath.Int // account name -> denom -> amount

func (l ledger) get(a, d string) sdkmath.Int {
	if m, ok := l[a]; ok {
		if v, ok := m[d]; ok {
			return v
		}
	}
	return sdkmath.ZeroInt()
}

func (l ledger) set(a, d string, v sdkmath.Int) {
	if l[a] == nil {
		l[a] = map[string]sdkmath.Int{}
	}
	if v.IsZero() {
		delete(l[a], d)
		return
	}
	l[a][d] = v
}

func (l ledger) clone() ledger {
	o := ledger{}
	for a, m := range l {
		for d, v := range m {
			o.set(a, d, v)
		}
	}
	return o
}

func (l ledger) String() string {
	var parts []string
	for _, a := range names {
		var ds []string
		for d, v := range l[a] {
			ds = append(ds, v.String()+d)
		}
		sort.Strings(ds)
		parts = append(parts, a+":"+strings.Join(ds, ","))
	}
	return strings.Join(parts, " ")
}

// wideDenoms: the other liquid denominations a long-lived DAO pools (more than one page of them)
func wideDenoms() sdk.Coins {
	out := sdk.NewCoins()
	for i := 0; i < 100; i++ {
		if dn := fmt.Sprintf("aLIQUID%d", i); dn != liquid {
			out = out.Add(sdk.NewInt64Coin(dn, 7))
		}
	}
	return out
}

func newWorld() *world.World {
	return world.New(world.Options{
		NumAccounts: 5,
		ExtraCoins:  sdk.NewCoins(sdk.NewInt64Coin(liquid, 1000), sdk.NewInt64Coin(bad, 1000)),
	})
}

type driver struct {
	w    *world.World
	acct map[string]sdk.AccAddress
	mod  sdk.AccAddress
	// wideDepth: number of operations explored below the wide start state
	wideDepth int
}

func newDriver() *driver {
	w := newWorld()
	d := &driver{w: w, acct: map[string]sdk.AccAddress{}, wideDepth: 2}
	for i, n := range names {
		d.acct[n] = w.Addrs[i+1] // account 0 is the genesis delegator
	}
	d.mod = authtypes.NewModuleAddress(ucdaotypes.ModuleName)
	return d
}

// readLedger reads the implementation's ledger through the keeper's public iterator; any holder
// outside the fixture accounts is reported under its bech32 name.
func (d *driver) readLedger(ctx sdk.Context) ledger {
	l := ledger{}
	d.w.App.DaoKeeper.IterateAllBalances(ctx, func(addr sdk.AccAddress, c sdk.Coin) bool {
		l.set(d.name(addr), c.Denom, l.get(d.name(addr), c.Denom).Add(c.Amount))
		return false
	})
	return l
}

func (d *driver) name(a sdk.AccAddress) string {
	for n, x := range d.acct {
		if x.Equals(a) {
			return n
		}
	}
	return a.String()
}

func coinsStr(c sdk.Coins) string { return strings.ReplaceAll(c.String(), ",", "+") }

type opKind struct {
	kind     string // fund | all | ratio | amount | banksend | toggle
	x, y     string
	coins    sdk.Coins
	ratio    sdk.Dec
	amtClass string
}

// genesisOps are the start states: the ledger as it is after chain start with an empty DAO, or as
// the module's InitGenesis leaves it for a genesis that lists balances - with the total given, and
// with the total omitted (which the genesis format allows: "it will be calculated").
func (d *driver) genesisOps(w *world.World) []engine.Op {
	imp := func(withTotal, wideToo bool) func(w *world.World, p []string, res *engine.Result) string {
		return func(w *world.World, p []string, res *engine.Result) string {
			ctx := w.Ctx()
			bal := map[string]sdk.Coins{
				names[0]: sdk.NewCoins(sdk.NewInt64Coin(world.Denom, 3), sdk.NewInt64Coin(liquid, 2)),
				names[1]: sdk.NewCoins(sdk.NewInt64Coin(world.Denom, 5)),
			}
			gs := ucdaotypes.GenesisState{Params: w.App.DaoKeeper.ExportGenesis(ctx).Params}
			total := sdk.NewCoins()
			for _, n := range []string{names[0], names[1]} {
				if err := w.App.BankKeeper.SendCoinsFromAccountToModule(ctx, d.acct[n], ucdaotypes.ModuleName, bal[n]); err != nil {
					panic(err)
				}
				gs.Balances = append(gs.Balances, ucdaotypes.Balance{Address: d.acct[n].String(), Coins: bal[n]})
				total = total.Add(bal[n]...)
			}
			if withTotal && wideToo {
				// ... and a holder outside the fixture accounts with 99 further denominations: the recorded
				// totals span more than one page, the alphabet's liquid denomination is the last of them
				wide := wideDenoms()
				if err := w.App.BankKeeper.MintCoins(ctx, erc20types.ModuleName, wide); err != nil {
					panic(err)
				}
				if err := w.App.BankKeeper.SendCoinsFromModuleToModule(ctx, erc20types.ModuleName, ucdaotypes.ModuleName, wide); err != nil {
					panic(err)
				}
				gs.Balances = append(gs.Balances, ucdaotypes.Balance{Address: w.Addrs[4].String(), Coins: wide})
				total = total.Add(wide...)
			}
			if withTotal {
				gs.TotalBalance = total
			}
			w.App.DaoKeeper.InitGenesis(ctx, &gs)
			return "ok"
		}
	}
	return []engine.Op{
		{Name: "genesis(empty)", Apply: func(w *world.World, p []string, res *engine.Result) string { return "ok" }},
		{Name: "genesis(balances,total)", Apply: imp(true, false)},
		{Name: "genesis(balances,total-omitted)", Apply: imp(false, false)},
		{Name: wideGenesis, Apply: imp(true, true)},
	}
}

func (d *driver) ops(w *world.World, depth int, path []string) []engine.Op {
	if depth == 0 {
		return d.genesisOps(w)
	}
	// every keeper call is quadratic in the number of pooled denominations: the wide start state is
	// explored two operations deep (thorough: three)
	if len(path) > 0 && path[0] == wideGenesis && depth > d.wideDepth {
		return nil
	}
	var out []engine.Op
	add := func(name string, k opKind) {
		out = append(out, engine.Op{Name: name, Apply: func(w *world.World, p []string, res *engine.Result) string {
			return d.apply(k, p, res)
		}})
	}
	fundSets := []sdk.Coins{
		sdk.NewCoins(sdk.NewInt64Coin(world.Denom, 3)),
		sdk.NewCoins(sdk.NewInt64Coin(liquid, 2)),
		sdk.NewCoins(sdk.NewInt64Coin(world.Denom, 3), sdk.NewInt64Coin(liquid, 2)),
	}
	for _, x := range names {
		for _, c := range fundSets {
			add(fmt.Sprintf("fund(%s,%s)", x, coinsStr(c)), opKind{kind: "fund", x: x, coins: c})
		}
	}
	for _, x := range names {
		for _, y := range names {
			add(fmt.Sprintf("all(%s>%s)", x, y), opKind{kind: "all", x: x, y: y})
		}
	}
	ratios := []string{"0.5", "1.0", "0.000000000000000001", "0.999999999999999999"}
	for _, r := range ratios {
		for _, x := range names {
			for _, y := range names {
				add(fmt.Sprintf("ratio(%s>%s,%s)", x, y, r), opKind{kind: "ratio", x: x, y: y, ratio: sdk.MustNewDecFromStr(r)})
			}
		}
	}
	for _, cls := range []string{"1", "bal", "bal+1", "1liq", "1+1liq", "dup", "unsorted", "zero", "empty"} {
		for _, x := range names {
			for _, y := range names {
				add(fmt.Sprintf("amount(%s>%s,%s)", x, y, cls), opKind{kind: "amount", x: x, y: y, amtClass: cls})
			}
		}
	}
	add("fund(A,dup)", opKind{kind: "fund", x: "A", coins: sdk.Coins{sdk.NewInt64Coin(world.Denom, 1), sdk.NewInt64Coin(world.Denom, 1)}})
	add("fund(A,1000atest)", opKind{kind: "fund", x: "A", coins: sdk.NewCoins(sdk.NewInt64Coin(bad, 1000))})
	add("fund(A,3aISLM+1atest)", opKind{kind: "fund", x: "A", coins: sdk.NewCoins(sdk.NewInt64Coin(world.Denom, 3), sdk.NewInt64Coin(bad, 1))})
	add("banksend(A>module,1)", opKind{kind: "banksend", x: "A"})
	add("toggle", opKind{kind: "toggle"})
	return out
}

func (d *driver) apply(k opKind, path []string, res *engine.Result) string {
	w := d.w
	ctx := w.Ctx()
	dk := w.App.DaoKeeper.(ucdaokeeper.BaseKeeper)
	pre := d.readLedger(ctx)
	preTotal := dk.GetTotalBalance(ctx)
	preBank := map[string]sdk.Coins{}
	for _, n := range names {
		preBank[n] = w.App.BankKeeper.GetAllBalances(ctx, d.acct[n])
	}
	preMod := w.App.BankKeeper.GetAllBalances(ctx, d.mod)
	enabled := dk.IsModuleEnabled(ctx)

	viol := func(breach, what string, detail map[string]any) {
		self := "n"
		if k.x == k.y && k.y != "" {
			self = "y"
		}
		res.AddViolation(engine.Violation{
			Signature: fmt.Sprintf("C12|op=%s|self=%s|breach=%s", k.kind, self, breach),
			What:      what, Path: path, Detail: detail,
		})
	}

	var err error
	var moved sdk.Coins // model: coins moved x -> y (transfer kinds)
	switch k.kind {
	case "fund":
		_, err = w.RunMsg(ctx, ucdaotypes.NewMsgFund(k.coins, d.acct[k.x]))
	case "all":
		moved = coinsOf(pre, k.x)
		_, err = w.RunMsg(ctx, ucdaotypes.NewMsgTransferOwnership(d.acct[k.x], d.acct[k.y]))
	case "ratio":
		for _, c := range coinsOf(pre, k.x) {
			moved = append(moved, sdk.NewCoin(c.Denom, sdk.NewDecFromInt(c.Amount).Mul(k.ratio).TruncateInt()))
		}
		_, err = w.RunMsg(ctx, ucdaotypes.NewMsgTransferOwnershipWithRatio(d.acct[k.x], d.acct[k.y], k.ratio))
	case "amount":
		bal := pre.get(k.x, world.Denom)
		switch k.amtClass {
		case "1":
			moved = sdk.NewCoins(sdk.NewInt64Coin(world.Denom, 1))
		case "bal":
			if bal.IsZero() {
				return "skip"
			}
			moved = sdk.NewCoins(sdk.NewCoin(world.Denom, bal))
		case "bal+1":
			moved = sdk.NewCoins(sdk.NewCoin(world.Denom, bal.AddRaw(1)))
		case "1liq":
			moved = sdk.NewCoins(sdk.NewInt64Coin(liquid, 1))
		case "1+1liq":
			moved = sdk.NewCoins(sdk.NewInt64Coin(world.Denom, 1), sdk.NewInt64Coin(liquid, 1))
		// malformed coin lists (hand-built, as a client can send them): if accepted, the stated
		// amount is the sum of the listed coins
		case "dup":
			moved = sdk.Coins{sdk.NewInt64Coin(world.Denom, 1), sdk.NewInt64Coin(world.Denom, 1)}
		case "unsorted":
			moved = sdk.Coins{sdk.NewInt64Coin(liquid, 1), sdk.NewInt64Coin(world.Denom, 1)}
		case "zero":
			moved = sdk.Coins{sdk.NewInt64Coin(world.Denom, 0)}
		case "empty":
			moved = sdk.Coins{}
		}
		_, err = w.RunMsg(ctx, ucdaotypes.NewMsgTransferOwnershipWithAmount(d.acct[k.x], d.acct[k.y], moved))
	case "banksend":
		_, err = w.RunMsg(ctx, banktypes.NewMsgSend(d.acct[k.x], d.mod, sdk.NewCoins(sdk.NewInt64Coin(world.Denom, 1))))
		if err == nil {
			viol("module-send", "a plain bank send to the DAO module account succeeded", nil)
		}
	case "toggle":
		p := dk.GetParams(ctx)
		p.EnableDao = !p.EnableDao
		if e := dk.SetParams(ctx, p); e != nil {
			return "err:setparams"
		}
		return "ok"
	}
	res.Evaluations++

	post := d.readLedger(ctx)
	postTotal := dk.GetTotalBalance(ctx)
	if err != nil {
		// failure: nothing may have changed (the explorer additionally compares digests)
		if post.String() != pre.String() || !postTotal.IsEqual(preTotal) {
			viol("failed-changed", "a failed message changed the ledger", map[string]any{"pre": pre.String(), "post": post.String(), "err": err.Error()})
		}
		return engine.ErrClass(err)
	}
	if !enabled && k.kind != "banksend" {
		viol("disabled", "a DAO message succeeded while the module is disabled", nil)
	}

	// reference model
	want := pre.clone()
	wantTotal := preTotal
	switch k.kind {
	case "fund":
		for _, c := range k.coins {
			want.set(k.x, c.Denom, want.get(k.x, c.Denom).Add(c.Amount))
		}
		norm := sdk.NewCoins()
		for _, c := range k.coins {
			norm = norm.Add(c)
		}
		wantTotal = wantTotal.Add(norm...)
		// bank side: depositor pays exactly the deposit, module receives it
		if got := w.App.BankKeeper.GetAllBalances(ctx, d.acct[k.x]); !got.IsEqual(preBank[k.x].Sub(norm...)) {
			viol("delta", "funding did not debit the depositor by exactly the deposit", map[string]any{"got": got.String()})
		}
		if got := w.App.BankKeeper.GetAllBalances(ctx, d.mod); !got.IsEqual(preMod.Add(norm...)) {
			viol("module", "funding did not credit the module account by exactly the deposit", map[string]any{"got": got.String()})
		}
	case "all", "ratio", "amount":
		for _, c := range moved {
			if c.Amount.IsZero() {
				continue
			}
			if want.get(k.x, c.Denom).LT(c.Amount) {
				viol("overdraw", "a transfer larger than the signer's share succeeded", map[string]any{"pre": pre.String(), "moved": moved.String()})
				return "ok"
			}
			want.set(k.x, c.Denom, want.get(k.x, c.Denom).Sub(c.Amount))
			want.set(k.y, c.Denom, want.get(k.y, c.Denom).Add(c.Amount))
		}
		res.Nontrivial[fmt.Sprintf("%s|%s|%v", k.kind, pre.String(), k.x == k.y)] = true
	}
	if post.String() != want.String() {
		breach := "delta"
		// classify: did the sum change?
		if sumStr(post) != sumStr(want) {
			breach = "destroyed-or-created"
		}
		viol(breach, "ledger after the message differs from the reference model",
			map[string]any{"pre": pre.String(), "got": post.String(), "want": want.String(), "moved": moved.String()})
	}
	if !postTotal.IsEqual(wantTotal) {
		viol("total", "recorded total differs from the reference model", map[string]any{"got": postTotal.String(), "want": wantTotal.String()})
	}
	return "ok"
}

func coinsOf(l ledger, a string) sdk.Coins {
	out := sdk.NewCoins()
	for d, v := range l[a] {
		out = out.Add(sdk.NewCoin(d, v))
	}
	return out
}

func sumStr(l ledger) string {
	s := sdk.NewCoins()
	for a := range l {
		s = s.Add(coinsOf(l, a)...)
	}
	return s.String()
}

// invariant: evaluated in every visited state.
func (d *driver) invariant(w *world.World, path []string, res *engine.Result) {
	ctx := w.Ctx()
	dk := w.App.DaoKeeper
	l := d.readLedger(ctx)
	viol := func(breach, what string, detail map[string]any) {
		last := "init"
		if len(path) > 0 {
			last = path[len(path)-1]
			if i := strings.IndexByte(last, '('); i > 0 {
				last = last[:i]
			}
		}
		res.AddViolation(engine.Violation{
			Signature: fmt.Sprintf("C12|inv|after=%s|breach=%s", last, breach), What: what, Path: path, Detail: detail})
	}
	sum := sdk.NewCoins()
	for a := range l {
		sum = sum.Add(coinsOf(l, a)...)
	}
	total := dk.GetTotalBalance(ctx)
	mod := w.App.BankKeeper.GetAllBalances(ctx, d.mod)
	if !sum.IsEqual(total) {
		viol("sum", "sum of holders' balances differs from the recorded total", map[string]any{"sum": sum.String(), "total": total.String(), "ledger": l.String()})
	}
	if !total.IsEqual(mod) {
		viol("module", "recorded total differs from the coins held by the module account", map[string]any{"total": total.String(), "module": mod.String()})
	}
	// holders index == accounts with non-zero balance
	store := ctx.KVStore(w.App.GetKey(ucdaotypes.StoreKey))
	holders := map[string]bool{}
	it := prefix.NewStore(store, ucdaotypes.HoldersPrefix).Iterator(nil, nil)
	for ; it.Valid(); it.Next() {
		a, err := ucdaotypes.AddressFromHoldersStore(it.Key())
		if err != nil {
			viol("index", "malformed holders key", nil)
			continue
		}
		holders[d.name(a)] = true
	}
	it.Close()
	nonzero := map[string]bool{}
	for a := range l {
		if !coinsOf(l, a).IsZero() {
			nonzero[a] = true
		}
	}
	if fmt.Sprint(keys(holders)) != fmt.Sprint(keys(nonzero)) {
		viol("index", "holders index differs from the set of accounts with a non-zero balance",
			map[string]any{"holders": keys(holders), "nonzero": keys(nonzero)})
	}
	// denom -> address reverse index
	for _, dn := range []string{world.Denom, liquid} {
		idx := map[string]bool{}
		it := prefix.NewStore(store, ucdaotypes.CreateDenomAddressPrefix(dn)).Iterator(nil, nil)
		for ; it.Valid(); it.Next() {
			k := it.Key()
			if len(k) > 0 && int(k[0]) == len(k)-1 {
				idx[d.name(sdk.AccAddress(k[1:]))] = true
			}
		}
		it.Close()
		have := map[string]bool{}
		for a := range l {
			if l.get(a, dn).IsPositive() {
				have[a] = true
			}
		}
		if fmt.Sprint(keys(idx)) != fmt.Sprint(keys(have)) {
			viol("denom-index", "denom->address index differs from balances", map[string]any{"denom": dn, "index": keys(idx), "have": keys(have)})
		}
	}
	// the public queries agree with the raw ledger
	for _, n := range names {
		q := dk.GetAccountBalances(ctx, d.acct[n])
		if !q.IsEqual(coinsOf(l, n)) {
			viol("query", "GetAccountBalances differs from the iterated ledger", nil)
		}
	}
}

func keys(m map[string]bool) []string {
	var out []string
	for k := range m {
		out = append(out, k)
	}
	sort.Strings(out)
	return out
}

func bounds(tier string) (depth int, deadline time.Duration) {
	if tier == "thorough" {
		return 5, 55 * time.Minute
	}
	return 3, 4 * time.Minute
}

func explorer(d *driver, res *engine.Result, tier string, shard, n int) *engine.Explorer {
	depth, dl := bounds(tier)
	return &engine.Explorer{
		W: d.w, Res: res, Stores: []string{"ucdao", "bank"}, Ops: d.ops, Invariant: d.invariant,
		MaxDepth: depth + 1, ShardDepth: 1, Shard: shard, NShards: n, Deadline: time.Now().Add(dl), // +1: the genesis step
		FailedMustNotChange: func(op string) (string, bool) {
			k := op
			if i := strings.IndexByte(k, '('); i > 0 {
				k = k[:i]
			}
			return "C12|op=" + k + "|breach=failed-changed-state", true
		},
	}
}

// Worker explores one shard.
func Worker(shard, n int, tier string) *engine.Result {
	d := newDriver()
	if tier == "thorough" {
		d.wideDepth = 3
	}
	res := engine.NewResult(Prop)
	e := explorer(d, res, tier, shard, n)
	e.Run()
	if shard == 0 {
		res.Sample(map[string]any{"ops_after_genesis": len(d.ops(d.w, 1, nil)), "first_ops": opNames(d.ops(d.w, 1, nil), 8)})
	}
	return res
}

func opNames(ops []engine.Op, n int) []string {
	var out []string
	for i, o := range ops {
		if i >= n {
			break
		}
		out = append(out, o.Name)
	}
	return out
}

// Replay re-executes a path on a fresh fixture and returns the signatures observed.
func Replay(v engine.Violation) []string {
	d := newDriver()
	d.wideDepth = 99
	res := engine.NewResult(Prop)
	for i, name := range v.Path {
		var found *engine.Op
		for _, op := range d.ops(d.w, i, v.Path[:i]) {
			if op.Name == name {
				o := op
				found = &o
				break
			}
		}
		if found == nil {
			return []string{"replay: unknown op " + name}
		}
		func() {
			defer func() { _ = recover() }()
			found.Apply(d.w, v.Path[:i+1], res)
		}()
		p := v.Path[:i+1]
		engine.GuardInvariant(res, p, func() { d.invariant(d.w, p, res) })
	}
	var sigs []string
	for _, x := range res.Violations {
		sigs = append(sigs, x.Signature)
	}
	return sigs
}

func Run(tier string) int {
	start := time.Now()
	res := engine.RunSharded(Prop, tier, 16, Worker)
	depth, _ := bounds(tier)
	// traces validated: every explored transition is a model-vs-implementation comparison; in
	// addition the replay of each violation runs on a fresh app.
	res.TracesImpl = res.Evaluations
	d := newDriver()
	var alpha []string
	for _, o := range d.ops(d.w, 0, nil) {
		alpha = append(alpha, o.Name)
	}
	return engine.Finish(res, engine.Meta{
		Property: Prop, Tier: tier, Level: "model_checking", Start: start, Replayer: Replay,
		Rule:     "explicit-state DFS with digest dedup over {ucdao,bank} of all sequences <= depth over the alphabet (3 accounts incl. sender=recipient, 2 denoms) from 4 start states (empty, imported genesis with / without the total, and an imported genesis whose DAO pools 101 denominations - more than one query page - explored 2 (thorough 3) operations deep); a case is non-trivial when a transfer succeeded, distinct by (kind, pre-ledger, self)",
		Bounds:   map[string]any{"depth": depth, "accounts": 3, "denoms": 2, "shards": 16},
		Alphabet: alpha,
		Assumptions: []string{
			"messages run through the app's MsgServiceRouter on a cache context (baseapp.runMsgs semantics); ante handler not involved",
			"amount alphabet is small integers; ratios {1e-18, 0.5, 1-1e-18, 1}",
			"reference model: ledger map stepped from the pre-state of every transition",
		},
	})
}
