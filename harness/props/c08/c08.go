// Package c08: locked and unvested coins cannot leave a vesting account.
//
// E1: for each lockup/vesting schedule fixture, every sequence <= depth over spend attempts on
// every path (bank send / multi-send, EVM value transfer, contract-internal transfer, fee, DAO
// funding, governance deposit) with amounts {1, spendable, spendable+1, balance}, interleaved with
// delegations on three paths (message, grant, staking precompile), undelegation, unbonding
// completion, slashing, clawback and block-time jumps to every event time +-1.  All transactions go
// through the real DeliverTx.  Oracle: an independent step-function reference built from the grant
// parameters.
package c08

import (
	"encoding/base64"
	"fmt"
	"math/big"
	"strings"
	"time"

	sdkmath "cosmossdk.io/math"
	codectypes "github.com/cosmos/cosmos-sdk/codec/types"
	"github.com/cosmos/cosmos-sdk/crypto/keys/ed25519"
	sdk "github.com/cosmos/cosmos-sdk/types"
	sdkvesting "github.com/cosmos/cosmos-sdk/x/auth/vesting/types"
	"github.com/cosmos/cosmos-sdk/x/authz"
	banktypes "github.com/cosmos/cosmos-sdk/x/bank/types"
	govv1 "github.com/cosmos/cosmos-sdk/x/gov/types/v1"
	stakingtypes "github.com/cosmos/cosmos-sdk/x/staking/types"
	transfertypes "github.com/cosmos/ibc-go/v7/modules/apps/transfer/types"
	clienttypes "github.com/cosmos/ibc-go/v7/modules/core/02-client/types"
	"github.com/ethereum/go-ethereum/common"

	lvtypes "github.com/haqq-network/haqq/x/liquidvesting/types"
	ucdaotypes "github.com/haqq-network/haqq/x/ucdao/types"
	vtypes "github.com/haqq-network/haqq/x/vesting/types"

	"verif/harness/engine"
	"verif/harness/evmasm"
	"verif/harness/precomp"
	rm "verif/harness/refmodel"
	"verif/harness/world"
)

const Prop = "C08"

type schedule struct {
	name       string
	lock, vest []rm.Period
	startOff   int64 // start of the grant relative to the beginning of the exploration (negative: backdated)
}

func P(l, a int64) rm.Period { return rm.Period{Len: l, A: rm.One(world.Denom, a)} }

func schedules(tier string) []schedule {
	out := []schedule{
		{"lock[10:2000,10:2000]-vest[10:2000,10:2000]", []rm.Period{P(10, 2000), P(10, 2000)}, []rm.Period{P(10, 2000), P(10, 2000)}, 0},
		{"lock[20:4000]-vest[10:4000]", []rm.Period{P(20, 4000)}, []rm.Period{P(10, 4000)}, 0},
		{"lock[10:4000]-vest[20:1000,10:3000]", []rm.Period{P(10, 4000)}, []rm.Period{P(20, 1000), P(10, 3000)}, 0},
		// a window (t in (10,20)) in which some coins are vested but still locked while others are unvested
		{"lock[20:4000]-vest[10:2000,20:2000]", []rm.Period{P(20, 4000)}, []rm.Period{P(10, 2000), P(20, 2000)}, 0},
		// vesting runs ahead of a two-step lockup (grant backdated by 5 s: 3000 are vested from the start):
		// coins can be delegated before the first unlock, and after it 0 < unlocked < vested < original
		{"backdated5-lock[15:2000,20:2000]-vest[1:3000,40:1000]", []rm.Period{P(15, 2000), P(20, 2000)}, []rm.Period{P(1, 3000), P(40, 1000)}, -5},
	}
	if tier == "thorough" {
		out = append(out, schedule{"lock[10:1000,20:3000]-vest[10:4000]", []rm.Period{P(10, 1000), P(20, 3000)}, []rm.Period{P(10, 4000)}, 0},
			schedule{"nolock-vest[10:2000,10:2000]", nil, []rm.Period{P(10, 2000), P(10, 2000)}, 0})
	}
	return out
}

// model: the reference's picture of the vesting account.
type model struct {
	lock, vest rm.Sched
	delegated  sdkmath.Int // delegated by V and not yet returned
}

type driver struct {
	w          *world.World
	tier       string
	t0         int64
	sc         schedule
	models     []model
	last       string // the model after the latest operation (part of the state digest)
	abis       precomp.ABIs
	vKey       int
	V, F, R, G sdk.AccAddress
	fwd        common.Address
	free       int64
}

func toSDK(ps []rm.Period) sdkvesting.Periods {
	out := sdkvesting.Periods{}
	for _, p := range ps {
		c := sdk.NewCoins()
		for d, v := range p.A {
			c = c.Add(sdk.NewCoin(d, sdkmath.NewIntFromBigInt(v)))
		}
		out = append(out, sdkvesting.Period{Length: p.Len, Amount: c})
	}
	return out
}

const vKeyIdx = 40

func newDriver(tier string, sc schedule) *driver {
	w := world.New(world.Options{NumAccounts: 5, UnbondingTime: 15 * time.Second, FastGov: true})
	d := &driver{w: w, tier: tier, sc: sc, t0: w.Header.Time.Unix(), free: 500}
	d.abis = precomp.Load(w)
	d.F, d.R, d.G = w.Addrs[1], w.Addrs[2], w.Addrs[3]
	d.V = sdk.AccAddress(world.Key(vKeyIdx).PubKey().Address().Bytes())
	ctx := w.Ctx()
	start := d.t0 + sc.startOff
	total := rm.FromPeriods(start, sc.vest).Total()
	msg := vtypes.NewMsgCreateClawbackVestingAccount(d.F, d.V, time.Unix(start, 0).UTC(), toSDK(sc.lock), toSDK(sc.vest), false)
	if _, err := w.RunMsg(ctx, msg); err != nil {
		panic(err)
	}
	// free (non-vesting) coins on top
	if _, err := w.RunMsg(ctx, banktypes.NewMsgSend(d.F, d.V, sdk.NewCoins(sdk.NewInt64Coin(world.Denom, d.free)))); err != nil {
		panic(err)
	}
	// the account's pubkey gets stored with a first Cosmos transaction
	d.must(d.cosmos([]sdk.Msg{banktypes.NewMsgSend(d.V, d.R, sdk.NewCoins(sdk.NewInt64Coin(world.Denom, 1)))}, nil, vKeyIdx))
	d.free--
	// grant V -> G for delegation through authz
	exp := w.Header.Time.Add(time.Hour)
	a, _ := stakingtypes.NewStakeAuthorization([]sdk.ValAddress{w.ValAddr[0]}, nil, stakingtypes.AuthorizationType_AUTHORIZATION_TYPE_DELEGATE, nil)
	if err := w.App.AuthzKeeper.SaveGrant(w.Ctx(), d.G, d.V, a, &exp); err != nil {
		panic(err)
	}
	// a proposal in its deposit period
	prop, err := govv1.NewMsgSubmitProposal(nil, sdk.NewCoins(sdk.NewInt64Coin(world.Denom, 1)), d.F.String(), "ipfs://verif", "t", "s")
	if err != nil {
		panic(err)
	}
	if _, err := w.RunMsg(w.Ctx(), prop); err != nil {
		panic(err)
	}
	if err := w.OpenLocalhostChannels(w.Ctx()); err != nil {
		panic(err)
	}
	lp := w.App.LiquidVestingKeeper.GetParams(w.Ctx())
	lp.MinimumLiquidationAmount = sdkmath.NewInt(1)
	lp.EnableLiquidVesting = true
	if err := w.App.LiquidVestingKeeper.SetParams(w.Ctx(), lp); err != nil {
		panic(err)
	}
	// forwarding contract: sends its whole call value on to R
	d.fwd = world.ContractAddr(0x40)
	code := evmasm.New().PushU(0).PushU(0).PushU(0).PushU(0).Op(evmasm.CALLVALUE).PushAddr(common.BytesToAddress(d.R)).Op(evmasm.GAS).Op(evmasm.CALL).
		PushLabel("ok").Op(evmasm.JUMPI).Revert().Label("ok").Stop().Bytes()
	w.InstallContract(w.Ctx(), d.fwd, code, nil)
	lock := sc.lock
	if len(lock) == 0 {
		lock = []rm.Period{{Len: 0, A: total}}
	}
	d.models = []model{{lock: rm.FromPeriods(start, lock), vest: rm.FromPeriods(start, sc.vest), delegated: sdkmath.ZeroInt()}}
	return d
}

func (d *driver) must(bz []byte) {
	if r := d.w.Deliver(bz); r.Code != 0 {
		panic("fixture tx failed: " + r.Log)
	}
}

func (d *driver) cosmos(msgs []sdk.Msg, fee sdk.Coins, key int) []byte {
	bz, err := d.w.CosmosTx(d.w.Ctx(), world.CosmosSpec{Key: world.Key(key), Msgs: msgs, Gas: 2000000, Fee: fee})
	if err != nil {
		panic(err)
	}
	return bz
}

func (d *driver) cosmosG(msgs []sdk.Msg) []byte {
	bz, err := d.w.CosmosTx(d.w.Ctx(), world.CosmosSpec{Key: d.w.Keys[3], Msgs: msgs, Gas: 2000000})
	if err != nil {
		panic(err)
	}
	return bz
}

func (d *driver) eth(to common.Address, value *big.Int, data []byte) []byte {
	w := d.w
	nonce := w.App.AccountKeeper.GetAccount(w.Ctx(), d.V).GetSequence()
	bz, err := world.WrapEth(w.SignEth(world.Key(vKeyIdx), world.EthSpec{Nonce: nonce, Gas: 3000000, To: &to, Value: value, GasPrice: big.NewInt(0), Data: data}))
	if err != nil {
		panic(err)
	}
	return bz
}

func (d *driver) bal() sdkmath.Int {
	return d.w.App.BankKeeper.GetBalance(d.w.Ctx(), d.V, world.Denom).Amount
}

func (d *driver) now() int64 { return d.w.Header.Time.Unix() }

// lockedRef: max(orig - unlockedVested - tracked, unvested) from the reference schedules.
func (d *driver) lockedRef(m model, tracked sdkmath.Int) (locked, unvested sdkmath.Int) {
	t := d.now()
	orig := sdkmath.NewIntFromBigInt(m.vest.Total().Get(world.Denom))
	vested := sdkmath.NewIntFromBigInt(m.vest.Read(t).Get(world.Denom))
	unlocked := sdkmath.NewIntFromBigInt(m.lock.Read(t).Get(world.Denom))
	uv := sdkmath.MinInt(vested, unlocked)
	unvested = orig.Sub(vested)
	a := orig.Sub(uv).Sub(tracked)
	locked = sdkmath.MaxInt(a, unvested)
	if locked.IsNegative() {
		locked = sdkmath.ZeroInt()
	}
	return
}

func (d *driver) tracked(m model) (sdkmath.Int, bool) {
	acc, ok := d.w.App.AccountKeeper.GetAccount(d.w.Ctx(), d.V).(*vtypes.ClawbackVestingAccount)
	if !ok {
		return sdkmath.ZeroInt(), false
	}
	tr := acc.DelegatedFree.AmountOf(world.Denom).Add(acc.DelegatedVesting.AmountOf(world.Denom))
	return tr, true
}

func (d *driver) model(depth int) model { return d.models[depth] }
func (d *driver) setModel(depth int, m model) {
	for len(d.models) <= depth {
		d.models = append(d.models, model{})
	}
	d.models[depth] = m
	d.last = fmt.Sprintf("%v|%v|%s", m.lock, m.vest, m.delegated)
}

func (d *driver) viol(res *engine.Result, path, breach, what string, p []string, detail map[string]any) {
	if detail == nil {
		detail = map[string]any{}
	}
	detail["t_rel"] = d.now() - d.t0
	detail["schedule"] = d.sc.name
	res.AddViolation(engine.Violation{Signature: fmt.Sprintf("C08|path=%s|breach=%s", path, breach), What: what, Fixture: d.sc.name, Path: append([]string{"schedule=" + d.sc.name}, p...), Detail: detail})
}

// checkLocked is the state oracle evaluated after every successful non-delegation operation.
// pre is the balance before the operation: the rule is about coins LEAVING the account, so a step
// that did not lower the balance cannot break it (after a slash the account can legitimately hold
// less than its schedules lock, once a merge has re-based its delegation tracking).
func (d *driver) checkLocked(res *engine.Result, path string, m model, p []string, pre sdkmath.Int) {
	if !d.bal().LT(pre) {
		return
	}
	tr, isVesting := d.tracked(m)
	if !isVesting {
		// the account object is no longer a vesting account (converted): what the schedules lock is
		// still owed, with the reference's own delegation counter standing in for the tracked one
		tr = m.delegated
	}
	if tr.GT(m.delegated) {
		d.viol(res, path, "tracked-inflated", "the account tracks more delegated coins than it ever delegated and has not got back", p, map[string]any{"tracked": tr.String(), "delegated_ref": m.delegated.String()})
		tr = m.delegated
	}
	locked, unv := d.lockedRef(m, tr)
	b := d.bal()
	res.Evaluations++
	if b.LT(locked) {
		d.viol(res, path, "below-locked", "after a successful transaction the balance is below the locked amount max(original - unlockedVested - trackedDelegated, unvested)", p,
			map[string]any{"balance": b.String(), "locked_ref": locked.String(), "unvested_ref": unv.String(), "tracked": tr.String()})
	}
}

func (d *driver) ops(w *world.World, depth int, path []string) []engine.Op {
	var out []engine.Op
	add := func(name string, f func(p []string, res *engine.Result, m model) (string, model)) {
		out = append(out, engine.Op{Name: name, Apply: func(w *world.World, p []string, res *engine.Result) string {
			m := d.model(len(p) - 1)
			oc, nm := f(p, res, m)
			d.setModel(len(p), nm)
			return oc
		}})
	}
	amount := func(cls string, m model) sdkmath.Int {
		tr, _ := d.tracked(m)
		locked, _ := d.lockedRef(m, sdkmath.MinInt(tr, m.delegated))
		b := d.bal()
		sp := b.Sub(locked)
		if sp.IsNegative() {
			sp = sdkmath.ZeroInt()
		}
		switch cls {
		case "1":
			return sdkmath.NewInt(1)
		case "sp":
			return sp
		case "sp+1":
			return sp.AddRaw(1)
		default:
			return b
		}
	}
	classes := []string{"1", "sp", "sp+1", "bal"}
	type spend struct {
		name string
		tx   func(a sdkmath.Int) []byte
	}
	coin := func(a sdkmath.Int) sdk.Coins { return sdk.NewCoins(sdk.NewCoin(world.Denom, a)) }
	spends := []spend{
		{"send", func(a sdkmath.Int) []byte {
			return d.cosmos([]sdk.Msg{banktypes.NewMsgSend(d.V, d.R, coin(a))}, nil, vKeyIdx)
		}},
		{"multisend", func(a sdkmath.Int) []byte {
			return d.cosmos([]sdk.Msg{banktypes.NewMsgMultiSend([]banktypes.Input{banktypes.NewInput(d.V, coin(a))}, []banktypes.Output{banktypes.NewOutput(d.R, coin(a))})}, nil, vKeyIdx)
		}},
		{"eth-value", func(a sdkmath.Int) []byte { return d.eth(common.BytesToAddress(d.R), a.BigInt(), nil) }},
		{"eth-contract-forward", func(a sdkmath.Int) []byte { return d.eth(d.fwd, a.BigInt(), nil) }},
		{"fee", func(a sdkmath.Int) []byte {
			return d.cosmos([]sdk.Msg{banktypes.NewMsgSend(d.V, d.V, sdk.NewCoins(sdk.NewInt64Coin(world.Denom, 1)))}, coin(a), vKeyIdx)
		}},
		{"dao-fund", func(a sdkmath.Int) []byte {
			return d.cosmos([]sdk.Msg{ucdaotypes.NewMsgFund(coin(a), d.V)}, nil, vKeyIdx)
		}},
		{"gov-deposit", func(a sdkmath.Int) []byte {
			return d.cosmos([]sdk.Msg{govv1.NewMsgDeposit(d.V, 1, coin(a))}, nil, vKeyIdx)
		}},
		// bridging out: ICS-20 transfer by message and through the ICS-20 precompile (escrowed on channel-0)
		{"ibc-transfer", func(a sdkmath.Int) []byte {
			return d.cosmos([]sdk.Msg{transfertypes.NewMsgTransfer(world.IBCPort, world.IBCChannelA, sdk.NewCoin(world.Denom, a), d.V.String(), d.R.String(),
				clienttypes.NewHeight(3, 100000000), 0, "")}, nil, vKeyIdx)
		}},
		{"ics20-precompile", func(a sdkmath.Int) []byte {
			return d.eth(precomp.ICS20Addr, nil, precomp.MustPack(d.abis.ICS20, "transfer", world.IBCPort, world.IBCChannelA, world.Denom, a.BigInt(),
				common.BytesToAddress(d.V), d.R.String(), struct{ RevisionNumber, RevisionHeight uint64 }{3, 100000000}, uint64(0), ""))
		}},
	}
	for _, s := range spends {
		for _, cls := range classes {
			s, cls := s, cls
			add(fmt.Sprintf("%s(%s)", s.name, cls), func(p []string, res *engine.Result, m model) (string, model) {
				a := amount(cls, m)
				if !a.IsPositive() {
					return "skip", m
				}
				pre := d.bal()
				r := w.Deliver(s.tx(a))
				post := d.bal()
				if post.GTE(pre) && r.Code != 0 {
					res.Counters["spend|"+s.name+"|rejected"]++
					return "rejected", m
				}
				if post.LT(pre) {
					res.Counters["spend|"+s.name+"|moved"]++
				} else {
					res.Counters["spend|"+s.name+"|accepted-without-effect"]++
				}
				// something left the account (even a failed tx may have paid a fee)
				d.checkLocked(res, s.name, m, p, pre)
				if post.LT(pre) {
					res.Nontrivial[fmt.Sprintf("%s|%s|%s|%d", d.sc.name, s.name, cls, d.now()-d.t0)] = true
				}
				if r.Code != 0 {
					return "ok:charged-but-failed", m
				}
				return "ok", m
			})
		}
	}
	// delegations on three paths
	type dele struct {
		name string
		tx   func(a sdkmath.Int) []byte
	}
	v1 := w.ValAddr[0]
	dcoin := func(a sdkmath.Int) sdk.Coin { return sdk.NewCoin(world.Denom, a) }
	deles := []dele{
		{"delegate-msg", func(a sdkmath.Int) []byte {
			return d.cosmos([]sdk.Msg{stakingtypes.NewMsgDelegate(d.V, v1, dcoin(a))}, nil, vKeyIdx)
		}},
		{"delegate-authz", func(a sdkmath.Int) []byte {
			ex := authz.NewMsgExec(d.G, []sdk.Msg{stakingtypes.NewMsgDelegate(d.V, v1, dcoin(a))})
			return d.cosmosG([]sdk.Msg{&ex})
		}},
		{"delegate-precompile", func(a sdkmath.Int) []byte {
			return d.eth(precomp.StakingAddr, nil, precomp.MustPack(d.abis.Staking, "delegate", common.BytesToAddress(d.V), v1.String(), a.BigInt()))
		}},
	}
	for _, dl := range deles {
		for _, cls := range []string{"1", "max", "max+1"} {
			dl, cls := dl, cls
			add(fmt.Sprintf("%s(%s)", dl.name, cls), func(p []string, res *engine.Result, m model) (string, model) {
				t := d.now()
				orig := sdkmath.NewIntFromBigInt(m.vest.Total().Get(world.Denom))
				unv := orig.Sub(sdkmath.NewIntFromBigInt(m.vest.Read(t).Get(world.Denom)))
				pre := d.bal()
				maxD := pre.Sub(unv)
				if maxD.IsNegative() {
					maxD = sdkmath.ZeroInt()
				}
				a := sdkmath.NewInt(1)
				if cls == "max" {
					a = maxD
				} else if cls == "max+1" {
					a = maxD.AddRaw(1)
				}
				if !a.IsPositive() {
					return "skip", m
				}
				preDel := w.App.StakingKeeper.GetDelegatorBonded(w.Ctx(), d.V)
				w.Deliver(dl.tx(a))
				got := w.App.StakingKeeper.GetDelegatorBonded(w.Ctx(), d.V).Sub(preDel)
				res.Evaluations++
				if got.IsZero() {
					return "rejected", m
				}
				// the bonded value moved, so the message went through: it delegated exactly the amount asked
				// (the bonded value itself is share-rounded after a slash and is not used as the amount)
				if a.GT(maxD) {
					d.viol(res, dl.name, "unvested-delegated", "a delegation larger than balance minus unvested succeeded", p, map[string]any{"delegated": a.String(), "bonded_value_delta": got.String(), "max_ref": maxD.String(), "unvested_ref": unv.String()})
				}
				nm := m
				nm.delegated = m.delegated.Add(a)
				res.Nontrivial[fmt.Sprintf("%s|%s|%s|%d", d.sc.name, dl.name, cls, d.now()-d.t0)] = true
				return "ok", nm
			})
		}
	}
	// the vesting account creates a validator with a self-delegation: a delegation like any other
	{
		type descT struct{ Moniker, Identity, Website, SecurityContact, Details string }
		type commT struct{ Rate, MaxRate, MaxChangeRate *big.Int }
		dec := func(x string) *big.Int { return sdk.MustNewDecFromStr(x).BigInt() }
		pk := ed25519.GenPrivKeyFromSecret([]byte("verif-c08-validator")).PubKey()
		own := sdk.ValAddress(d.V)
		cvs := []dele{
			{"create-validator-msg", func(a sdkmath.Int) []byte {
				pkAny, err := codectypes.NewAnyWithValue(pk)
				if err != nil {
					panic(err)
				}
				return d.cosmos([]sdk.Msg{&stakingtypes.MsgCreateValidator{Description: stakingtypes.Description{Moniker: "verif"},
					Commission:        stakingtypes.CommissionRates{Rate: sdk.MustNewDecFromStr("0.10"), MaxRate: sdk.MustNewDecFromStr("0.20"), MaxChangeRate: sdk.MustNewDecFromStr("0.01")},
					MinSelfDelegation: sdkmath.NewInt(1), DelegatorAddress: d.V.String(), ValidatorAddress: own.String(), Pubkey: pkAny, Value: dcoin(a)}}, nil, vKeyIdx)
			}},
			{"create-validator-precompile", func(a sdkmath.Int) []byte {
				return d.eth(precomp.StakingAddr, nil, precomp.MustPack(d.abis.Staking, "createValidator", descT{Moniker: "verif"},
					commT{dec("0.10"), dec("0.20"), dec("0.01")}, big.NewInt(1), common.BytesToAddress(d.V), own.String(), base64.StdEncoding.EncodeToString(pk.Bytes()), a.BigInt()))
			}},
		}
		for _, dl := range cvs {
			for _, cls := range []string{"max", "max+1"} {
				dl, cls := dl, cls
				add(fmt.Sprintf("%s(%s)", dl.name, cls), func(p []string, res *engine.Result, m model) (string, model) {
					if _, found := w.App.StakingKeeper.GetValidator(w.Ctx(), own); found {
						return "skip", m
					}
					t := d.now()
					orig := sdkmath.NewIntFromBigInt(m.vest.Total().Get(world.Denom))
					unv := orig.Sub(sdkmath.NewIntFromBigInt(m.vest.Read(t).Get(world.Denom)))
					maxD := d.bal().Sub(unv)
					if maxD.IsNegative() {
						maxD = sdkmath.ZeroInt()
					}
					a := maxD
					if cls == "max+1" {
						a = maxD.AddRaw(1)
					}
					if !a.IsPositive() {
						return "skip", m
					}
					w.Deliver(dl.tx(a))
					res.Evaluations++
					if _, found := w.App.StakingKeeper.GetDelegation(w.Ctx(), d.V, own); !found {
						return "rejected", m
					}
					if a.GT(maxD) {
						d.viol(res, dl.name, "unvested-delegated", "a validator was created with a self-delegation larger than balance minus unvested", p, map[string]any{"delegated": a.String(), "max_ref": maxD.String(), "unvested_ref": unv.String()})
					}
					nm := m
					nm.delegated = m.delegated.Add(a)
					res.Nontrivial[fmt.Sprintf("%s|%s|%s|%d", d.sc.name, dl.name, cls, d.now()-d.t0)] = true
					return "ok", nm
				})
			}
		}
	}
	add("undelegate(all)", func(p []string, res *engine.Result, m model) (string, model) {
		bonded := w.App.StakingKeeper.GetDelegatorBonded(w.Ctx(), d.V)
		if !bonded.IsPositive() {
			return "skip", m
		}
		preB := d.bal()
		r := w.Deliver(d.cosmos([]sdk.Msg{stakingtypes.NewMsgUndelegate(d.V, v1, dcoin(bonded))}, nil, vKeyIdx))
		if r.Code != 0 {
			return "rejected", m
		}
		d.checkLocked(res, "undelegate", m, p, preB)
		return "ok", m
	})
	add("block(+5s)", func(p []string, res *engine.Result, m model) (string, model) {
		// what comes back from unbonding is read from the unbonding entries that mature (the balance
		// may also grow by a refunded governance deposit, which is not a returned delegation)
		ubd := func() sdkmath.Int {
			t := sdkmath.ZeroInt()
			for _, u := range w.App.StakingKeeper.GetUnbondingDelegations(w.Ctx(), d.V, 100) {
				for _, en := range u.Entries {
					t = t.Add(en.Balance)
				}
			}
			return t
		}
		pre := ubd()
		preB := d.bal()
		w.VirtualNextBlock(5*time.Second, nil, nil)
		back := pre.Sub(ubd())
		nm := m
		if back.IsPositive() {
			nm.delegated = m.delegated.Sub(back)
			if nm.delegated.IsNegative() {
				nm.delegated = sdkmath.ZeroInt()
			}
		}
		d.checkLocked(res, "block", nm, p, preB)
		return "ok", nm
	})
	add("slash(50%)", func(p []string, res *engine.Result, m model) (string, model) {
		ctx := w.Ctx()
		val, ok := w.App.StakingKeeper.GetValidator(ctx, v1)
		if !ok {
			return "skip", m
		}
		power := val.ConsensusPower(sdk.DefaultPowerReduction)
		preB := d.bal()
		w.App.StakingKeeper.Slash(ctx, w.ValCons[0], w.Header.Height, power, sdk.NewDecWithPrec(5, 1))
		d.checkLocked(res, "slash", m, p, preB)
		return "ok", m
	})
	// the account asks to become a plain account again (allowed only when nothing is unvested or locked)
	add("convertVestingAccount", func(p []string, res *engine.Result, m model) (string, model) {
		if _, isV := d.tracked(m); !isV {
			return "skip", m
		}
		preB := d.bal()
		r := w.Deliver(d.cosmos([]sdk.Msg{vtypes.NewMsgConvertVestingAccount(d.V)}, nil, vKeyIdx))
		if r.Code != 0 {
			return "rejected", m
		}
		t := d.now()
		orig := sdkmath.NewIntFromBigInt(m.vest.Total().Get(world.Denom))
		uv := sdkmath.MinInt(sdkmath.NewIntFromBigInt(m.vest.Read(t).Get(world.Denom)), sdkmath.NewIntFromBigInt(m.lock.Read(t).Get(world.Denom)))
		if uv.LT(orig) {
			d.viol(res, "convert-account", "converted-while-locked", "the vesting account was converted to a plain account while coins were still unvested or locked", p,
				map[string]any{"original": orig.String(), "unlocked_vested_ref": uv.String()})
		}
		d.checkLocked(res, "convert-account", m, p, preB)
		res.Nontrivial[fmt.Sprintf("%s|convert-account|%d", d.sc.name, d.now()-d.t0)] = true
		return "ok", m
	})
	// the funder adds a second, partly vested grant with automatic staking of its vested part
	add("grantWithStake(start-15s)", func(p []string, res *engine.Result, m model) (string, model) {
		if _, isV := d.tracked(m); !isV {
			return "skip", m
		}
		start := d.now() - 15
		ps := []rm.Period{P(10, 400), P(10, 400)}
		msg := vtypes.NewMsgConvertIntoVestingAccount(d.F, d.V, time.Unix(start, 0).UTC(), nil, toSDK(ps), true, true, v1)
		fbz, err := w.CosmosTx(w.Ctx(), world.CosmosSpec{Key: w.Keys[1], Msgs: []sdk.Msg{msg}, Gas: 3000000})
		if err != nil {
			panic(err)
		}
		pre := d.bal()
		r := w.Deliver(fbz)
		if r.Code != 0 {
			return "rejected", m
		}
		grant := sdkmath.NewInt(800)
		staked := grant.Sub(d.bal().Sub(pre))
		nm := m
		nm.vest = rm.Union(m.vest, rm.FromPeriods(start, ps))
		nm.lock = rm.Union(m.lock, rm.FromPeriods(start, []rm.Period{{Len: 0, A: rm.One(world.Denom, 800)}}))
		nm.delegated = m.delegated.Add(staked)
		t := d.now()
		unv := sdkmath.NewIntFromBigInt(nm.vest.Total().Get(world.Denom)).Sub(sdkmath.NewIntFromBigInt(nm.vest.Read(t).Get(world.Denom)))
		maxD := pre.Add(grant).Sub(unv)
		res.Evaluations++
		if staked.GT(maxD) {
			d.viol(res, "grant-with-stake", "unvested-delegated", "the automatic staking of a new grant delegated more than balance minus unvested", p,
				map[string]any{"delegated": staked.String(), "max_ref": maxD.String(), "unvested_ref": unv.String()})
		}
		// this transaction is (also) a staking delegation, which the balance rule exempts; and the merge
		// re-bases the account's delegation tracking on its actual bonded value, which after a slash
		// raises the locked amount above the balance without a single coin leaving.  What still holds:
		// the unvested coins are all in the account
		if b := d.bal(); b.LT(unv) {
			d.viol(res, "grant-with-stake", "below-unvested", "after a grant with automatic staking the balance is below the unvested amount", p,
				map[string]any{"balance": b.String(), "unvested_ref": unv.String()})
		}
		res.Nontrivial[fmt.Sprintf("%s|grant-with-stake|%d", d.sc.name, d.now()-d.t0)] = true
		return "ok", nm
	})
	// the funder merges a second grant whose lockup and vesting schedules differ: no lockup, all of it
	// vesting 30 s from now (a merge that mixed the two schedules up would make it vested at once)
	add("mergeGrant(no-lockup,vests+30s)", func(p []string, res *engine.Result, m model) (string, model) {
		if _, isV := d.tracked(m); !isV {
			return "skip", m
		}
		start := d.now()
		ps := []rm.Period{P(30, 600)}
		msg := vtypes.NewMsgCreateClawbackVestingAccount(d.F, d.V, time.Unix(start, 0).UTC(), nil, toSDK(ps), true)
		fbz, err := w.CosmosTx(w.Ctx(), world.CosmosSpec{Key: w.Keys[1], Msgs: []sdk.Msg{msg}, Gas: 3000000})
		if err != nil {
			panic(err)
		}
		pre := d.bal()
		r := w.Deliver(fbz)
		if r.Code != 0 {
			return "rejected", m
		}
		res.Evaluations++
		nm := m
		nm.vest = rm.Union(m.vest, rm.FromPeriods(start, ps))
		nm.lock = rm.Union(m.lock, rm.FromPeriods(start, []rm.Period{{Len: 0, A: rm.One(world.Denom, 600)}}))
		if got := d.bal().Sub(pre); !got.Equal(sdkmath.NewInt(600)) {
			d.viol(res, "merge-grant", "amount", "a merged grant did not add exactly its total to the account", p, map[string]any{"got": got.String()})
		}
		res.Nontrivial[fmt.Sprintf("%s|merge-grant|%d", d.sc.name, d.now()-d.t0)] = true
		return "ok", nm
	})
	// part of the locked (fully vested) coins is liquidated: they leave the account by design; what
	// stays must keep its original unlock time.  Modelled where exactly one lockup event is still to
	// come (the general split over several periods is C11's subject)
	add("liquidate(half-of-locked)", func(p []string, res *engine.Result, m model) (string, model) {
		if _, isV := d.tracked(m); !isV {
			return "skip", m
		}
		t := d.now()
		orig := sdkmath.NewIntFromBigInt(m.vest.Total().Get(world.Denom))
		vested := sdkmath.NewIntFromBigInt(m.vest.Read(t).Get(world.Denom))
		upcoming := 0
		for _, e := range m.lock.Events {
			if e.T > t {
				upcoming++
			}
		}
		stillLocked := orig.Sub(sdkmath.NewIntFromBigInt(m.lock.Read(t).Get(world.Denom)))
		l := stillLocked.QuoRaw(2)
		if !vested.Equal(orig) || upcoming != 1 || !l.IsPositive() || !m.delegated.IsZero() {
			return "skip", m
		}
		lbz, err := w.CosmosTx(w.Ctx(), world.CosmosSpec{Key: world.Key(vKeyIdx), Gas: 10000000, Msgs: []sdk.Msg{lvtypes.NewMsgLiquidate(d.V, d.V, sdk.NewCoin(world.Denom, l))}})
		if err != nil {
			panic(err)
		}
		r := w.Deliver(lbz)
		if r.Code != 0 {
			res.Counters["liquidate-rejected:"+engine.ErrClass(fmt.Errorf("%s", r.Log))]++
			return "rejected", m
		}
		nm := m
		cap := rm.One(world.Denom, orig.Sub(l).Int64())
		nm.vest = rm.CapSched(m.vest, cap)
		nm.lock = rm.CapSched(m.lock, cap)
		res.Nontrivial[fmt.Sprintf("%s|liquidate|%d", d.sc.name, d.now()-d.t0)] = true
		return "ok", nm
	})
	add("clawback", func(p []string, res *engine.Result, m model) (string, model) {
		fbz, err := w.CosmosTx(w.Ctx(), world.CosmosSpec{Key: w.Keys[1], Msgs: []sdk.Msg{vtypes.NewMsgClawback(d.F, d.V, nil)}, Gas: 2000000})
		if err != nil {
			panic(err)
		}
		pre := d.bal()
		r := w.Deliver(fbz)
		if r.Code != 0 {
			return "rejected", m
		}
		t := d.now()
		kept := m.vest.Read(t)
		nm := m
		if !pre.Equal(d.bal()) {
			nv := rm.Sched{Start: m.vest.Start}
			for _, e := range m.vest.Events {
				if e.T <= t && t > m.vest.Start {
					nv.Events = append(nv.Events, e)
				}
			}
			nm.vest = nv
			nm.lock = rm.CapSched(m.lock, kept)
		}
		d.checkLocked(res, "clawback", nm, p, pre)
		return "ok", nm
	})
	for _, k := range []int64{9, 10, 11, 19, 20, 21, 31} {
		k := k
		add(fmt.Sprintf("time(+%d)", k), func(p []string, res *engine.Result, m model) (string, model) {
			if d.t0+k <= d.now() {
				return "skip", m
			}
			w.Header.Time = time.Unix(d.t0+k, 0).UTC()
			w.App.BaseApp.VerifSetDeliverCtx(w.App.BaseApp.VerifDeliverCtx().WithBlockHeader(w.Header))
			return "ok", m
		})
	}
	return out
}

// ---- two denominations with crossed schedules ----------------------------------------------------
//
// One grant in two denominations whose lockup and vesting run in opposite order: aISLM is unlocked
// at once and vests in four steps, atest vests at once and is locked for much longer.  At any time
// one denomination has unlocked > vested and the other vested > unlocked; the locked amount is
// max(original - min(vested, unlocked), unvested) PER DENOMINATION.  All sequences <= depth over
// time jumps and sends of either denomination with the usual amount classes.
func twoDenomWorker(res *engine.Result, tier string, shard, n int) {
	w := world.New(world.Options{NumAccounts: 4, ExtraCoins: sdk.NewCoins(sdk.NewInt64Coin("atest", 1000000))})
	F, R := w.Addrs[1], w.Addrs[2]
	V := sdk.AccAddress(world.Key(vKeyIdx + 1).PubKey().Address().Bytes())
	t0 := w.Header.Time.Unix()
	lockPs := []rm.Period{{Len: 1, A: rm.One(world.Denom, 1000)}, {Len: 9999, A: rm.One("atest", 1000)}}
	vestPs := []rm.Period{{Len: 1, A: rm.One("atest", 1000)}, {Len: 999, A: rm.One(world.Denom, 250)}, {Len: 1000, A: rm.One(world.Denom, 250)},
		{Len: 1000, A: rm.One(world.Denom, 250)}, {Len: 1000, A: rm.One(world.Denom, 250)}}
	conv := func(ps []rm.Period) sdkvesting.Periods {
		var out sdkvesting.Periods
		for _, p := range ps {
			cs := sdk.NewCoins()
			for d, v := range p.A {
				cs = cs.Add(sdk.NewCoin(d, sdkmath.NewIntFromBigInt(v)))
			}
			out = append(out, sdkvesting.Period{Length: p.Len, Amount: cs})
		}
		return out
	}
	if _, err := w.RunMsg(w.Ctx(), vtypes.NewMsgCreateClawbackVestingAccount(F, V, time.Unix(t0, 0).UTC(), conv(lockPs), conv(vestPs), false)); err != nil {
		panic(err)
	}
	for _, c := range []sdk.Coin{sdk.NewInt64Coin(world.Denom, 50), sdk.NewInt64Coin("atest", 50)} { // some free coins on top
		if _, err := w.RunMsg(w.Ctx(), banktypes.NewMsgSend(F, V, sdk.NewCoins(c))); err != nil {
			panic(err)
		}
	}
	lock, vest := rm.FromPeriods(t0, lockPs), rm.FromPeriods(t0, vestPs)
	locked := func(d string) sdkmath.Int {
		t := w.Header.Time.Unix()
		orig := sdkmath.NewIntFromBigInt(vest.Total().Get(d))
		ve := sdkmath.NewIntFromBigInt(vest.Read(t).Get(d))
		un := sdkmath.NewIntFromBigInt(lock.Read(t).Get(d))
		return orig.Sub(sdkmath.MinInt(ve, un))
	}
	bal := func(d string) sdkmath.Int { return w.App.BankKeeper.GetBalance(w.Ctx(), V, d).Amount }
	var ops []engine.Op
	for _, k := range []int64{500, 1000, 1001, 3000, 4000, 9999, 10000} {
		k := k
		ops = append(ops, engine.Op{Name: fmt.Sprintf("time(+%d)", k), Apply: func(w *world.World, p []string, res *engine.Result) string {
			if t0+k <= w.Header.Time.Unix() {
				return "skip"
			}
			w.Header.Time = time.Unix(t0+k, 0).UTC()
			w.App.BaseApp.VerifSetDeliverCtx(w.App.BaseApp.VerifDeliverCtx().WithBlockHeader(w.Header))
			return "ok"
		}})
	}
	for _, d := range []string{world.Denom, "atest"} {
		for _, cls := range []string{"1", "sp", "sp+1", "bal"} {
			d, cls := d, cls
			ops = append(ops, engine.Op{Name: fmt.Sprintf("send(%s,%s)", d, cls), Apply: func(w *world.World, p []string, res *engine.Result) string {
				sp := bal(d).Sub(locked(d))
				if sp.IsNegative() {
					sp = sdkmath.ZeroInt()
				}
				a := map[string]sdkmath.Int{"1": sdkmath.NewInt(1), "sp": sp, "sp+1": sp.AddRaw(1), "bal": bal(d)}[cls]
				if !a.IsPositive() {
					return "skip"
				}
				_, err := w.RunMsg(w.Ctx(), banktypes.NewMsgSend(V, R, sdk.NewCoins(sdk.NewCoin(d, a))))
				res.Evaluations++
				if err != nil {
					return "rejected"
				}
				for _, dd := range []string{world.Denom, "atest"} {
					if b, l := bal(dd), locked(dd); b.LT(l) {
						res.AddViolation(engine.Violation{Signature: "C08|path=send-two-denoms|breach=below-locked", What: "after a successful send the balance of a vesting denomination is below its locked amount (two denominations with crossed lockup / vesting order)",
							Fixture: "two-denominations", Path: append([]string{"fixture=two-denominations"}, p...),
							Detail: map[string]any{"denom": dd, "balance": b.String(), "locked_ref": l.String(), "t_rel": w.Header.Time.Unix() - t0}})
					}
				}
				res.Nontrivial[fmt.Sprintf("two-denoms|%s|%s|%d", d, cls, w.Header.Time.Unix()-t0)] = true
				return "ok"
			}})
		}
	}
	sub := engine.NewResult(Prop)
	e := &engine.Explorer{W: w, Res: sub, Stores: []string{"acc", "bank"}, MaxDepth: 3, Shard: shard, NShards: n,
		Ops:   func(*world.World, int, []string) []engine.Op { return ops },
		Extra: func(w *world.World) string { return fmt.Sprint(w.Header.Time.Unix()) }}
	if tier == "thorough" {
		e.MaxDepth = 4
	}
	e.Run()
	for k, v := range sub.States {
		res.States["two-denoms|"+k] = v
	}
	sub.States = map[string]int{}
	res.Merge(sub)
}

func bounds(tier string) (int, time.Duration) {
	if tier == "thorough" {
		return 4, 75 * time.Minute
	}
	return 3, 5 * time.Minute
}

func Worker(shard, n int, tier string) *engine.Result {
	res := engine.NewResult(Prop)
	depth, dl := bounds(tier)
	deadline := time.Now().Add(dl)
	twoDenomWorker(res, tier, shard, n)
	for i, sc := range schedules(tier) {
		d := newDriver(tier, sc)
		sub := engine.NewResult(Prop)
		// a state is all persistent stores + block time + the reference model: two operation sequences
		// that agree on all of these have the same futures, so the second one is not expanded again
		e := &engine.Explorer{W: d.w, Res: sub, Stores: engine.AllStores(d.w), Ops: d.ops, MaxDepth: depth, Shard: shard, NShards: n,
			Deadline: deadline, Extra: func(w *world.World) string { return fmt.Sprint(w.Header.Time.Unix()) + "|" + d.last }}
		e.Run()
		for k, v := range sub.States {
			res.States[fmt.Sprintf("s%d|%s", i, k)] = v
		}
		sub.States = map[string]int{}
		res.Merge(sub)
		if shard == 0 && i == 0 {
			var names []string
			for _, o := range d.ops(d.w, 0, nil) {
				names = append(names, o.Name)
			}
			res.Extra["alphabet"] = strings.Join(names, " ")
		}
	}
	return res
}

func Run(tier string) int {
	start := time.Now()
	res := engine.RunSharded(Prop, tier, 16, Worker)
	res.TracesImpl = res.Transitions
	depth, _ := bounds(tier)
	res.Sample(map[string]any{"path": []string{"schedule=lock[20:4000]-vest[10:4000]", "time(+11)", "delegate-precompile(max)", "eth-contract-forward(sp+1)"}})
	return engine.Finish(res, engine.Meta{
		Property: Prop, Tier: tier, Level: "model_checking", Start: start,
		Rule:   "per schedule fixture: all sequences <= depth over 36 spend operations (9 paths x {1, spendable, spendable+1, balance}), 9 delegations (message / authz exec / staking precompile x {1, max, max+1}), validator creation with a self-delegation (message / precompile x {max, max+1}), undelegate, a partly vested second grant with automatic staking, a merged second grant without lockup that vests later, conversion back to a plain account, liquidation of half of the locked coins (the model keeps the original unlock times), block boundary (unbonding completion), slash, clawback, 7 time jumps; every transaction through the real DeliverTx; plus a two-denomination fixture (lockup and vesting in opposite order per denomination) with a per-denomination locked reference; non-trivial = operation that moved coins, distinct by (schedule, path, amount class, time)",
		Bounds: map[string]any{"depth": depth, "schedules": len(schedules(tier))},
		Assumptions: []string{
			"reference = step functions from the grant parameters; tracked delegation read from the account but bounded by the reference's own delegation counter",
			"zero gas prices (fee path is exercised by an explicit fee operation)",
			"ICS-20 transfers run over channel ends written on ibc-go's localhost connection; ERC-20 conversion is not in this alphabet (the vesting denomination is the staking/EVM denomination, which cannot be a token pair); liquidation moves locked coins by design and is C11's subject",
		},
	})
}
