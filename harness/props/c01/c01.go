// Package c01: deterministic state machine — replicas agree on every block (engine E2).
package c01

import (
	"fmt"
	"strings"
	"time"

	"verif/harness/engine"
	"verif/harness/replica"
)

const Prop = "C01"

// Plans enumerates the histories: every single template, every ordered pair in two consecutive
// blocks and in the same block; thorough adds pairs separated by a long gap and all triples.
func Plans(tier string, tmpl []replica.Template, n, nGovEnd int) []replica.Plan {
	var out []replica.Plan
	// governance changes (parameters, switches) followed by a use after they took effect, and the
	// life-cycle chains (templates from nGovEnd on are used inside chains only)
	for g := n; g < nGovEnd; g++ {
		out = append(out, replica.Plan{Name: fmt.Sprintf("[%d]", g), Blocks: [][]int{{g}}, Tail: 6})
		for i := 0; i < n; i++ {
			out = append(out, replica.Plan{Name: fmt.Sprintf("[%d]...[%d]", g, i), Blocks: [][]int{{g}, {}, {}, {}, {}, {i}}, Tail: 2})
		}
	}
	out = append(out, replica.LifecycleChains(tmpl, n)...)
	for i := 0; i < n; i++ {
		out = append(out, replica.Plan{Name: fmt.Sprintf("[%d]", i), Blocks: [][]int{{i}}, Tail: 3})
	}
	for i := 0; i < n; i++ {
		for j := 0; j < n; j++ {
			out = append(out, replica.Plan{Name: fmt.Sprintf("[%d][%d]", i, j), Blocks: [][]int{{i}, {j}}, Tail: 2})
			out = append(out, replica.Plan{Name: fmt.Sprintf("[%d,%d]", i, j), Blocks: [][]int{{i, j}}, Tail: 3})
		}
	}
	if tier == "thorough" {
		for i := 0; i < n; i++ {
			for j := 0; j < n; j++ {
				out = append(out, replica.Plan{Name: fmt.Sprintf("[%d]~30d~[%d]", i, j), Blocks: [][]int{{i}, {j}}, Dts: []time.Duration{30 * 24 * time.Hour}, Tail: 2})
				for k := 0; k < n; k++ {
					out = append(out, replica.Plan{Name: fmt.Sprintf("[%d][%d][%d]", i, j, k), Blocks: [][]int{{i}, {j}, {k}}, Tail: 2})
				}
			}
		}
	}
	return out
}

func planNames(p replica.Plan, t []replica.Template) string {
	var bs []string
	for _, b := range p.Blocks {
		var ns []string
		for _, i := range b {
			ns = append(ns, t[i].Name)
		}
		bs = append(bs, "{"+strings.Join(ns, ",")+"}")
	}
	s := strings.Join(bs, " ")
	if len(p.Dts) > 0 {
		s += fmt.Sprintf(" gap=%s", p.Dts[0])
	}
	return s
}

func variants(tier string) []replica.Variant {
	seeds := 7
	if tier == "thorough" {
		seeds = 23
	}
	var out []replica.Variant
	for k := 1; k <= seeds; k++ {
		// every replica combines a map-iteration policy with a shifted wall clock, interleaved
		// CheckTx/queries and a previously constructed second application object; a divergence is
		// attributed afterwards by re-running with the sources separated
		// ... and some replicas are stopped after the first block of the history and rebuilt from their
		// database (a node constructed on existing state instead of from genesis)
		restartAt := -1
		if k%4 == 3 {
			restartAt = 0
		}
		out = append(out, replica.Variant{Name: fmt.Sprintf("map%d+clock+noise+second+tz+config+rebuilt", k), MapSeed: uint(k), ClockSec: 400 * 86400, Noise: k%2 == 1, NoiseOld: k%4 == 1, Second: k%3 == 0, TZ: []int{0, -8 * 3600, 9 * 3600}[k%3], Config: k%2 == 0, RestartAt: restartAt})
	}
	return out
}

func attribute(f *replica.Fix, h replica.History, ref replica.Trace, v replica.Variant) string {
	var causes []string
	try := func(name string, vv replica.Variant) {
		vv.RestartAt = -1
		tr, _ := f.Replay(h, vv)
		if replica.FirstDiff(ref, tr) >= 0 {
			causes = append(causes, name)
		}
	}
	try("map", replica.Variant{MapSeed: v.MapSeed})
	try("clock", replica.Variant{ClockSec: v.ClockSec})
	try("noise", replica.Variant{Noise: true, NoiseOld: v.NoiseOld})
	try("second", replica.Variant{Second: true})
	try("timezone", replica.Variant{TZ: v.TZ})
	try("node-config", replica.Variant{Config: v.Config})
	if v.RestartAt >= 0 {
		tr, _ := f.Replay(h, replica.Variant{RestartAt: v.RestartAt})
		if replica.FirstDiff(ref, tr) >= 0 {
			causes = append(causes, "rebuilt-from-db")
		}
	}
	if len(causes) == 0 {
		return "combination"
	}
	return strings.Join(causes, "+")
}

func Worker(shard, n int, tier string) *engine.Result {
	res := engine.NewResult(Prop)
	f := replica.NewFix()
	base := replica.Templates()
	tmpl := append(append([]replica.Template{}, base...), replica.GovTemplates()...)
	nGovEnd := len(tmpl)
	tmpl = append(tmpl, replica.ChainTemplates()...)
	plans := Plans(tier, tmpl, len(base), nGovEnd)
	res.Extra["histories"] = len(plans)
	res.Extra["templates"] = len(tmpl)
	vsAll, vsQuick := variants(tier), variants("quick")
	deadline := time.Now().Add(60 * time.Minute)
	for i, p := range plans {
		if i%n != shard {
			continue
		}
		if time.Now().After(deadline) {
			res.CapHit = true
			break
		}
		// triples (thorough only) are replayed on the 7 quick replicas, everything else on all 23
		vs := vsAll
		if len(p.Blocks) == 3 && len(p.Dts) == 0 && !strings.HasPrefix(p.Name, "chain:") {
			vs = vsQuick
		}
		desc := planNames(p, tmpl)
		if engine.SkipScenario(desc) {
			continue
		}
		h, ref, _ := f.RunReference(p, tmpl)
		res.Evaluations++
		ok := 0
		for _, st := range ref {
			if strings.Contains(st.Label, "deliver") && strings.HasPrefix(st.Detail, "code=0 ") {
				ok++
			}
			res.States[st.Label+"|"+st.Digest] = 0
			res.Transitions++
		}
		if ok > 0 {
			res.Nontrivial[desc] = true
		}
		res.Outcomes[fmt.Sprintf("history:ok-txs=%d", min(ok, 3))]++
		if len(p.Blocks) == 1 && len(p.Blocks[0]) == 1 {
			tot := 0
			for _, st := range ref {
				if strings.Contains(st.Label, "deliver") {
					tot++
				}
			}
			res.Extra["template:"+tmpl[p.Blocks[0][0]].Name] = fmt.Sprintf("%d of %d txs succeeded", ok, tot)
		}
		// the reference run itself must be reproducible (replay-twice self-check)
		if i%16 == shard%16 {
			tr, _ := f.Replay(h, replica.Variant{Name: "same", RestartAt: -1})
			if d := replica.FirstDiff(ref, tr); d >= 0 {
				res.HarnessErr = fmt.Sprintf("reference history %s is not reproducible at %s", desc, ref[d].Label)
			}
		}
		for _, v := range vs {
			tr, _ := f.Replay(h, v)
			res.TracesImpl++
			d := replica.FirstDiff(ref, tr)
			if d < 0 {
				continue
			}
			field := "result"
			switch {
			case strings.Contains(ref[d].Label, "commit"):
				field = "apphash"
			case strings.Contains(ref[d].Label, "endblock"):
				field = "endblock"
			case strings.Contains(ref[d].Label, "beginblock"):
				field = "beginblock-events"
			}
			cause := attribute(f, h, ref, v)
			var got string
			if d < len(tr) {
				got = tr[d].Detail
			}
			res.AddViolation(engine.Violation{
				Signature: fmt.Sprintf("C01|variant=%s|field=%s|template=%s", cause, field, firstTemplate(p, tmpl)),
				What:      "a replica fed the same blocks diverged from the reference node", Path: []string{desc, "variant=" + v.Name, "first difference at " + ref[d].Label},
				Detail: map[string]any{"reference": ref[d].Detail, "replica": got, "cause": cause},
			})
			break
		}
	}
	return res
}

func firstTemplate(p replica.Plan, t []replica.Template) string {
	var ns []string
	for _, b := range p.Blocks {
		for _, i := range b {
			ns = append(ns, t[i].Name)
		}
	}
	return strings.Join(ns, ">")
}

func Run(tier string) int {
	start := time.Now()
	res := engine.RunSharded(Prop, tier, 16, Worker)
	tmpl := append(append(replica.Templates(), replica.GovTemplates()...), replica.ChainTemplates()...)
	var names []string
	for _, t := range tmpl {
		names = append(names, t.Name)
	}
	res.Sample(map[string]any{"history": "{liquidate} {convertERC20} + 2 empty blocks", "variant": "map3+clock+noise+second"})
	return engine.Finish(res, engine.Meta{
		Property: Prop, Tier: tier, Level: "model_checking", Start: start, Alphabet: names,
		Rule: "every history = single template, ordered pair in consecutive blocks, ordered pair in one block (thorough: pairs with a 30-day gap, all triples) over a 23-template alphabet, plus 4 governance flows alone and followed by every template once in effect and 9 life-cycle chains (incl. two day boundaries, sub-millisecond block times, the day epoch behind the clock, a fee paid out of staking rewards), executed with real InitChain/BeginBlock/DeliverTx/EndBlock/Commit; the recorded concrete blocks are replayed on 7 (thorough 23; triples 7) independently constructed replicas, each under a forced map-iteration seed combined with a +400d wall clock, every transaction simulated and CheckTx'd before delivery, interleaved queries (incl. eth_call/estimateGas executing the EVM at the latest and at old heights) a second application object, a different process time zone (UTC-8 / UTC+9), different node-local app.toml options, and (a quarter of the replicas) a stop after the first block with the node rebuilt from its database; every DeliverTx result (code, data, gas, events, log), EndBlock (validator and consensus-param updates, events), BeginBlock events and Commit app hash compared; states = distinct (call, response digest) pairs, non-trivial = history with an executed transaction",
		Assumptions: []string{
			"one forced random word for all maps at a time: seeds 0..7 (thorough 0..23) realise every start bucket/offset for maps of <= 8 (<= 16) entries",
			"validator sets of 2; consensus engine not involved (ABCI level)",
			"the DeliverTx log is compared up to its first line break (SDK %+v errors append the process call stack)",
			"on a divergence the sources are separated by re-running the history with one source at a time",
		},
	})
}
