// Package c19: exported genesis re-imports to the same state (engine E2).
//
// For every history: run it on node A, export A's state, initialise a fresh node B from the
// export (real InitChain + Commit), export B, and diff the two documents field by field; run the
// query battery on both; validate the exported genesis and run all registered invariants on B.
package c19

import (
	"encoding/json"
	"fmt"
	"os"
	"regexp"
	"sort"
	"strings"
	"time"

	dbm "github.com/cometbft/cometbft-db"
	abci "github.com/cometbft/cometbft/abci/types"
	tmtypes "github.com/cometbft/cometbft/types"
	"github.com/cosmos/cosmos-sdk/types/module"

	"github.com/haqq-network/haqq/app"

	"verif/harness/engine"
	"verif/harness/nondet"
	"verif/harness/replica"
	"verif/harness/world"
)

const Prop = "C19"

type plan struct {
	replica.Plan
	desc string
	// genesisTime: the new chain is started with the ORIGINAL genesis time (what an exported genesis
	// file carries) instead of the time of the last block
	genesisTime bool
}

func plans(tier string, tmpl []replica.Template, nBase int) []plan {
	var out []plan
	name := func(idx ...int) string {
		var ns []string
		for _, i := range idx {
			ns = append(ns, tmpl[i].Name)
		}
		return strings.Join(ns, ">")
	}
	out = append(out, plan{replica.Plan{Blocks: [][]int{{}}, Tail: 2}, "idle", false})
	for i := 0; i < len(tmpl); i++ {
		tail := 1
		if i >= nBase {
			tail = 5
		}
		out = append(out, plan{replica.Plan{Blocks: [][]int{{i}}, Tail: tail}, name(i), false})
		// export in the middle of things too: right after the block carrying the template
		out = append(out, plan{replica.Plan{Blocks: [][]int{{i}}, Tail: 0}, name(i) + "|export-at-once", false})
	}
	for i := 0; i < nBase; i++ {
		for j := 0; j < nBase; j++ {
			if tier == "thorough" || (i*7+j)%4 == 0 || curated[tmpl[i].Name+">"+tmpl[j].Name] {
				out = append(out, plan{replica.Plan{Blocks: [][]int{{i}, {j}}, Tail: 1}, name(i, j), false})
			}
		}
	}
	// life-cycle chains (switches turned off and on with uses in between), exported after every one of
	// their blocks: states in which a pair is disabled, a hook is off, a proposal is half way
	for _, c := range replica.LifecycleChains(tmpl, nBase) {
		for k := 1; k <= len(c.Blocks); k++ {
			if tier != "thorough" && k%2 == 0 && k != len(c.Blocks) {
				continue
			}
			out = append(out, plan{replica.Plan{Blocks: c.Blocks[:k], Dts: c.Dts, Tail: 0}, fmt.Sprintf("%s|export-after-block-%d", c.Name, k), false})
		}
		out = append(out, plan{replica.Plan{Blocks: c.Blocks, Dts: c.Dts, Tail: 2}, c.Name, false})
	}
	if tier == "thorough" {
		// rich states: a long chain of many templates
		all := []int{}
		for i := 0; i < nBase; i++ {
			all = append(all, i)
		}
		var blocks [][]int
		for _, i := range all {
			blocks = append(blocks, []int{i})
		}
		out = append(out, plan{replica.Plan{Blocks: blocks, Tail: 2}, "all-templates-chain", false})
	}
	n := len(out)
	for i := 0; i < n; i++ {
		c := out[i]
		c.genesisTime = true
		c.desc += "|import@genesis-time"
		out = append(out, c)
	}
	return out
}

// curated pairs are always run: histories whose second step consumes what the first created.
var curated = map[string]bool{"liquidate>redeemAll": true, "liquidate>convertERC20": true, "liquidate>liquidate": true, "stakingDelegate>stakingUndelegate": true,
	"daoFund>daoTransferRatio": true, "vestingCreate>liquidate": true, "pcDelegate>pcClaimRewards": true}

var idx = regexp.MustCompile(`\[\d+\]`)

// diffJSON returns "path: a -> b" for every leaf that differs.
func diffJSON(path string, a, b any, out *[]string) {
	switch av := a.(type) {
	case map[string]any:
		bv, ok := b.(map[string]any)
		if !ok {
			*out = append(*out, fmt.Sprintf("%s: %v -> %v", path, short(a), short(b)))
			return
		}
		keys := map[string]bool{}
		for k := range av {
			keys[k] = true
		}
		for k := range bv {
			keys[k] = true
		}
		var ks []string
		for k := range keys {
			ks = append(ks, k)
		}
		sort.Strings(ks)
		for _, k := range ks {
			diffJSON(path+"."+k, av[k], bv[k], out)
		}
	case []any:
		bv, ok := b.([]any)
		if !ok || len(av) != len(bv) {
			*out = append(*out, fmt.Sprintf("%s: %v -> %v", path, short(a), short(b)))
			return
		}
		for i := range av {
			diffJSON(fmt.Sprintf("%s[%d]", path, i), av[i], bv[i], out)
		}
	default:
		if fmt.Sprint(a) != fmt.Sprint(b) {
			*out = append(*out, fmt.Sprintf("%s: %v -> %v", path, short(a), short(b)))
		}
	}
}

func short(v any) string {
	s := fmt.Sprint(v)
	if len(s) > 120 {
		s = s[:120] + "..."
	}
	return s
}

func Worker(shard, n int, tier string) *engine.Result {
	res := engine.NewResult(Prop)
	f := replica.NewFix()
	base := append(replica.Templates(), replica.StateShapeTemplates()...)
	tmpl := append(append(append([]replica.Template{}, base...), replica.GovTemplates()...), replica.ExtraGovTemplates()...)
	ps := plans(tier, tmpl, len(base))
	res.Extra["histories"] = len(ps)
	for i, p := range ps {
		if i%n != shard {
			continue
		}
		if engine.SkipScenario(p.desc) {
			continue
		}
		_, ref, wa := f.RunReference(p.Plan, tmpl)
		if os.Getenv("VERIF_ONLY") != "" {
			for _, st := range ref {
				if strings.Contains(st.Label, "deliver") {
					fmt.Println(st.Label, short(st.Detail))
				}
			}
		}
		res.Evaluations++
		res.Transitions++
		nondet.MapSeed(true, 0)
		a := wa.App
		exp1, err := a.ExportAppStateAndValidators(false, nil, nil)
		path := []string{p.desc}
		viol := func(module, field, kind, what string, detail map[string]any) {
			res.AddViolation(engine.Violation{Signature: fmt.Sprintf("C19|module=%s|field=%s|kind=%s", module, field, kind), What: what, Path: path, Detail: detail})
		}
		if err != nil {
			viol("app", "export", "error", "export failed", map[string]any{"err": err.Error()})
			continue
		}
		if len(exp1.Validators) == 0 {
			// the history emptied the validator set: a halted chain has no genesis to restart from
			res.Outcomes["halted-chain-skipped"]++
			continue
		}
		// --- import into B
		wb := &world.World{DB: dbm.NewMemDB(), ChainID: wa.ChainID, Addrs: wa.Addrs, Eth: wa.Eth, Keys: wa.Keys, ValAddr: wa.ValAddr, ValCons: wa.ValCons}
		wb.App = world.NewApp(wb.DB, wb.ChainID)
		var vals []abci.ValidatorUpdate
		for _, gv := range exp1.Validators {
			vals = append(vals, tmtypes.TM2PB.ValidatorUpdate(&tmtypes.Validator{Address: gv.Address, PubKey: gv.PubKey, VotingPower: gv.Power}))
		}
		lastTime := wa.Header.Time // time of the block A has begun; the export is of the block before
		if p.genesisTime {
			lastTime = world.GenesisTime
		}
		panicked := ""
		func() {
			defer func() {
				if r := recover(); r != nil {
					panicked = fmt.Sprint(r)
				}
			}()
			wb.App.InitChain(abci.RequestInitChain{ChainId: wa.ChainID, Time: lastTime, InitialHeight: exp1.Height, Validators: vals,
				ConsensusParams: exp1.ConsensusParams, AppStateBytes: exp1.AppState})
			wb.App.Commit()
		}()
		if panicked != "" {
			if os.Getenv("VERIF_ONLY") != "" {
				var d map[string]json.RawMessage
				_ = json.Unmarshal(exp1.AppState, &d)
				fmt.Println(string(d["staking"]))
			}
			viol("app", "initchain", "panic", "a fresh node cannot be initialised from the exported genesis", map[string]any{"panic": short(panicked)})
			continue
		}
		exp2, err := wb.App.ExportAppStateAndValidators(false, nil, nil)
		if err != nil {
			viol("app", "re-export", "error", "export of the re-imported node failed", map[string]any{"err": err.Error()})
			continue
		}
		var d1, d2 map[string]any
		_ = json.Unmarshal(exp1.AppState, &d1)
		_ = json.Unmarshal(exp2.AppState, &d2)
		res.States[p.desc] = 0
		res.Nontrivial[p.desc] = true
		var diffs []string
		diffJSON("", d1, d2, &diffs)
		byField := map[string][]string{}
		for _, d := range diffs {
			pth := strings.SplitN(d, ": ", 2)[0]
			parts := strings.SplitN(strings.TrimPrefix(pth, "."), ".", 2)
			module := parts[0]
			field := ""
			if len(parts) > 1 {
				field = idx.ReplaceAllString(parts[1], "[]")
			}
			// by definition the height of the exporting context: it must equal export height - 1
			if module == "ibc" && strings.Contains(field, "latest_height") {
				continue
			}
			byField[module+"|"+field] = append(byField[module+"|"+field], d)
		}
		for k, ds := range byField {
			mf := strings.SplitN(k, "|", 2)
			kind := "changed"
			if strings.Contains(ds[0], "-> <nil>") || strings.HasSuffix(ds[0], "-> 0") || strings.HasSuffix(ds[0], "-> ") {
				kind = "dropped"
			}
			if len(ds) > 3 {
				ds = ds[:3]
			}
			viol(mf[0], mf[1], kind, "export -> import -> export does not reproduce the document", map[string]any{"diff": ds})
		}
		if len(exp1.Validators) != len(exp2.Validators) {
			viol("staking", "validators", "changed", "exported validator set differs", nil)
		}
		// --- queries
		qlist := replica.BatteryOf(wa) // both nodes are asked the questions A's state suggests
		qa, qb := replica.RunQueries(wa, qlist), replica.RunQueries(wb, qlist)
		for j := range qa {
			res.Evaluations++
			if qa[j] != qb[j] {
				pathq := strings.SplitN(qa[j], "#", 2)[0]
				// queries of modules whose state is block-height relative are compared on the documents above
				viol("query", pathq, "changed", "a module query answers differently on the re-imported node", map[string]any{"a": qa[j], "b": qb[j]})
			}
		}
		// --- the export must be a valid genesis, and the imported node must satisfy all invariants
		var gs map[string]json.RawMessage
		_ = json.Unmarshal(exp1.AppState, &gs)
		// module by module, for the modules the statement names plus the SDK modules whose state Haqq
		// code writes (auth accounts incl. vesting accounts, bank, staking, distribution, gov, slashing);
		// third-party modules (ibc: the exported sentinel connection-localhost does not pass ibc-go's
		// own validation) are outside the statement
		for _, name := range []string{"auth", "bank", "staking", "distribution", "gov", "slashing", "evm", "feemarket", "erc20", "vesting", "liquidvesting", "ucdao", "coinomics", "epochs"} {
			b, ok := app.ModuleBasics[name]
			if !ok || gs[name] == nil {
				continue
			}
			hg, ok := b.(module.HasGenesisBasics)
			if !ok {
				continue
			}
			if err := hg.ValidateGenesis(wb.App.AppCodec(), world.TxConfig(), gs[name]); err != nil {
				viol(name, "validate-genesis", "validate", "the exported module state does not pass the module's own ValidateGenesis", map[string]any{"err": short(err.Error())})
			}
		}
		func() {
			defer func() {
				if r := recover(); r != nil {
					viol("app", "invariants", "invariant", "an invariant is broken on the re-imported node", map[string]any{"panic": short(r)})
				}
			}()
			ctx := wb.App.NewContext(true, wa.Header)
			for _, r := range wb.App.CrisisKeeper.Routes() {
				if msg, broken := r.Invar(ctx); broken {
					viol("app", "invariant:"+r.FullRoute(), "invariant", "an invariant is broken on the re-imported node", map[string]any{"msg": short(msg)})
				}
			}
		}()
	}
	return res
}

func Run(tier string) int {
	start := time.Now()
	res := engine.RunSharded(Prop, tier, 16, Worker)
	res.TracesImpl = res.Transitions
	res.Sample(map[string]any{"history": "liquidate>convertERC20, export after 1 empty block, import, export"})
	return engine.Finish(res, engine.Meta{
		Property: Prop, Tier: tier, Level: "model_checking", Start: start,
		Rule: "histories: idle chain, every template (base + governance flows) alone with export after settling and with export right after the carrying block, a quarter (thorough: all) of ordered pairs plus curated pairs whose second step consumes what the first created, thorough: one chain of all templates; life-cycle chains with an export after every (quick: every second) block; every history imported twice - with the last block's time and with the original genesis time (what an exported genesis file carries); after each: export A -> InitChain+Commit on a fresh node B -> export B; the two JSON documents are diffed leaf by leaf, the 27-query battery plus by-key queries for every object of the exporting node is compared, ValidateGenesis on the export and all crisis invariants on B; transitions = export/import cycles",
		Assumptions: []string{
			"a history that empties the validator set (halted chain) is skipped and counted under outcomes",
			"ibc 09-localhost latest_height is by definition the height of the exporting context and is not compared for equality",
			"B is committed right after InitChain (no block executed), so both documents describe the same instant",
		},
	})
}
