// Package c13: coinomics mints the formula amount and never exceeds the cap.
//
// E1 explorer: every sequence <= depth over {block(dt), jump-to-date, set coefficient, set max
// supply, enable/disable, delegate}.  A block transition is the real app.EndBlock (all modules'
// end blockers, coinomics included) followed by a virtual BeginBlock; the oracle is an
// independent 18-decimal fixed-point reference in math/big.
package c13

import (
	"fmt"
	"math/big"
	"strings"
	"time"

	sdkmath "cosmossdk.io/math"
	sdk "github.com/cosmos/cosmos-sdk/types"
	authtypes "github.com/cosmos/cosmos-sdk/x/auth/types"
	stakingtypes "github.com/cosmos/cosmos-sdk/x/staking/types"

	"github.com/haqq-network/haqq/app"
	haqqtypes "github.com/haqq-network/haqq/types"
	coinomicstypes "github.com/haqq-network/haqq/x/coinomics/types"

	"verif/harness/engine"
	"verif/harness/world"
)

const Prop = "C13"

var (
	one18 = new(big.Int).Exp(big.NewInt(10), big.NewInt(18), nil)
	huge  = sdkmath.NewIntFromBigInt(new(big.Int).Exp(big.NewInt(10), big.NewInt(40), nil))
)

// model: the reference's own memory of "the previous block in which minting was active".
type model struct {
	hasPrev bool
	prevMs  int64
}

type driver struct {
	w      *world.World
	models []model // indexed by depth
	feeCol sdk.AccAddress
	modAcc sdk.AccAddress
	tier   string
}

func newDriver(tier string) *driver {
	cp := coinomicstypes.DefaultParams() // enabled, 7.8
	w := world.New(world.Options{
		NumAccounts: 3,
		NumVals:     2,
		ValTokens:   sdkmath.NewIntFromBigInt(new(big.Int).Exp(big.NewInt(10), big.NewInt(24), nil)),
		Balance:     sdkmath.NewIntFromBigInt(new(big.Int).Exp(big.NewInt(10), big.NewInt(28), nil)),
		Coinomics:   &cp,
		Patch: func(a *app.Haqq, gs haqqtypes.GenesisState) haqqtypes.GenesisState {
			g := coinomicstypes.DefaultGenesisState()
			g.Params = cp
			g.MaxSupply = sdk.NewCoin(world.Denom, huge)
			gs[coinomicstypes.ModuleName] = a.AppCodec().MustMarshalJSON(g)
			return gs
		},
	})
	d := &driver{w: w, tier: tier}
	d.feeCol = authtypes.NewModuleAddress(authtypes.FeeCollectorName)
	d.modAcc = authtypes.NewModuleAddress(coinomicstypes.ModuleName)
	// block 1 was committed with minting enabled: its timestamp is the reference's "previous".
	// We are inside block 2 now.
	d.models = []model{{hasPrev: true, prevMs: w.Header.Time.Add(-6 * time.Second).UnixMilli()}}
	return d
}

func (d *driver) modelAt(depth int) model { return d.models[depth] }
func (d *driver) setModel(depth int, m model) {
	for len(d.models) <= depth {
		d.models = append(d.models, model{})
	}
	d.models[depth] = m
}

// ---- reference arithmetic -------------------------------------------------------------------

// roundDiv returns round(num/den) with ties resolved by mode (0: half up/away, 1: half even) and
// reports whether a tie occurred.  num, den >= 0.
func roundDiv(num, den *big.Int, mode int) (*big.Int, bool) {
	q, r := new(big.Int).QuoRem(num, den, new(big.Int))
	twice := new(big.Int).Lsh(r, 1)
	c := twice.Cmp(den)
	tie := c == 0
	if c > 0 || (tie && (mode == 0 || q.Bit(0) == 1)) {
		q.Add(q, big.NewInt(1))
	}
	return q, tie
}

func isLeap(y int) bool { return (y%4 == 0 && y%100 != 0) || y%400 == 0 }

// refMint returns the set of acceptable integer mint amounts (more than one only when an exact
// tie occurs in some rounding step) and the unrounded 18-decimal value (scaled by 1e18).
// coef is the reward coefficient scaled by 1e18.
func refMint(bonded, coef18 *big.Int, elapsedMs int64, year int) (accept []*big.Int, dec18 *big.Int) {
	yearMs := big.NewInt(31536000000)
	if isLeap(year) {
		yearMs = big.NewInt(31622400000)
	}
	seen := map[string]bool{}
	for combo := 0; combo < 16; combo++ {
		m := func(i int) int { return (combo >> i) & 1 }
		// step 1: c = coef / 100                       (18 decimals)
		c, _ := roundDiv(coef18, big.NewInt(100), m(0))
		// step 2: a = bonded * c                        (18 decimals; bonded is an integer)
		a := new(big.Int).Mul(bonded, c)
		// step 3: e = elapsed / year                    (18 decimals)
		e, _ := roundDiv(new(big.Int).Mul(big.NewInt(elapsedMs), one18), yearMs, m(1))
		// step 4: p = a * e                             (18 decimals)
		p, _ := roundDiv(new(big.Int).Mul(a, e), one18, m(2))
		// step 5: nearest integer
		r, _ := roundDiv(p, one18, m(3))
		if combo == 0 {
			dec18 = p
		}
		if !seen[r.String()] {
			seen[r.String()] = true
			accept = append(accept, r)
		}
	}
	return accept, dec18
}

// ---- alphabet -------------------------------------------------------------------------------

var jumpTargets = []time.Time{
	time.Date(2024, 2, 28, 23, 59, 57, 0, time.UTC),  // then +6s lands on 29 Feb
	time.Date(2024, 12, 31, 23, 59, 57, 0, time.UTC), // leap -> common year
	time.Date(2027, 12, 31, 23, 59, 57, 0, time.UTC), // common -> leap year
}

func (d *driver) ops(w *world.World, depth int, path []string) []engine.Op {
	var out []engine.Op
	add := func(name string, f func(path []string, res *engine.Result) string) {
		out = append(out, engine.Op{Name: name, Apply: func(w *world.World, p []string, res *engine.Result) string {
			// config ops keep the model unchanged by default
			d.setModel(len(p), d.modelAt(len(p)-1))
			return f(p, res)
		}})
	}
	dts := []time.Duration{6 * time.Second, time.Second, time.Millisecond, 0, 24 * time.Hour}
	if d.tier == "thorough" {
		dts = append(dts, 999*time.Millisecond, 366*24*time.Hour)
	}
	for _, dt := range dts {
		dt := dt
		add(fmt.Sprintf("block(+%s)", dt), func(p []string, res *engine.Result) string { return d.block(dt, p, res) })
	}
	// a macro step: the maximum is set to the current supply and a block runs into it (minting
	// switches itself off) - so that histories continuing from an exhausted cap fit the quick depth
	add("max(supply)+block(+6s)", func(p []string, res *engine.Result) string {
		ctx := w.Ctx()
		w.App.CoinomicsKeeper.SetMaxSupply(ctx, sdk.NewCoin(world.Denom, w.App.BankKeeper.GetSupply(ctx, world.Denom).Amount))
		return d.block(6*time.Second, p, res)
	})
	// a macro step: minting is switched off and a first disabled block passes - so that pauses of two
	// and three blocks followed by a re-activation fit the quick depth
	add("enable(false)+block(+6s)", func(p []string, res *engine.Result) string {
		ctx := w.Ctx()
		pr := w.App.CoinomicsKeeper.GetParams(ctx)
		if !pr.EnableCoinomics {
			return "skip"
		}
		pr.EnableCoinomics = false
		w.App.CoinomicsKeeper.SetParams(ctx, pr)
		return d.block(6*time.Second, p, res)
	})
	for _, t := range jumpTargets {
		t := t
		add("jump("+t.Format("2006-01-02T15:04:05")+")", func(p []string, res *engine.Result) string {
			dt := t.Sub(w.Header.Time)
			if dt <= 0 {
				return "skip"
			}
			return d.block(dt, p, res)
		})
	}
	for _, c := range []string{"0", "0.000000000000000001", "100", "7.8", "33.333333333333333333"} {
		c := c
		add("coef("+c+")", func(p []string, res *engine.Result) string {
			ctx := w.Ctx()
			pr := w.App.CoinomicsKeeper.GetParams(ctx)
			pr.RewardCoefficient = sdk.MustNewDecFromStr(c)
			w.App.CoinomicsKeeper.SetParams(ctx, pr)
			return "ok"
		})
	}
	for _, cls := range []string{"supply", "supply+1", "supply-1", "supply+mint6s", "supply+mint6s-1", "huge", "zero"} {
		cls := cls
		add("max("+cls+")", func(p []string, res *engine.Result) string {
			ctx := w.Ctx()
			supply := w.App.BankKeeper.GetSupply(ctx, world.Denom).Amount
			var v sdkmath.Int
			switch cls {
			case "supply":
				v = supply
			case "supply+1":
				v = supply.AddRaw(1)
			case "supply-1":
				v = supply.SubRaw(1)
			case "huge":
				v = huge
			case "zero":
				v = sdkmath.ZeroInt()
			default:
				pr := w.App.CoinomicsKeeper.GetParams(ctx)
				bonded := w.App.StakingKeeper.TotalBondedTokens(ctx)
				acc, _ := refMint(bonded.BigInt(), pr.RewardCoefficient.BigInt(), 6000, w.Header.Time.Year())
				v = supply.Add(sdkmath.NewIntFromBigInt(acc[0]))
				if cls == "supply+mint6s-1" {
					v = v.SubRaw(1)
				}
			}
			w.App.CoinomicsKeeper.SetMaxSupply(ctx, sdk.NewCoin(world.Denom, v))
			return "ok"
		})
	}
	for _, en := range []bool{false, true} {
		en := en
		add(fmt.Sprintf("enable(%v)", en), func(p []string, res *engine.Result) string {
			ctx := w.Ctx()
			pr := w.App.CoinomicsKeeper.GetParams(ctx)
			if pr.EnableCoinomics == en {
				return "skip"
			}
			pr.EnableCoinomics = en
			w.App.CoinomicsKeeper.SetParams(ctx, pr)
			return "ok"
		})
	}
	for _, amt := range []string{"1", "1000000000000000000", "900000000000000000000000000"} {
		amt := amt
		add("delegate("+amt+")", func(p []string, res *engine.Result) string {
			a, _ := sdkmath.NewIntFromString(amt)
			_, err := w.RunMsg(w.Ctx(), stakingtypes.NewMsgDelegate(w.Addrs[1], w.ValAddr[0], sdk.NewCoin(world.Denom, a)))
			return engine.ErrClass(err)
		})
	}
	// the bonded figure of a block is the one AFTER the block's validator-set changes: jailing moves a
	// validator's stake out of the bonded pool in the staking end blocker of the same block, unjailing
	// moves it back
	if len(w.ValAddr) > 1 {
		add("jail(V2)", func(p []string, res *engine.Result) string {
			v, ok := w.App.StakingKeeper.GetValidator(w.Ctx(), w.ValAddr[1])
			if !ok || v.IsJailed() {
				return "skip"
			}
			w.App.StakingKeeper.Jail(w.Ctx(), w.ValCons[1])
			return "ok"
		})
		add("unjail(V2)", func(p []string, res *engine.Result) string {
			v, ok := w.App.StakingKeeper.GetValidator(w.Ctx(), w.ValAddr[1])
			if !ok || !v.IsJailed() {
				return "skip"
			}
			w.App.StakingKeeper.Unjail(w.Ctx(), w.ValCons[1])
			return "ok"
		})
	}
	return out
}

func (d *driver) block(dt time.Duration, path []string, res *engine.Result) string {
	w := d.w
	depth := len(path)
	m := d.modelAt(depth - 1)
	ctx := w.Ctx()
	ck := w.App.CoinomicsKeeper
	pre := ck.GetParams(ctx)
	supply := w.App.BankKeeper.GetSupply(ctx, world.Denom).Amount
	maxSupply := ck.GetMaxSupply(ctx).Amount
	fee := w.App.BankKeeper.GetBalance(ctx, d.feeCol, world.Denom).Amount
	modBal := w.App.BankKeeper.GetBalance(ctx, d.modAcc, world.Denom).Amount
	T := w.Header.Time

	w.VirtualEndBlock()

	ctx = w.Ctx()
	bonded := w.App.StakingKeeper.TotalBondedTokens(ctx) // staking's end blocker ran before coinomics'
	post := ck.GetParams(ctx)
	supply2 := w.App.BankKeeper.GetSupply(ctx, world.Denom).Amount
	fee2 := w.App.BankKeeper.GetBalance(ctx, d.feeCol, world.Denom).Amount
	mod2 := w.App.BankKeeper.GetBalance(ctx, d.modAcc, world.Denom).Amount
	minted := supply2.Sub(supply)
	res.Evaluations++

	phase := "normal"
	viol := func(breach, what string, detail map[string]any) {
		if detail == nil {
			detail = map[string]any{}
		}
		detail["block_time"] = T.Format(time.RFC3339Nano)
		detail["minted"] = minted.String()
		detail["bonded"] = bonded.String()
		detail["coef"] = pre.RewardCoefficient.String()
		detail["supply"] = supply.String()
		detail["max"] = maxSupply.String()
		res.AddViolation(engine.Violation{Signature: fmt.Sprintf("C13|phase=%s|breach=%s", phase, breach), What: what, Path: path, Detail: detail})
	}

	next := model{}
	switch {
	case !pre.EnableCoinomics:
		phase = "disabled"
		if !minted.IsZero() {
			viol("minted", "coins were minted while minting is disabled", nil)
		}
		if post.EnableCoinomics {
			viol("enabled", "minting switched itself on", nil)
		}
	case !m.hasPrev:
		phase = "first"
		if !minted.IsZero() {
			viol("minted", "coins were minted on the first block after activation", nil)
		}
		next = model{hasPrev: true, prevMs: T.UnixMilli()}
	default:
		elapsed := T.UnixMilli() - m.prevMs
		accept, dec18 := refMint(bonded.BigInt(), pre.RewardCoefficient.BigInt(), elapsed, T.Year())
		if isLeap(T.Year()) {
			phase = "leap"
		}
		// cap
		supplyDec := new(big.Int).Mul(supply.BigInt(), one18)
		maxDec := new(big.Int).Mul(maxSupply.BigInt(), one18)
		crossesDec := new(big.Int).Add(supplyDec, dec18).Cmp(maxDec) > 0
		crossesInt := false
		for _, a := range accept {
			if new(big.Int).Add(supply.BigInt(), a).Cmp(maxSupply.BigInt()) > 0 {
				crossesInt = true
			}
		}
		if crossesDec || crossesInt {
			phase = "cap"
			rem := new(big.Int).Sub(maxSupply.BigInt(), supply.BigInt())
			if rem.Sign() < 0 {
				rem = big.NewInt(0)
			}
			ok := minted.BigInt().Cmp(rem) == 0
			if !crossesInt { // only the fractional value crosses: the plain amount is acceptable too
				for _, a := range accept {
					if minted.BigInt().Cmp(a) == 0 {
						ok = true
					}
				}
			}
			if !ok {
				viol("amount", "the cap-crossing block did not mint exactly the remainder", map[string]any{"want": rem.String()})
			}
			if crossesInt && post.EnableCoinomics {
				viol("not-disabled", "minting stayed enabled after the cap-crossing block", nil)
			}
		} else {
			ok := false
			for _, a := range accept {
				if minted.BigInt().Cmp(a) == 0 {
					ok = true
				}
			}
			if !ok {
				var ws []string
				for _, a := range accept {
					ws = append(ws, a.String())
				}
				viol("amount", "minted amount differs from the fixed-point reference", map[string]any{"want": strings.Join(ws, "|"), "elapsed_ms": elapsed})
			}
			if !post.EnableCoinomics {
				viol("disabled", "minting switched off although the cap was not reached", nil)
			}
			if !minted.IsZero() {
				res.Nontrivial[fmt.Sprintf("%s|%s|%d|%d", bonded, pre.RewardCoefficient, elapsed, T.Year())] = true
			}
		}
		next = model{hasPrev: true, prevMs: T.UnixMilli()}
	}
	if supply.LTE(maxSupply) && supply2.GT(maxSupply) {
		viol("cap-exceeded", "minting lifted the total supply above the maximum", nil)
	}
	if !fee2.Sub(fee).Equal(minted) {
		viol("collector", "the fee collector did not receive exactly the minted amount", map[string]any{"fee_delta": fee2.Sub(fee).String()})
	}
	if !mod2.Equal(modBal) {
		viol("module", "the coinomics module account balance changed", nil)
	}
	if minted.IsNegative() {
		viol("negative", "supply decreased in EndBlock", nil)
	}
	if !post.EnableCoinomics {
		next = model{}
	}
	d.setModel(depth, next)
	w.VirtualBeginBlock(dt, nil, nil)
	return "ok:" + phase
}

func bounds(tier string) (int, time.Duration) {
	if tier == "thorough" {
		return 5, 25 * time.Minute
	}
	return 4, 4 * time.Minute
}

func (d *driver) explorer(res *engine.Result, shard, n int) *engine.Explorer {
	depth, dl := bounds(d.tier)
	return &engine.Explorer{
		W: d.w, Res: res, Stores: []string{"coinomics", "params", "bank", "staking", "distribution"}, Ops: d.ops,
		MaxDepth: depth, Shard: shard, NShards: n, Deadline: time.Now().Add(dl),
		Extra: func(w *world.World) string {
			return w.Header.Time.String()
		},
		NoDedup: true, // model memory is path-dependent; block time makes states distinct anyway
	}
}

func Worker(shard, n int, tier string) *engine.Result {
	d := newDriver(tier)
	res := engine.NewResult(Prop)
	d.explorer(res, shard, n).Run()
	return res
}

func Replay(v engine.Violation) []string {
	d := newDriver(tierOf(v))
	res := engine.NewResult(Prop)
	for i, name := range v.Path {
		var found *engine.Op
		for _, op := range d.ops(d.w, i, v.Path[:i]) {
			if op.Name == name {
				o := op
				found = &o
			}
		}
		if found == nil {
			return []string{"replay: unknown op " + name}
		}
		found.Apply(d.w, v.Path[:i+1], res)
	}
	var sigs []string
	for _, x := range res.Violations {
		sigs = append(sigs, x.Signature)
	}
	return sigs
}

func tierOf(v engine.Violation) string {
	if t, ok := v.Detail["tier"].(string); ok {
		return t
	}
	return "thorough"
}

func Run(tier string) int {
	start := time.Now()
	res := engine.RunSharded(Prop, tier, 16, Worker)
	res.TracesImpl = res.Evaluations
	depth, _ := bounds(tier)
	d := newDriver(tier)
	var alpha []string
	for _, o := range d.ops(d.w, 0, nil) {
		alpha = append(alpha, o.Name)
	}
	res.Sample(map[string]any{"example_path": []string{"coef(100)", "block(+6s)", "max(supply+mint6s-1)", "block(+6s)"}})
	return engine.Finish(res, engine.Meta{
		Property: Prop, Tier: tier, Level: "model_checking", Start: start, Replayer: Replay,
		Rule:     "all sequences <= depth over the alphabet (incl. the macro steps max(supply)+block that runs into the cap and enable(false)+block that starts a pause, and jailing / unjailing a validator so that the bonded pool changes in the block's own staking end blocker); a block transition is the real app.EndBlock + virtual BeginBlock; non-trivial = a block that minted a non-zero formula amount, distinct by (bonded, coefficient, elapsed, year)",
		Bounds:   map[string]any{"depth": depth, "shards": 16},
		Alphabet: alpha,
		Assumptions: []string{
			"virtual block boundary: real EndBlock, transient stores cleared, real BeginBlock without IAVL commit (cross-checked against real Commit by the E2 checks)",
			"year length is taken from the year of the minting block's timestamp",
			"exact rounding ties in the fixed-point evaluation are accepted either way",
			"parameters are changed through the keeper (what a passed param-change proposal does)",
		},
	})
}
