package c09

import (
	"fmt"
	"sort"
	"strings"
	"time"

	sdkmath "cosmossdk.io/math"
	sdk "github.com/cosmos/cosmos-sdk/types"

	stakingtypes "github.com/cosmos/cosmos-sdk/x/staking/types"
	vtypes "github.com/haqq-network/haqq/x/vesting/types"

	"verif/harness/engine"
	rm "verif/harness/refmodel"
	"verif/harness/world"
)

// ---- reference model of one vesting account ----------------------------------------------------

type vmodel struct {
	exists bool
	funder string
	lock   rm.Sched
	vest   rm.Sched
}

func (m vmodel) String() string {
	if !m.exists {
		return "-"
	}
	return fmt.Sprintf("f=%s s=%d L{%s} V{%s}", m.funder[len(m.funder)-4:], m.vest.Start, m.lock.EventMap(), m.vest.EventMap())
}

// capSched returns min(s, cap) as a schedule with the same event times.
func capSched(s rm.Sched, cap rm.Amt) rm.Sched {
	o := rm.Sched{Start: s.Start}
	ev := append([]rm.Event{}, s.Events...)
	sort.SliceStable(ev, func(i, j int) bool { return ev[i].T < ev[j].T })
	cum, prev := rm.Amt{}, rm.Amt{}
	for _, e := range ev {
		cum = cum.Add(e.A)
		now := cum.Min(cap)
		d := now.Sub(prev)
		if !d.IsZero() {
			o.Events = append(o.Events, rm.Event{T: e.T, A: d})
		}
		prev = now
	}
	return o
}

type sched struct {
	name       string
	lock, vest plist
}

const sec = int64(1)

func schedules(tier string) []sched {
	a := func(n int64) rm.Amt { return rm.One(world.Denom, n) }
	ab := func(n, m int64) rm.Amt { return rm.One(world.Denom, n).Add(rm.One("atest", m)) }
	all := []sched{
		{"s1", plist{{Len: 10, A: a(4)}}, plist{{Len: 10, A: a(2)}, {Len: 10, A: a(2)}}},
		{"s2", plist{{Len: 10, A: a(2)}, {Len: 20, A: a(2)}}, plist{{Len: 20, A: a(1)}, {Len: 10, A: a(3)}}},
		{"s3", plist{}, plist{{Len: 10, A: a(4)}}},
		{"s4", plist{{Len: 20, A: a(4)}}, plist{}},
		{"s5", plist{{Len: 10, A: ab(2, 2)}}, plist{{Len: 10, A: ab(1, 1)}, {Len: 10, A: ab(1, 1)}}},
	}
	if tier == "thorough" {
		return []sched{all[0], all[1], all[4]}
	}
	return all
}

type sdriver struct {
	w          *world.World
	models     []vmodel
	tier       string
	t0         int64
	F, G, D, V sdk.AccAddress
}

func newSDriver(tier string) *sdriver {
	w := world.New(world.Options{NumAccounts: 5, ExtraCoins: sdk.NewCoins(sdk.NewInt64Coin("atest", 1000000))})
	d := &sdriver{w: w, tier: tier, t0: w.Header.Time.Unix()}
	d.F, d.G, d.D = w.Addrs[1], w.Addrs[2], w.Addrs[3]
	d.V = sdk.AccAddress(world.Key(20).PubKey().Address().Bytes())
	d.models = []vmodel{{}}
	return d
}

func (d *sdriver) model(depth int) vmodel { return d.models[depth] }
func (d *sdriver) setModel(depth int, m vmodel) {
	for len(d.models) <= depth {
		d.models = append(d.models, vmodel{})
	}
	d.models[depth] = m
}

func (d *sdriver) setTime(t int64) {
	w := d.w
	tt := time.Unix(t, 0).UTC()
	ctx := w.App.BaseApp.VerifDeliverCtx()
	w.Header.Time = tt
	w.App.BaseApp.VerifSetDeliverCtx(ctx.WithBlockHeader(w.Header))
}

func (d *sdriver) name(a sdk.AccAddress) string {
	switch {
	case a.Equals(d.F):
		return "F"
	case a.Equals(d.G):
		return "G"
	case a.Equals(d.D):
		return "D"
	case a.Equals(d.V):
		return "V"
	}
	return a.String()
}

func (d *sdriver) ops(w *world.World, depth int, path []string) []engine.Op {
	var out []engine.Op
	add := func(name string, f func(p []string, res *engine.Result, m vmodel) (string, vmodel)) {
		out = append(out, engine.Op{Name: name, Apply: func(w *world.World, p []string, res *engine.Result) string {
			m := d.model(len(p) - 1)
			oc, nm := f(p, res, m)
			d.setModel(len(p), nm)
			return oc
		}})
	}
	starts := []int64{0, -15, 15}
	if d.tier == "thorough" {
		starts = []int64{-15, 15}
	}
	for _, s := range schedules(d.tier) {
		for _, so := range starts {
			s, so := s, so
			add(fmt.Sprintf("create(%s,start%+d)", s.name, so), func(p []string, res *engine.Result, m vmodel) (string, vmodel) {
				return d.grant("msgCreate", false, d.F, s, d.t0+so, p, res, m)
			})
		}
	}
	for _, s := range schedules(d.tier) {
		for _, so := range starts {
			s, so := s, so
			add(fmt.Sprintf("mergeCreate(%s,start%+d)", s.name, so), func(p []string, res *engine.Result, m vmodel) (string, vmodel) {
				return d.grant("msgCreate", true, d.F, s, d.t0+so, p, res, m)
			})
			add(fmt.Sprintf("mergeConvert(%s,start%+d)", s.name, so), func(p []string, res *engine.Result, m vmodel) (string, vmodel) {
				return d.grant("msgConvertInto", true, d.F, s, d.t0+so, p, res, m)
			})
		}
		// backdated grant with automatic staking of what has vested of it by now (exactly that, and
		// nothing when nothing has)
		if len(s.vest) > 0 {
			s := s
			add(fmt.Sprintf("mergeConvertStake(%s,start-15)", s.name), func(p []string, res *engine.Result, m vmodel) (string, vmodel) {
				return d.grant("msgConvertInto+stake", true, d.F, s, d.t0-15, p, res, m)
			})
		}
	}
	// the grantee stakes what has vested and starts unbonding it again (the account's delegation
	// bookkeeping then has to count bonded and unbonding coins), as separate operations and - so that
	// it fits the quick depth - as one step followed by a merged grant
	stake := func() bool {
		ctx := w.Ctx()
		acc, ok := w.App.AccountKeeper.GetAccount(ctx, d.V).(*vtypes.ClawbackVestingAccount)
		if !ok {
			return false
		}
		free := w.App.BankKeeper.GetBalance(ctx, d.V, world.Denom).Amount.Sub(acc.GetVestingCoins(w.Header.Time).AmountOf(world.Denom))
		if !free.IsPositive() {
			return false
		}
		_, err := w.RunMsg(ctx, stakingtypes.NewMsgDelegate(d.V, w.ValAddr[0], sdk.NewCoin(world.Denom, free)))
		return err == nil
	}
	unbond := func() bool {
		ctx := w.Ctx()
		del, ok := w.App.StakingKeeper.GetDelegation(ctx, d.V, w.ValAddr[0])
		if !ok {
			return false
		}
		v, _ := w.App.StakingKeeper.GetValidator(ctx, w.ValAddr[0])
		amt := v.TokensFromShares(del.Shares).TruncateInt()
		_, err := w.RunMsg(ctx, stakingtypes.NewMsgUndelegate(d.V, w.ValAddr[0], sdk.NewCoin(world.Denom, amt)))
		return err == nil
	}
	if d.tier == "thorough" {
		add("delegate(vested)", func(p []string, res *engine.Result, m vmodel) (string, vmodel) {
			if !stake() {
				return "skip", m
			}
			return "ok", m
		})
		add("undelegate(all)", func(p []string, res *engine.Result, m vmodel) (string, vmodel) {
			if !unbond() {
				return "skip", m
			}
			return "ok", m
		})
	}
	{
		s1 := schedules(d.tier)[0]
		add(fmt.Sprintf("stake+unbond(vested)+mergeCreate(%s,start+0)", s1.name), func(p []string, res *engine.Result, m vmodel) (string, vmodel) {
			if !m.exists || !stake() || !unbond() {
				return "skip", m
			}
			return d.grant("msgCreate", true, d.F, s1, d.t0, p, res, m)
		})
	}
	// grants whose lockup and vesting totals differ in a denomination one of the two does not have
	// at all: both message kinds must refuse them (every coin of a grant needs a lockup and a vesting event)
	a4 := rm.One(world.Denom, 4)
	a2 := rm.One(world.Denom, 2)
	for _, ms := range []sched{
		{"lockup-has-extra-denom", plist{{Len: 10, A: a4.Add(rm.One("atest", 2))}}, plist{{Len: 10, A: a2}, {Len: 10, A: a2}}},
		{"vesting-has-extra-denom", plist{{Len: 10, A: a4}}, plist{{Len: 10, A: a2.Add(rm.One("atest", 1))}, {Len: 10, A: a2.Add(rm.One("atest", 1))}}},
	} {
		for _, kind := range []string{"msgCreate", "msgConvertInto"} {
			ms, kind := ms, kind
			add(fmt.Sprintf("mismatched(%s,%s)", kind, ms.name), func(p []string, res *engine.Result, m vmodel) (string, vmodel) {
				w := d.w
				st := time.Unix(d.t0, 0).UTC()
				var msg sdk.Msg
				if kind == "msgCreate" {
					msg = vtypes.NewMsgCreateClawbackVestingAccount(d.F, d.V, st, ms.lock.sdk(), ms.vest.sdk(), true)
				} else {
					msg = vtypes.NewMsgConvertIntoVestingAccount(d.F, d.V, st, ms.lock.sdk(), ms.vest.sdk(), true, false, nil)
				}
				_, err := w.RunMsg(w.Ctx(), msg)
				res.Evaluations++
				if err == nil {
					d.viol(res, "create", kind, "mismatched-totals", "a grant whose lockup and vesting totals differ was accepted", p, map[string]any{"lockup": ms.lock.sdk().String(), "vesting": ms.vest.sdk().String()})
					return "ok", m
				}
				return engine.ErrClass(err), m
			})
		}
	}
	s1 := schedules(d.tier)[0]
	add("mergeCreateByG(s1,start+0)", func(p []string, res *engine.Result, m vmodel) (string, vmodel) {
		return d.grant("msgCreate", true, d.G, s1, d.t0, p, res, m)
	})
	add("mergeConvertByG(s1,start+0)", func(p []string, res *engine.Result, m vmodel) (string, vmodel) {
		return d.grant("msgConvertInto", true, d.G, s1, d.t0, p, res, m)
	})
	for _, c := range []struct {
		name     string
		by, dest sdk.AccAddress
	}{{"clawback(F)", d.F, nil}, {"clawback(F>D)", d.F, d.D}, {"clawback(G)", d.G, nil}} {
		c := c
		add(c.name, func(p []string, res *engine.Result, m vmodel) (string, vmodel) {
			return d.clawback(c.by, c.dest, p, res, m)
		})
	}
	add("updateFunder(F>G)", func(p []string, res *engine.Result, m vmodel) (string, vmodel) {
		return d.updFunder(d.F, d.G, p, res, m)
	})
	add("updateFunder(G>F)", func(p []string, res *engine.Result, m vmodel) (string, vmodel) {
		return d.updFunder(d.G, d.F, p, res, m)
	})
	for _, k := range []int64{9, 10, 11, 19, 20, 21, 30, 45} {
		k := k
		add(fmt.Sprintf("time(+%d)", k), func(p []string, res *engine.Result, m vmodel) (string, vmodel) {
			if d.t0+k <= w.Header.Time.Unix() {
				return "skip", m
			}
			d.setTime(d.t0 + k)
			return "ok", m
		})
	}
	return out
}

func (d *sdriver) viol(res *engine.Result, fn, path, breach, what string, p []string, detail map[string]any) {
	res.AddViolation(engine.Violation{Signature: fmt.Sprintf("C09|fn=%s|path=%s|breach=%s", fn, path, breach), What: what, Path: p, Detail: detail})
}

func (d *sdriver) grant(kind string, merge bool, from sdk.AccAddress, s sched, start int64, p []string, res *engine.Result, m vmodel) (string, vmodel) {
	w := d.w
	ctx := w.Ctx()
	st := time.Unix(start, 0).UTC()
	total := rm.FromPeriods(start, s.vest).Total()
	if len(s.vest) == 0 {
		total = rm.FromPeriods(start, s.lock).Total()
	}
	var msg sdk.Msg
	stake := strings.HasSuffix(kind, "+stake")
	if kind == "msgCreate" {
		msg = vtypes.NewMsgCreateClawbackVestingAccount(from, d.V, st, s.lock.sdk(), s.vest.sdk(), merge)
	} else {
		msg = vtypes.NewMsgConvertIntoVestingAccount(from, d.V, st, s.lock.sdk(), s.vest.sdk(), merge, stake, w.ValAddr[0])
	}
	bonded := func() sdkmath.Int {
		if del, ok := w.App.StakingKeeper.GetDelegation(ctx, d.V, w.ValAddr[0]); ok {
			if v, ok := w.App.StakingKeeper.GetValidator(ctx, w.ValAddr[0]); ok {
				return v.TokensFromShares(del.Shares).TruncateInt()
			}
		}
		return sdkmath.ZeroInt()
	}
	preF := w.App.BankKeeper.GetAllBalances(ctx, from)
	preV := w.App.BankKeeper.GetAllBalances(ctx, d.V)
	preBonded := bonded()
	_, err := w.RunMsg(ctx, msg)
	res.Evaluations++
	vestedNow := sdkmath.NewIntFromBigInt(rm.FromPeriods(start, s.vest).Read(w.Header.Time.Unix()).Get(world.Denom))
	if err != nil {
		return engine.ErrClass(err), m
	}
	staked := bonded().Sub(preBonded)
	if stake {
		if !staked.Equal(vestedNow) {
			d.viol(res, "create", kind, "staked-amount", "automatic staking delegated something else than what has vested of the grant", p,
				map[string]any{"staked": staked.String(), "vested_of_grant": vestedNow.String()})
		}
	}
	fn := "create"
	if merge && m.exists {
		fn = "merge"
	}
	// model: defaults for an absent schedule are an instant (length 0) release
	lock, vest := s.lock, s.vest
	if len(lock) == 0 {
		lock = plist{{Len: 0, A: total}}
	}
	if len(vest) == 0 {
		vest = plist{{Len: 0, A: total}}
	}
	nm := m
	if !m.exists {
		nm = vmodel{exists: true, funder: from.String(), lock: rm.FromPeriods(start, lock), vest: rm.FromPeriods(start, vest)}
	} else {
		nm.lock = rm.Union(m.lock, rm.FromPeriods(start, lock))
		nm.vest = rm.Union(m.vest, rm.FromPeriods(start, vest))
		if from.String() != m.funder {
			d.viol(res, fn, kind, "funder", "a grant from an account other than the recorded funder was merged", p, nil)
		}
	}
	if got := w.App.BankKeeper.GetAllBalances(ctx, from); !FromCoins(preF.Sub(got...)).Equal(total) {
		d.viol(res, fn, kind, "amount", "the funder was not debited exactly the grant", p, nil)
	}
	// (coins delegated by the automatic staking have left the balance but not the account)
	if got := w.App.BankKeeper.GetAllBalances(ctx, d.V).Add(sdk.NewCoin(world.Denom, staked)); !FromCoins(got.Sub(preV...)).Equal(total) {
		d.viol(res, fn, kind, "amount", "the vesting account was not credited exactly the grant", p, nil)
	}
	d.checkAccount(res, fn, kind, p, nm)
	if fn == "merge" {
		res.Nontrivial[m.String()+"+"+s.name+fmt.Sprint(start-d.t0)] = true
	}
	return "ok", nm
}

// checkAccount compares the stored account with the model at every interesting instant.
func (d *sdriver) checkAccount(res *engine.Result, fn, kind string, p []string, m vmodel) {
	ctx := d.w.Ctx()
	acc, ok := d.w.App.AccountKeeper.GetAccount(ctx, d.V).(*vtypes.ClawbackVestingAccount)
	if !ok {
		d.viol(res, fn, kind, "no-account", "the vesting account is not a clawback vesting account after the message", p, nil)
		return
	}
	if acc.FunderAddress != m.funder {
		d.viol(res, fn, kind, "funder-field", "recorded funder differs from the model", p, nil)
	}
	if !FromCoins(acc.OriginalVesting).Equal(m.vest.Total()) {
		d.viol(res, fn, kind, "original", "original vesting differs from the sum of the grants", p, map[string]any{"got": acc.OriginalVesting.String(), "want": m.vest.Total().String()})
	}
	maxStart := int64(0)
	for _, t := range rm.Times(m.lock, m.vest) {
		bt := time.Unix(t, 0)
		res.Evaluations++
		gv, wv := FromCoins(acc.GetVestedCoins(bt)), m.vest.Read(t)
		gu, wu := FromCoins(acc.GetUnlockedCoins(bt)), m.lock.Read(t)
		if !gv.Equal(wv) || !gu.Equal(wu) {
			breach := "late"
			if !gv.LTE(wv) || !gu.LTE(wu) {
				breach = "early"
			}
			d.viol(res, fn, kind, breach, "stored schedule releases a different amount than the union of the grants", p,
				map[string]any{"t_rel": t - d.t0, "vested_got": gv.String(), "vested_want": wv.String(), "unlocked_got": gu.String(), "unlocked_want": wu.String(), "model": m.String()})
			break
		}
	}
	_ = maxStart
	if fn == "create" || fn == "merge" || fn == "clawback" {
		if err := acc.Validate(); err != nil {
			res.AddViolation(engine.Violation{Signature: "C09|fn=" + fn + "|breach=invalid-account|err=" + errKey(err),
				What: "the account left by the message fails its own Validate()", Path: p, Detail: map[string]any{"err": err.Error()}})
		}
	}
}

func errKey(err error) string {
	s := err.Error()
	s = strings.ReplaceAll(s, " ", "-")
	if len(s) > 60 {
		s = s[:60]
	}
	return s
}

func (d *sdriver) clawback(by, dest sdk.AccAddress, p []string, res *engine.Result, m vmodel) (string, vmodel) {
	w := d.w
	ctx := w.Ctx()
	now := w.Header.Time.Unix()
	to := dest
	if to == nil {
		to = by
	}
	preTo := w.App.BankKeeper.GetAllBalances(ctx, to)
	preV := w.App.BankKeeper.GetAllBalances(ctx, d.V)
	_, err := w.RunMsg(ctx, vtypes.NewMsgClawback(by, d.V, dest))
	res.Evaluations++
	if err != nil {
		// the recorded funder can always take the unvested coins back: they never leave the account
		if m.exists && by.String() == m.funder && !m.vest.Total().Sub(m.vest.Read(now)).IsZero() {
			d.viol(res, "clawback", "msgClawback", "refused", "a clawback by the recorded funder was refused although coins are unvested", p,
				map[string]any{"err": err.Error(), "unvested": m.vest.Total().Sub(m.vest.Read(now)).String(), "t_rel": now - d.t0})
		}
		return engine.ErrClass(err), m
	}
	if !m.exists {
		d.viol(res, "clawback", "msgClawback", "no-account", "clawback succeeded on a non-existent vesting account", p, nil)
		return "ok", m
	}
	if by.String() != m.funder {
		d.viol(res, "clawback", "msgClawback", "funder", "a clawback by an account other than the recorded funder succeeded", p, map[string]any{"by": d.name(by)})
	}
	kept := m.vest.Read(now)
	unvested := m.vest.Total().Sub(kept)
	gotTo := FromCoins(w.App.BankKeeper.GetAllBalances(ctx, to).Sub(preTo...))
	gotV := FromCoins(preV.Sub(w.App.BankKeeper.GetAllBalances(ctx, d.V)...))
	if !gotTo.Equal(unvested) || !gotV.Equal(unvested) {
		d.viol(res, "clawback", "msgClawback", "amount", "clawback did not move exactly the unvested amount to the destination", p,
			map[string]any{"dest_delta": gotTo.String(), "account_delta": gotV.String(), "want": unvested.String(), "t_rel": now - d.t0})
	}
	nm := m
	if !unvested.IsZero() {
		nv := rm.Sched{Start: m.vest.Start}
		for _, e := range m.vest.Events {
			if e.T <= now && now > m.vest.Start {
				nv.Events = append(nv.Events, e)
			}
		}
		nm.vest = nv
		nm.lock = capSched(m.lock, kept)
		res.Nontrivial["claw|"+m.String()+fmt.Sprint(now-d.t0)] = true
	}
	d.checkAccount(res, "clawback", "msgClawback", p, nm)
	return "ok", nm
}

func (d *sdriver) updFunder(by, to sdk.AccAddress, p []string, res *engine.Result, m vmodel) (string, vmodel) {
	_, err := d.w.RunMsg(d.w.Ctx(), vtypes.NewMsgUpdateVestingFunder(by, to, d.V))
	res.Evaluations++
	if err != nil {
		return engine.ErrClass(err), m
	}
	if !m.exists || by.String() != m.funder {
		d.viol(res, "funder-update", "msgUpdateVestingFunder", "funder", "the funder was changed by an account other than the recorded funder", p, nil)
	}
	nm := m
	nm.funder = to.String()
	d.checkAccount(res, "funder-update", "msgUpdateVestingFunder", p, nm)
	return "ok", nm
}

func sbounds(tier string) (int, time.Duration) {
	if tier == "thorough" {
		return 5, 45 * time.Minute
	}
	return 3, 4 * time.Minute
}

func StatefulWorker(res *engine.Result, tier string, shard, n int) {
	d := newSDriver(tier)
	depth, dl := sbounds(tier)
	sub := engine.NewResult(Prop)
	e := &engine.Explorer{W: d.w, Res: sub, Stores: []string{"acc", "bank"}, Ops: d.ops, MaxDepth: depth, Shard: shard, NShards: n,
		Deadline: time.Now().Add(dl), NoDedup: true,
		Extra: func(w *world.World) string { return fmt.Sprint(w.Header.Time.Unix()) }}
	e.Run()
	for k, v := range sub.States {
		res.States["st|"+k] = v
	}
	sub.States = map[string]int{}
	res.Merge(sub)
	if shard == 0 {
		var names []string
		for _, o := range d.ops(d.w, 0, nil) {
			names = append(names, o.Name)
		}
		res.Extra["stateful_alphabet"] = strings.Join(names, " ")
	}
}

func ReplayStateful(v engine.Violation) []string {
	tier := "quick"
	d := newSDriver(tier)
	res := engine.NewResult(Prop)
	for i, name := range v.Path {
		var found *engine.Op
		for _, op := range d.ops(d.w, i, v.Path[:i]) {
			if op.Name == name {
				o := op
				found = &o
			}
		}
		if found == nil {
			// thorough-only alphabet?
			return nil
		}
		found.Apply(d.w, v.Path[:i+1], res)
	}
	var sigs []string
	for _, x := range res.Violations {
		sigs = append(sigs, x.Signature)
	}
	return sigs
}
