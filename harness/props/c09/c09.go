package c09

import (
	"strings"
	"time"

	"verif/harness/engine"
)

func Worker(shard, n int, tier string) *engine.Result {
	res := engine.NewResult(Prop)
	PureWorker(res, tier, shard, n)
	StatefulWorker(res, tier, shard, n)
	return res
}

func Replay(v engine.Violation) []string {
	if len(v.Path) == 1 && strings.Contains(v.Path[0], "start=") {
		// pure grid case: re-run the (fast) grid shard-less and report its signatures
		res := engine.NewResult(Prop)
		PureWorker(res, "quick", 0, 1)
		var sigs []string
		for _, x := range res.Violations {
			sigs = append(sigs, x.Signature)
		}
		return sigs
	}
	return ReplayStateful(v)
}

func Run(tier string) int {
	start := time.Now()
	res := engine.RunSharded(Prop, tier, 16, Worker)
	res.TracesImpl = res.Evaluations
	depth, _ := sbounds(tier)
	res.Sample(map[string]any{"pure": "A: start=101 [1:1a 0:2a]  B: start=103 [2:1a]  read at every instant", "stateful": []string{"create(s2,start-15)", "time(+10)", "mergeConvert(s1,start+15)", "clawback(F>D)"}})
	return engine.Finish(res, engine.Meta{
		Property: Prop, Tier: tier, Level: "model_checking", Start: start,
		Rule: "pure: full grid of period-list pairs x start offsets x every read instant through ReadSchedule/ReadPastPeriodCount/DisjunctPeriods/ConjunctPeriods/ComputeClawback vs step-function reference; stateful: all sequences <= depth of create/merge(2 paths)/clawback/funder-update/time-jump and grants with mismatched lockup / vesting totals (must be refused by both message kinds) on the real msg servers with a lock-step union/cap model, stored account compared at every event time +-1. Non-trivial = pair with differing offsets or both non-empty / successful merge or clawback distinct by model state",
		Bounds: map[string]any{"stateful_depth": depth, "period_lists": "<=2 periods len{0,1,2} amt{1,2}; 3 periods len{1,2}; multi-denom <=2 periods", "offsets": []int{0, 1, 3}},
		Assumptions: []string{
			"union property checked for t > max(start) (statement: after both have started); capping for t outside (minStart, maxStart]",
			"stateful part: messages through the msg-service router on cache contexts; block time set on the branch header",
			"period lengths >= 1 in messages (ValidateBasic rejects 0); zero-length periods covered by the pure part",
		},
		Replayer: nil,
	})
}
