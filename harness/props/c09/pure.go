// Package c09: vesting schedule arithmetic is exact; clawback takes only unvested.
package c09

import (
	"fmt"
	"math/big"
	"time"

	sdkmath "cosmossdk.io/math"
	sdk "github.com/cosmos/cosmos-sdk/types"
	authtypes "github.com/cosmos/cosmos-sdk/x/auth/types"
	sdkvesting "github.com/cosmos/cosmos-sdk/x/auth/vesting/types"

	vtypes "github.com/haqq-network/haqq/x/vesting/types"

	"verif/harness/engine"
	rm "verif/harness/refmodel"
)

const Prop = "C09"

type plist []rm.Period

func (p plist) String() string {
	s := "["
	for i, x := range p {
		if i > 0 {
			s += " "
		}
		s += fmt.Sprintf("%d:%s", x.Len, x.A)
	}
	return s + "]"
}

func (p plist) sdk() sdkvesting.Periods {
	out := sdkvesting.Periods{}
	for _, x := range p {
		out = append(out, sdkvesting.Period{Length: x.Len, Amount: ToCoins(x.A)})
	}
	return out
}

func (p plist) totalLen() int64 {
	var n int64
	for _, x := range p {
		n += x.Len
	}
	return n
}

func ToCoins(a rm.Amt) sdk.Coins {
	c := sdk.NewCoins()
	for d, v := range a {
		if v.Sign() > 0 {
			c = c.Add(sdk.NewCoin(d, sdkmath.NewIntFromBigInt(v)))
		}
	}
	return c
}

func FromCoins(c sdk.Coins) rm.Amt {
	a := rm.Amt{}
	for _, x := range c {
		if !x.Amount.IsZero() {
			a[x.Denom] = new(big.Int).Set(x.Amount.BigInt())
		}
	}
	return a
}

// genLists enumerates all period lists with <= maxN periods over the given lengths and amounts.
func genLists(maxN int, lens []int64, amts []rm.Amt) []plist {
	out := []plist{{}}
	cur := []plist{{}}
	for n := 1; n <= maxN; n++ {
		var next []plist
		for _, base := range cur {
			for _, l := range lens {
				for _, a := range amts {
					p := append(append(plist{}, base...), rm.Period{Len: l, A: a})
					next = append(next, p)
				}
			}
		}
		out = append(out, next...)
		cur = next
	}
	return out
}

func implEvents(start int64, ps sdkvesting.Periods) rm.Sched {
	var rp []rm.Period
	for _, p := range ps {
		rp = append(rp, rm.Period{Len: p.Length, A: FromCoins(p.Amount)})
	}
	return rm.FromPeriods(start, rp)
}

type pureCtx struct {
	res *engine.Result
}

func (c *pureCtx) viol(fn, breach, what, cas string, detail map[string]any) {
	c.res.AddViolation(engine.Violation{Signature: fmt.Sprintf("C09|fn=%s|breach=%s", fn, breach), What: what, Path: []string{cas}, Detail: detail})
}

// checkRead: ReadSchedule / ReadPastPeriodCount against the step-function reference.
func (c *pureCtx) checkRead(start int64, p plist) {
	ref := rm.FromPeriods(start, p)
	sp := p.sdk()
	end := start + p.totalLen()
	total := ToCoins(ref.Total())
	prev := rm.Amt{}
	for t := start - 1; t <= end+1; t++ {
		got := FromCoins(vtypes.ReadSchedule(start, end, sp, total, t))
		want := ref.Read(t)
		c.res.Evaluations++
		c.res.Transitions++
		cas := fmt.Sprintf("start=%d periods=%s t=%d", start, p, t)
		if !got.Equal(want) {
			c.viol("read", "value", "ReadSchedule differs from the sum of periods ended by t", cas, map[string]any{"got": got.String(), "want": want.String()})
		}
		if !prev.LTE(got) {
			c.viol("read", "monotone", "ReadSchedule decreases over time", cas, nil)
		}
		prev = got
		n := vtypes.ReadPastPeriodCount(start, end, sp, t)
		sum := rm.Amt{}
		for i := 0; i < n && i < len(p); i++ {
			sum = sum.Add(p[i].A)
		}
		if n < 0 || n > len(p) || !sum.Equal(want) {
			c.viol("count", "value", "ReadPastPeriodCount inconsistent with ReadSchedule", cas, map[string]any{"count": n})
		}
	}
}

func (c *pureCtx) checkDisjunct(sa, sb int64, a, b plist) {
	ra, rb := rm.FromPeriods(sa, a), rm.FromPeriods(sb, b)
	start, end, periods := vtypes.DisjunctPeriods(sa, sb, a.sdk(), b.sdk())
	cas := fmt.Sprintf("A: start=%d %s  B: start=%d %s", sa, a, sb, b)
	c.res.Transitions++
	u := rm.Union(ra, rb)
	if start != u.Start {
		c.viol("disjunct", "start", "merged start is not the minimum of the starts", cas, map[string]any{"got": start})
	}
	wantEnd := u.Start
	if len(u.Events) > 0 {
		wantEnd = u.End()
	}
	if end != wantEnd {
		c.viol("disjunct", "end", "merged end is not the time of the last event", cas, map[string]any{"got": end, "want": wantEnd})
	}
	for i, p := range periods {
		if p.Length < 0 {
			c.viol("disjunct", "negative-length", "merged schedule has a negative period length", cas, map[string]any{"index": i})
		}
	}
	impl := implEvents(start, periods)
	if impl.EventMap() != u.EventMap() {
		c.viol("disjunct", "events", "merged events are not the union of both schedules' events", cas, map[string]any{"got": impl.EventMap(), "want": u.EventMap()})
	}
	total := periods.TotalAmount()
	if !FromCoins(total).Equal(ra.Total().Add(rb.Total())) {
		c.viol("disjunct", "total", "merged total is not the sum of the totals", cas, nil)
	}
	maxStart := sa
	if sb > maxStart {
		maxStart = sb
	}
	for _, t := range rm.Times(ra, rb) {
		if t <= maxStart {
			continue
		}
		c.res.Evaluations++
		got := FromCoins(vtypes.ReadSchedule(start, end, periods, total, t))
		want := ra.Read(t).Add(rb.Read(t))
		if !got.Equal(want) {
			c.viol("disjunct", "value", "after both have started the merged schedule does not release the sum of the two", cas+fmt.Sprintf(" t=%d", t),
				map[string]any{"got": got.String(), "want": want.String()})
		}
	}
}

func (c *pureCtx) checkConjunct(sa, sb int64, a, b plist) {
	ra, rb := rm.FromPeriods(sa, a), rm.FromPeriods(sb, b)
	start, end, periods := vtypes.ConjunctPeriods(sa, sb, a.sdk(), b.sdk())
	cas := fmt.Sprintf("A: start=%d %s  B: start=%d %s", sa, a, sb, b)
	c.res.Transitions++
	minStart, maxStart := sa, sb
	if sb < sa {
		minStart, maxStart = sb, sa
	}
	if start != minStart {
		c.viol("conjunct", "start", "capped start is not the minimum of the starts", cas, nil)
	}
	total := periods.TotalAmount()
	for _, t := range rm.Times(ra, rb) {
		if t > minStart && t <= maxStart {
			continue // between the two starts the boundary rule of the later schedule applies
		}
		c.res.Evaluations++
		got := FromCoins(vtypes.ReadSchedule(start, end, periods, total, t))
		want := ra.Read(t).Min(rb.Read(t))
		if !got.Equal(want) {
			c.viol("conjunct", "value", "capped schedule is not the pointwise minimum", cas+fmt.Sprintf(" t=%d", t),
				map[string]any{"got": got.String(), "want": want.String()})
		}
	}
}

func newAcct(start int64, lock, vest plist) *vtypes.ClawbackVestingAccount {
	addr := sdk.AccAddress(make([]byte, 20))
	addr[19] = 7
	funder := sdk.AccAddress(make([]byte, 20))
	funder[19] = 9
	total := ToCoins(rm.FromPeriods(start, vest).Total())
	return vtypes.NewClawbackVestingAccount(authtypes.NewBaseAccountWithAddress(addr), funder, total, time.Unix(start, 0).UTC(), lock.sdk(), vest.sdk(), nil)
}

// checkAccount: identities on the account level and ComputeClawback at every instant.
func (c *pureCtx) checkAccount(start int64, lock, vest plist) {
	rl, rv := rm.FromPeriods(start, lock), rm.FromPeriods(start, vest)
	orig := rv.Total()
	cas := fmt.Sprintf("start=%d lockup=%s vesting=%s", start, lock, vest)
	times := rm.Times(rl, rv)
	acc := newAcct(start, lock, vest)
	for _, t := range times {
		bt := time.Unix(t, 0)
		c.res.Evaluations++
		vested, unvested := FromCoins(acc.GetVestedCoins(bt)), FromCoins(acc.GetVestingCoins(bt))
		unlocked, locked := FromCoins(acc.GetUnlockedCoins(bt)), FromCoins(acc.GetLockedUpCoins(bt))
		if !vested.Add(unvested).Equal(orig) || !unlocked.Add(locked).Equal(orig) {
			c.viol("account", "sum", "vested+unvested or locked+unlocked differs from the original grant", cas+fmt.Sprintf(" t=%d", t), nil)
		}
		if vested.HasNegative() || unvested.HasNegative() || unlocked.HasNegative() || locked.HasNegative() {
			c.viol("account", "negative", "a schedule quantity is negative", cas+fmt.Sprintf(" t=%d", t), nil)
		}
		if !vested.Equal(rv.Read(t)) || !unlocked.Equal(rl.Read(t)) {
			c.viol("account", "value", "account vested/unlocked differs from the reference", cas+fmt.Sprintf(" t=%d", t), nil)
		}
	}
	for _, t := range times {
		fresh := newAcct(start, lock, vest) // ComputeClawback mutates the shared BaseVestingAccount
		na, claw := fresh.ComputeClawback(t)
		c.res.Transitions++
		kept := rv.Read(t)
		ccas := cas + fmt.Sprintf(" clawback@%d", t)
		if !FromCoins(claw).Equal(orig.Sub(kept)) {
			c.viol("clawback", "amount", "clawback amount is not exactly the unvested amount", ccas, map[string]any{"got": claw.String(), "want": orig.Sub(kept).String()})
		}
		if !FromCoins(na.OriginalVesting).Equal(kept) {
			c.viol("clawback", "kept", "account does not keep exactly the vested coins", ccas, map[string]any{"got": na.OriginalVesting.String(), "want": kept.String()})
		}
		for _, t2 := range times {
			bt := time.Unix(t2, 0)
			c.res.Evaluations++
			wantV := rv.Read(min64(t2, t))
			if t2 <= start {
				wantV = rm.Amt{}
			}
			if got := FromCoins(na.GetVestedCoins(bt)); !got.Equal(wantV) {
				c.viol("clawback", "vested-after", "vested amount after clawback differs from the reference", ccas+fmt.Sprintf(" t'=%d", t2), map[string]any{"got": got.String(), "want": wantV.String()})
			}
			wantU := rl.Read(t2).Min(kept)
			if got := FromCoins(na.GetUnlockedCoins(bt)); !got.Equal(wantU) {
				c.viol("clawback", "lockup-after", "kept coins are not subject to the original lockup any more (or longer than it)", ccas+fmt.Sprintf(" t'=%d", t2), map[string]any{"got": got.String(), "want": wantU.String()})
			}
		}
		if claw.IsZero() {
			continue // transferClawback is a no-op then: the account is left untouched
		}
		if err := na.Validate(); err != nil {
			c.res.AddViolation(engine.Violation{Signature: "C09|fn=clawback|breach=invalid-account|err=" + errKey(err),
				What: "the account left by a clawback fails its own Validate()", Path: []string{ccas}, Detail: map[string]any{"err": err.Error(), "kept": kept.String()}})
		}
	}
}

func min64(a, b int64) int64 {
	if a < b {
		return a
	}
	return b
}

// PureWorker runs shard i of n of the grid part.
func PureWorker(res *engine.Result, tier string, shard, n int) {
	c := &pureCtx{res: res}
	one := func(d string, k int64) rm.Amt { return rm.One(d, k) }
	amts := []rm.Amt{one("aaa", 1), one("aaa", 2)}
	lists := genLists(2, []int64{0, 1, 2}, amts)
	for _, l := range genLists(3, []int64{1, 2}, amts) {
		if len(l) == 3 {
			lists = append(lists, l)
		}
	}
	multi := genLists(2, []int64{1, 2}, []rm.Amt{one("aaa", 1), one("bbb", 1), one("aaa", 1).Add(one("bbb", 1))})
	if tier == "thorough" {
		multi = genLists(2, []int64{0, 1, 2}, []rm.Amt{one("aaa", 1), one("bbb", 2), one("aaa", 2).Add(one("bbb", 1))})
	}
	offsets := []int64{0, 1, 3}
	res.Extra["grid_lists_single_denom"] = len(lists)
	res.Extra["grid_lists_multi_denom"] = len(multi)
	idx := 0
	for _, set := range [][]plist{lists, multi} {
		for _, a := range set {
			idx++
			if idx%n == shard {
				for _, s := range []int64{100, 0} {
					c.checkRead(s, a)
				}
			}
			for _, b := range set {
				idx++
				if idx%n != shard {
					continue
				}
				res.States[fmt.Sprintf("%s|%s", a, b)] = 0
				for _, oa := range offsets {
					for _, ob := range offsets {
						c.checkDisjunct(100+oa, 100+ob, a, b)
						c.checkConjunct(100+oa, 100+ob, a, b)
						if oa != ob || len(a) > 0 && len(b) > 0 {
							res.Nontrivial[fmt.Sprintf("%s|%s|%d|%d", a, b, oa, ob)] = true
						}
					}
				}
				// account level: lockup a, vesting b with equal totals
				if len(a) > 0 && len(b) > 0 && rm.FromPeriods(0, a).Total().Equal(rm.FromPeriods(0, b).Total()) {
					c.checkAccount(100, a, b)
					res.Outcomes["account-pairs"]++
				}
			}
		}
	}
	res.Outcomes["pure-evaluations"] = res.Evaluations
}
