package c10

// Part B: the IBC legs of the peg.  Two transfer channel ends on ibc-go's localhost connection loop
// packets back to the same chain, so that the real MsgTransfer wrapper (ERC20 -> coin before
// sending), the erc20 middleware's OnRecvPacket (coin -> ERC20 on arrival) and its
// OnAcknowledgementPacket / OnTimeoutPacket (coin -> ERC20 after a refund) run through the app's
// own message router.  The in-flight packet is model state kept per search depth.

import (
	"fmt"
	"math/big"
	"os"
	"sort"
	"strings"
	"time"

	sdkmath "cosmossdk.io/math"
	sdk "github.com/cosmos/cosmos-sdk/types"
	banktypes "github.com/cosmos/cosmos-sdk/x/bank/types"
	transfertypes "github.com/cosmos/ibc-go/v7/modules/apps/transfer/types"
	"github.com/ethereum/go-ethereum/common"

	erc20types "github.com/haqq-network/haqq/x/erc20/types"

	"verif/harness/engine"
	"verif/harness/world"
)

type flight struct {
	p        *world.Packet
	tok      token // pair of the denomination sent
	amt      sdkmath.Int
	sender   int
	receiver string // bech32 or garbage
	srcCh    string
	received bool
	to       int  // recipient account index
	back     bool // the voucher of tok's denomination going home (sent on channel-1 by the recipient)
}

type ibcDriver struct {
	*driver
	names    []string // pairs in this family's alphabet
	rogue    bool     // family of misbehaving tokens: hook-path deposits and the thief's transferFrom are in the alphabet
	voucher  token
	pend     []*flight // per depth; nil = nothing in flight
	lastPend string    // the in-flight packet after the latest operation (part of the state digest)
}

func newIBCDriver(tier string, rogue bool) *ibcDriver {
	d := newDriver(tier)
	w := d.w
	if err := w.OpenLocalhostChannels(w.Ctx()); err != nil {
		panic(err)
	}
	// bring a first amount of the coin-origin denomination across, so that its voucher has supply and
	// can be registered as a coin-origin pair of its own (what governance does for IBC assets)
	ts := uint64(w.Header.Time.Add(time.Hour).UnixNano())
	p, err := w.IBCSend(w.Ctx(), world.IBCChannelA, w.Addrs[1], w.Addrs[1].String(), sdk.NewCoin("atest", sdkmath.NewIntFromBigInt(unit).MulRaw(5)), ts)
	if err != nil {
		panic(err)
	}
	if err := w.IBCRecv(w.Ctx(), p, w.Addrs[3]); err != nil {
		panic(err)
	}
	if err := w.IBCAck(w.Ctx(), p, w.Addrs[3]); err != nil {
		panic(err)
	}
	v := world.VoucherDenom(world.IBCChannelB, "atest")
	pair, err := w.App.Erc20Keeper.RegisterCoin(w.Ctx(), banktypes.Metadata{Description: "v", Base: v, Display: v, Name: "voucher", Symbol: "VCH",
		DenomUnits: []*banktypes.DenomUnit{{Denom: v, Exponent: 0}}})
	if err != nil {
		panic("register voucher: " + err.Error())
	}
	id := &ibcDriver{driver: d, voucher: token{"voucher", pair.GetERC20Contract(), v, "coin"}, names: []string{"coin", "voucher", "honest"}, rogue: rogue}
	if rogue {
		id.names = []string{"directmanip", "delayed"}
		d.via = func(t token, p []string) string {
			seen := map[string]bool{}
			var kinds []string
			for _, op := range p {
				if !strings.Contains(op, "("+t.name+",") {
					continue
				}
				k := op[:strings.IndexByte(op, '(')]
				if !seen[k] && k != "toggle" {
					seen[k] = true
					kinds = append(kinds, k)
				}
			}
			// an escrow built through the hook path is one finding whatever else happened to the token
			if seen["transferToModule"] {
				return "hook-deposit"
			}
			sort.Strings(kinds)
			return strings.Join(kinds, "+")
		}
		// the third party hard-wired into the malicious token exists as an account (it can sign)
		thief := sdk.AccAddress(common.HexToAddress("0x4dC6ac40Af078661fc43823086E1513635Eeab14").Bytes())
		if _, err := w.RunMsg(w.Ctx(), banktypes.NewMsgSend(w.Addrs[1], thief, sdk.NewCoins(sdk.NewInt64Coin(world.Denom, 1)))); err != nil {
			panic(err)
		}
	}
	d.toks = append(d.toks, id.voucher)
	// the recipient already holds vouchers of every pair of this family's alphabet (a first transfer
	// out was completed), so that the way home is within the search depth
	for _, tn := range id.names {
		if tn == "voucher" {
			continue
		}
		t := id.tokByName(tn)
		if tn == "delayed" {
			// its coins exist only after a hook-path deposit, which already is known finding D7b: left
			// to the operations, so that a path says how the module's escrow of this token came about
			continue
		}
		if t.origin == "erc20" && rogue {
			// coins of a misbehaving token only come into being through the hook path
			id.call(1, t.addr, "transfer", id.modHex, new(big.Int).Mul(unit, big.NewInt(10)))
		}
		amt := id.coinBal(t.denom, w.Addrs[1])
		if t.origin == "erc20" && !rogue {
			amt = sdkmath.NewIntFromBigInt(unit).MulRaw(5) // converted by the transfer wrapper on the way out
		}
		if cap5 := sdkmath.NewIntFromBigInt(unit).MulRaw(5); amt.GT(cap5) {
			amt = cap5
		}
		if !amt.IsPositive() {
			continue
		}
		pk, err := w.IBCSend(w.Ctx(), world.IBCChannelA, w.Addrs[1], w.Addrs[2].String(), sdk.NewCoin(t.denom, amt), ts)
		if err != nil {
			panic("fixture transfer of " + tn + ": " + err.Error())
		}
		if err := w.IBCRecv(w.Ctx(), pk, w.Addrs[3]); err != nil {
			panic(err)
		}
		if err := w.IBCAck(w.Ctx(), pk, w.Addrs[3]); err != nil {
			panic(err)
		}
	}
	id.pend = []*flight{nil}
	d.atestSupply = w.App.BankKeeper.GetSupply(w.Ctx(), "atest").Amount
	return id
}

func (d *ibcDriver) unified(t token, k int) sdkmath.Int {
	return d.coinBal(t.denom, d.w.Addrs[k]).Add(d.erc20Bal(t, d.w.Eth[k]))
}

// snapshot of everything a step may touch: both users' two representations of every pair, supplies.
func (d *ibcDriver) snap() string {
	s := ""
	for _, t := range d.toks {
		for _, k := range []int{1, 2} {
			s += fmt.Sprintf("%s/%d:%s+%s ", t.name, k, d.coinBal(t.denom, d.w.Addrs[k]), d.erc20Bal(t, d.w.Eth[k]))
		}
		s += fmt.Sprintf("%s/supply:%s/%s ", t.name, d.w.App.BankKeeper.GetSupply(d.w.Ctx(), t.denom).Amount, d.totalSupply(t))
	}
	return s
}

func (d *ibcDriver) tokByName(n string) token {
	for _, t := range d.toks {
		if t.name == n {
			return t
		}
	}
	panic(n)
}

// arrival is the pair under which the packet's coins arrive at the other end ("" pair: unregistered).
func (d *ibcDriver) arrival(f *flight) (token, string) {
	if f.back {
		return f.tok, f.tok.denom // home again under its own name: the pair's own denomination
	}
	switch f.tok.name {
	case "coin":
		return d.voucher, d.voucher.denom
	case "voucher":
		return d.tokByName("coin"), "atest"
	}
	dst := world.IBCChannelB
	if f.srcCh == world.IBCChannelB {
		dst = world.IBCChannelA
	}
	return token{}, world.VoucherDenom(dst, f.tok.denom)
}

func (d *ibcDriver) ops(w *world.World, depth int, path []string) []engine.Op {
	var out []engine.Op
	add := func(name string, f func(p []string, res *engine.Result) string) {
		out = append(out, engine.Op{Name: name, Apply: func(w *world.World, p []string, res *engine.Result) string {
			for len(d.pend) <= len(p) {
				d.pend = append(d.pend, nil)
			}
			d.pend[len(p)] = d.pend[len(p)-1]
			for len(d.burned) <= len(p) {
				d.burned = append(d.burned, sdkmath.ZeroInt())
			}
			d.burned[len(p)] = d.burned[len(p)-1]
			r := f(p, res)
			if r != "skip" {
				res.Counters["B|"+name+"|"+r]++
			}
			d.lastBurned = d.burned[len(p)].String()
			d.lastPend = "none"
			if fl := d.pend[len(p)]; fl != nil {
				d.lastPend = fmt.Sprintf("%s|%s|%s|%v|%d|%s", fl.tok.name, fl.amt, fl.receiver, fl.received, fl.p.P.Sequence, fl.srcCh)
			}
			return r
		}})
	}
	const S, R, relayer = 1, 2, 3
	viol := func(res *engine.Result, t token, op, breach, what string, p []string, detail map[string]any) {
		d.viol(res, t, "ibc."+op, breach, what, p, detail)
	}
	for _, tn := range d.names {
		t := d.tokByName(tn)
		srcCh := world.IBCChannelA
		if tn == "voucher" {
			srcCh = world.IBCChannelB // back towards its source
		}
		classes := []string{"1", "all", "all+1"}
		if d.rogue {
			classes = []string{"1", "coins", "all", "all+1"} // "coins": exactly the coin balance, no conversion needed
		}
		for _, cls := range classes {
			for _, rcv := range []string{"R", "garbage"} {
				if rcv == "garbage" && cls != "all" && cls != "coins" {
					continue
				}
				t, cls, rcv, srcCh := t, cls, rcv, srcCh
				add(fmt.Sprintf("ibcSend(%s,%s,%s)", tn, cls, rcv), func(p []string, res *engine.Result) string {
					if d.pend[len(p)] != nil {
						return "skip"
					}
					amt := pick(cls, d.unified(t, S))
					if cls == "coins" {
						amt = d.coinBal(t.denom, w.Addrs[S])
					}
					if !amt.IsPositive() {
						return "skip"
					}
					receiver := w.Addrs[R].String()
					if rcv == "garbage" {
						receiver = "not-an-address"
					}
					before, uni, sup := d.snap(), d.unified(t, S), w.App.BankKeeper.GetSupply(w.Ctx(), t.denom).Amount
					esc := d.coinBal(t.denom, transfertypes.GetEscrowAddress(world.IBCPort, srcCh))
					ts := uint64(w.Header.Time.Add(10 * time.Second).UnixNano())
					pk, err := w.IBCSend(w.Ctx(), srcCh, w.Addrs[S], receiver, sdk.NewCoin(t.denom, amt), ts)
					res.Evaluations++
					if err != nil {
						if after := d.snap(); after != before {
							viol(res, t, "send", "partial", "a failed IBC transfer changed balances", p, map[string]any{"before": before, "after": after, "err": engine.ErrClass(err)})
						}
						return engine.ErrClass(err)
					}
					if got := uni.Sub(d.unified(t, S)); !got.Equal(amt) {
						viol(res, t, "send", "notexact", "an IBC transfer debited the sender (coins + tokens) by something else than the amount", p, map[string]any{"amount": amt.String(), "debited": got.String()})
					}
					// where the coins went: escrowed (source side) or burned (voucher going home)
					escD := d.coinBal(t.denom, transfertypes.GetEscrowAddress(world.IBCPort, srcCh)).Sub(esc)
					supD := sup.Sub(w.App.BankKeeper.GetSupply(w.Ctx(), t.denom).Amount)
					if tn == "voucher" {
						if !supD.Equal(amt) || !escD.IsZero() {
							viol(res, t, "send", "notexact", "a returning voucher was not burned by exactly the amount", p, map[string]any{"amount": amt.String(), "burned": supD.String(), "escrowed": escD.String()})
						}
					} else if !escD.Equal(amt) {
						// ERC20-origin coins are minted for the transfer and then escrowed: supply may grow by the converted part
						viol(res, t, "send", "notexact", "the channel escrow did not grow by exactly the amount sent", p, map[string]any{"amount": amt.String(), "escrowed": escD.String()})
					}
					d.pend[len(p)] = &flight{p: pk, tok: t, amt: amt, sender: S, receiver: receiver, srcCh: srcCh, to: R}
					res.Nontrivial[fmt.Sprintf("ibc.send|%s|%s|%s", tn, cls, rcv)] = true
					return "ok"
				})
			}
		}
	}
	// the recipient sends the voucher it received back home (channel-1 -> channel-0): it arrives under the
	// pair's own denomination and the erc20 middleware converts it on arrival
	for _, tn := range d.names {
		if tn == "voucher" {
			continue
		}
		t := d.tokByName(tn)
		for _, cls := range []string{"1", "all"} {
			t, cls := t, cls
			add(fmt.Sprintf("ibcSendBack(%s,%s)", tn, cls), func(p []string, res *engine.Result) string {
				if d.pend[len(p)] != nil {
					return "skip"
				}
				vd := world.VoucherDenom(world.IBCChannelB, t.denom)
				have := d.coinBal(vd, w.Addrs[R])
				amt := pick(cls, have)
				if !have.IsPositive() || !amt.IsPositive() {
					return "skip"
				}
				before, sup := d.snap(), w.App.BankKeeper.GetSupply(w.Ctx(), vd).Amount
				ts := uint64(w.Header.Time.Add(10 * time.Second).UnixNano())
				pk, err := w.IBCSend(w.Ctx(), world.IBCChannelB, w.Addrs[R], w.Addrs[S].String(), sdk.NewCoin(vd, amt), ts)
				res.Evaluations++
				if err != nil {
					if after := d.snap(); after != before {
						viol(res, t, "sendback", "partial", "a failed IBC transfer changed balances", p, nil)
					}
					return engine.ErrClass(err)
				}
				if got := have.Sub(d.coinBal(vd, w.Addrs[R])); !got.Equal(amt) || !sup.Sub(w.App.BankKeeper.GetSupply(w.Ctx(), vd).Amount).Equal(amt) {
					viol(res, t, "sendback", "notexact", "a returning voucher was not debited and burned by exactly the amount", p, map[string]any{"amount": amt.String(), "debited": got.String()})
				}
				d.pend[len(p)] = &flight{p: pk, tok: t, amt: amt, sender: R, receiver: w.Addrs[S].String(), srcCh: world.IBCChannelB, to: S, back: true}
				res.Nontrivial[fmt.Sprintf("ibc.sendback|%s|%s", tn, cls)] = true
				return "ok"
			})
		}
	}
	add("ibcRecv", func(p []string, res *engine.Result) string {
		f := d.pend[len(p)]
		if f == nil || f.received {
			return "skip"
		}
		at, adenom := d.arrival(f)
		before := d.snap()
		var uni sdkmath.Int
		if at.name != "" {
			uni = d.unified(at, f.to)
		} else {
			uni = d.coinBal(adenom, w.Addrs[f.to])
		}
		pk := *f.p
		err := w.IBCRecv(w.Ctx(), &pk, w.Addrs[relayer])
		res.Evaluations++
		if err != nil {
			if after := d.snap(); after != before {
				viol(res, f.tok, "recv", "partial", "a rejected packet changed balances", p, map[string]any{"err": engine.ErrClass(err)})
			}
			return engine.ErrClass(err)
		}
		nf := *f
		nf.p, nf.received = &pk, true
		d.pend[len(p)] = &nf
		okAck := !isErrAck(pk.Ack)
		var now sdkmath.Int
		if at.name != "" {
			now = d.unified(at, f.to)
		} else {
			now = d.coinBal(adenom, w.Addrs[f.to])
		}
		if okAck {
			if got := now.Sub(uni); !got.Equal(f.amt) {
				viol(res, f.tok, "recv", "notexact", "a received packet credited the recipient (coins + tokens) by something else than the amount", p, map[string]any{"amount": f.amt.String(), "credited": got.String(), "arrives_as": adenom})
			}
			res.Nontrivial[fmt.Sprintf("ibc.recv|%s|%s", f.tok.name, at.name)] = true
			return "ok:ack-success"
		}
		if after := d.snap(); after != before {
			viol(res, f.tok, "recv", "partial", "a packet answered with an error acknowledgement changed balances", p, map[string]any{"before": before, "after": after})
		}
		res.Nontrivial["ibc.recv-error|"+f.tok.name] = true
		return "ok:ack-error"
	})
	refund := func(op string, run func(f *flight) error, want func(f *flight) bool) {
		add(op, func(p []string, res *engine.Result) string {
			f := d.pend[len(p)]
			if f == nil || !want(f) {
				return "skip"
			}
			senderBal := func() sdkmath.Int {
				if f.back {
					vd := world.VoucherDenom(world.IBCChannelB, f.tok.denom)
					if vd == d.voucher.denom {
						return d.unified(d.voucher, f.sender) // the voucher is itself a registered pair: refunded as tokens
					}
					return d.coinBal(vd, w.Addrs[f.sender])
				}
				return d.unified(f.tok, f.sender)
			}
			before, uni := d.snap(), senderBal()
			err := run(f)
			res.Evaluations++
			if err != nil {
				if after := d.snap(); after != before {
					viol(res, f.tok, op, "partial", "a rejected "+op+" changed balances", p, map[string]any{"err": engine.ErrClass(err)})
				}
				if engine.ErrClass(err) == "err:erc token pair is disabled" {
					res.Observe("while a pair is disabled, the refund of one of its packets (error acknowledgement or timeout) is rejected as a whole (OnAcknowledgementPacket / OnTimeoutPacket call ConvertCoin without the pair.Enabled check OnRecvPacket has): nothing changes and the relayer can retry after the pair is enabled again - a liveness matter, not a peg violation")
				}
				return engine.ErrClass(err)
			}
			d.pend[len(p)] = nil
			got := senderBal().Sub(uni)
			if f.received && !isErrAck(f.p.Ack) {
				if after := d.snap(); after != before {
					viol(res, f.tok, op, "partial", "a success acknowledgement changed balances", p, map[string]any{"before": before, "after": after})
				}
				return "ok:done"
			}
			if !got.Equal(f.amt) {
				viol(res, f.tok, op, "notexact", "the refund credited the sender (coins + tokens) by something else than the amount", p, map[string]any{"amount": f.amt.String(), "credited": got.String()})
			}
			res.Nontrivial[fmt.Sprintf("ibc.%s-refund|%s", op, f.tok.name)] = true
			return "ok:refunded"
		})
	}
	refund("ack", func(f *flight) error { return w.IBCAck(w.Ctx(), f.p, w.Addrs[relayer]) }, func(f *flight) bool { return f.received })
	refund("timeout", func(f *flight) error {
		w.Header.Time = w.Header.Time.Add(time.Minute)
		w.App.BaseApp.VerifSetDeliverCtx(w.App.BaseApp.VerifDeliverCtx().WithBlockHeader(w.Header))
		return w.IBCTimeout(w.Ctx(), f.p, w.Addrs[relayer])
	}, func(f *flight) bool { return !f.received })
	// conversions and switches in between
	if d.rogue {
		thief := common.HexToAddress("0x4dC6ac40Af078661fc43823086E1513635Eeab14")
		for _, tn := range d.names {
			t := d.tokByName(tn)
			// coins of the pair get into circulation through the hook path (the only way for these tokens)
			add(fmt.Sprintf("transferToModule(%s,half)", tn), func(p []string, res *engine.Result) string {
				amt := d.erc20Bal(t, w.Eth[S]).QuoRaw(2)
				if !amt.IsPositive() {
					return "skip"
				}
				if !d.call(S, t.addr, "transfer", d.modHex, amt.BigInt()) {
					return "rejected"
				}
				return "ok"
			})
			// the third party the token's code approves on every transfer tries to pull the module's escrow
			add(fmt.Sprintf("thief.transferFrom(%s,module)", tn), func(p []string, res *engine.Result) string {
				esc := d.erc20Bal(t, d.modHex)
				if !esc.IsPositive() {
					return "skip"
				}
				// the allowance the token's code hands out is 10^18 per transfer
				esc = sdkmath.MinInt(esc, sdkmath.NewIntFromBigInt(unit))
				if _, err := w.App.Erc20Keeper.CallEVM(w.Ctx(), d.abi, thief, t.addr, true, "transferFrom", d.modHex, thief, esc.BigInt()); err != nil {
					if os.Getenv("VERIF_RAWLOG") != "" {
						fmt.Println("THIEF", err)
					}
					return "rejected"
				}
				return "ok"
			})
		}
	}
	for _, tn := range d.names {
		t := d.tokByName(tn)
		for _, k := range []int{S, R} {
			t, k := t, k
			add(fmt.Sprintf("convertCoin(%s,all,%d)", tn, k), func(p []string, res *engine.Result) string {
				amt := d.coinBal(t.denom, w.Addrs[k])
				if !amt.IsPositive() {
					return "skip"
				}
				if _, err := w.RunMsg(w.Ctx(), erc20types.NewMsgConvertCoin(sdk.NewCoin(t.denom, amt), w.Eth[k], w.Addrs[k])); err != nil {
					return engine.ErrClass(err)
				}
				return "ok"
			})
			add(fmt.Sprintf("convertERC20(%s,half,%d)", tn, k), func(p []string, res *engine.Result) string {
				amt := d.erc20Bal(t, w.Eth[k]).QuoRaw(2)
				if !amt.IsPositive() {
					return "skip"
				}
				if _, err := w.RunMsg(w.Ctx(), erc20types.NewMsgConvertERC20(amt, w.Addrs[k], t.addr, w.Eth[k])); err != nil {
					return engine.ErrClass(err)
				}
				return "ok"
			})
		}
		add(fmt.Sprintf("toggle(%s)", tn), func(p []string, res *engine.Result) string {
			if _, err := w.App.Erc20Keeper.ToggleConversion(w.Ctx(), t.addr.Hex()); err != nil {
				return engine.ErrClass(err)
			}
			return "ok"
		})
	}
	return out
}

func isErrAck(bz []byte) bool {
	return len(bz) > 8 && string(bz[:8]) == `{"error"`
}

func (d *ibcDriver) invariant(w *world.World, p []string, res *engine.Result) {
	d.driver.invariant(w, p, res)
	// none of these operations mints or burns the native side of the coin-origin pair
	if sup := w.App.BankKeeper.GetSupply(w.Ctx(), "atest").Amount; !sup.Equal(d.atestSupply) {
		d.viol(res, d.toks[0], "inv", "supply", "the supply of the coin-origin denomination changed", p, map[string]any{"supply": sup.String(), "genesis": d.atestSupply.String()})
	}
}
