// Package c10: ERC20 <-> coin conversion keeps a 1:1 backed peg.
//
// E1: a fixture with one coin-origin pair (module-owned ERC20) and four ERC20-origin pairs (an
// honest token, the repository's ERC20MaliciousDelayed and ERC20DirectBalanceManipulation, and a
// synthesised token that emits Transfer(x, module, n) logs without moving balances); every
// sequence <= depth of conversions in both directions (by message, by ERC20 transfer to the module
// address, by the bank-send wrapper), holder burns and pair toggles with amount classes.
// Backing invariants in every state, exact-or-nothing step oracle on every operation.
package c10

import (
	"fmt"
	"math/big"
	"strings"
	"time"

	sdkmath "cosmossdk.io/math"
	sdk "github.com/cosmos/cosmos-sdk/types"
	authtypes "github.com/cosmos/cosmos-sdk/x/auth/types"
	banktypes "github.com/cosmos/cosmos-sdk/x/bank/types"
	"github.com/ethereum/go-ethereum/accounts/abi"
	"github.com/ethereum/go-ethereum/common"
	"github.com/ethereum/go-ethereum/crypto"

	"github.com/haqq-network/haqq/contracts"
	erc20types "github.com/haqq-network/haqq/x/erc20/types"
	evmtypes "github.com/haqq-network/haqq/x/evm/types"

	"verif/harness/engine"
	"verif/harness/evmasm"
	"verif/harness/world"
)

const Prop = "C10"

type token struct {
	name   string
	addr   common.Address
	denom  string
	origin string // coin | erc20
}

type driver struct {
	w           *world.World
	abi         abi.ABI
	toks        []token
	mod         sdk.AccAddress
	modHex      common.Address
	tier        string
	burned      []sdkmath.Int // model: coin-pair tokens burned by holders, per depth
	atestSupply sdkmath.Int
	lastBurned  string // model state after the latest operation (part of the state digest)
	// via, if set, names the kinds of earlier operations on the token in a path: part of the
	// signature of an invariant breach, so that the same breach reached another way is another finding
	via func(t token, p []string) string
}

var unit = new(big.Int).Exp(big.NewInt(10), big.NewInt(18), nil)

var transferSig = crypto.Keccak256Hash([]byte("Transfer(address,address,uint256)"))

// fakeLogCode: any call emits Transfer(caller, module, 1000) and returns 32 zero bytes.
func fakeLogCode(module common.Address) []byte {
	a := evmasm.New()
	a.PushU(1000).PushU(0).Op(evmasm.MSTORE)
	a.PushAddr(module)               // topic2: to
	a.Op(evmasm.CALLER)              // topic1: from
	a.PushBytes(transferSig.Bytes()) // topic0
	a.PushU(32).PushU(0)             // size, offset
	a.Op(evmasm.LOG3)
	a.PushU(0).PushU(0).Op(evmasm.MSTORE)
	a.PushU(32).PushU(0).Op(evmasm.RETURN)
	return a.Bytes()
}

func newDriver(tier string) *driver {
	// amounts as they occur on an 18-decimals chain: a thousand whole tokens, far beyond 2^64 base units
	w := world.New(world.Options{NumAccounts: 5, ExtraCoins: sdk.NewCoins(sdk.NewCoin("atest", sdkmath.NewIntFromBigInt(unit).MulRaw(1000)))})
	d := &driver{w: w, tier: tier, abi: contracts.ERC20MinterBurnerDecimalsContract.ABI}
	d.mod = authtypes.NewModuleAddress(erc20types.ModuleName)
	d.modHex = erc20types.ModuleAddress
	ctx := w.Ctx()
	// coin-origin pair
	pair, err := w.App.Erc20Keeper.RegisterCoin(ctx, banktypes.Metadata{Description: "t", Base: "atest", Display: "test", Name: "test", Symbol: "TEST",
		DenomUnits: []*banktypes.DenomUnit{{Denom: "atest", Exponent: 0}, {Denom: "test", Exponent: 18}}})
	if err != nil {
		panic(err)
	}
	d.toks = append(d.toks, token{"coin", pair.GetERC20Contract(), "atest", "coin"})
	// ... and one for the native coin itself, which is also the staking bond denomination
	bondPair, err := w.App.Erc20Keeper.RegisterCoin(ctx, banktypes.Metadata{Description: "n", Base: world.Denom, Display: "islm", Name: "islm", Symbol: "ISLM",
		DenomUnits: []*banktypes.DenomUnit{{Denom: world.Denom, Exponent: 0}, {Denom: "islm", Exponent: 18}}})
	if err != nil {
		panic(err)
	}
	d.toks = append(d.toks, token{"bondcoin", bondPair.GetERC20Contract(), world.Denom, "coin"})
	// ERC20-origin pairs deployed by account 1
	deploy := func(name string, bin []byte, ctor abi.ABI, args ...interface{}) common.Address {
		data, err := ctor.Pack("", args...)
		if err != nil {
			panic(err)
		}
		nonce := w.App.AccountKeeper.GetAccount(w.Ctx(), w.Addrs[1]).GetSequence()
		bz, err := world.WrapEth(w.SignEth(w.Keys[1], world.EthSpec{Nonce: nonce, Gas: 5000000, GasPrice: big.NewInt(0), Data: append(append([]byte{}, bin...), data...)}))
		if err != nil {
			panic(err)
		}
		if r := w.Deliver(bz); r.Code != 0 {
			panic("deploy " + name + ": " + r.Log)
		}
		return crypto.CreateAddress(w.Eth[1], nonce)
	}
	reg := func(name string, addr common.Address) {
		p, err := w.App.Erc20Keeper.RegisterERC20(w.Ctx(), addr)
		if err != nil {
			panic("register " + name + ": " + err.Error())
		}
		d.toks = append(d.toks, token{name, addr, p.Denom, "erc20"})
	}
	honest := deploy("honest", contracts.ERC20MinterBurnerDecimalsContract.Bin, contracts.ERC20MinterBurnerDecimalsContract.ABI, "Honest", "HON", uint8(18))
	d.call(1, honest, "mint", w.Eth[1], new(big.Int).Mul(unit, big.NewInt(1000)))
	reg("honest", honest)
	delayed := deploy("delayed", contracts.ERC20MaliciousDelayedContract.Bin, contracts.ERC20MaliciousDelayedContract.ABI, new(big.Int).Mul(unit, big.NewInt(1000)))
	reg("delayed", delayed)
	direct := deploy("directmanip", contracts.ERC20DirectBalanceManipulationContract.Bin, contracts.ERC20DirectBalanceManipulationContract.ABI, new(big.Int).Mul(unit, big.NewInt(1000)))
	reg("directmanip", direct)
	// fake-log token: registered like a governance-approved external token whose code misbehaves
	fake := world.ContractAddr(0x60)
	w.InstallContract(w.Ctx(), fake, fakeLogCode(d.modHex), nil)
	fp := erc20types.NewTokenPair(fake, "erc20/"+fake.Hex(), erc20types.OWNER_EXTERNAL)
	w.App.Erc20Keeper.SetTokenPair(w.Ctx(), fp)
	w.App.Erc20Keeper.SetDenomMap(w.Ctx(), fp.Denom, fp.GetID())
	w.App.Erc20Keeper.SetERC20Map(w.Ctx(), fake, fp.GetID())
	d.toks = append(d.toks, token{"fakelog", fake, fp.Denom, "erc20"})
	d.burned = []sdkmath.Int{sdkmath.ZeroInt()}
	return d
}

// call delivers an Ethereum transaction from account k calling method on the token.
func (d *driver) call(k int, to common.Address, method string, args ...interface{}) bool {
	w := d.w
	data, err := d.abi.Pack(method, args...)
	if err != nil {
		panic(err)
	}
	nonce := w.App.AccountKeeper.GetAccount(w.Ctx(), w.Addrs[k]).GetSequence()
	bz, err := world.WrapEth(w.SignEth(w.Keys[k], world.EthSpec{Nonce: nonce, Gas: 3000000, To: &to, GasPrice: big.NewInt(0), Data: data}))
	if err != nil {
		panic(err)
	}
	r := w.Deliver(bz)
	if r.Code != 0 {
		return false
	}
	if tr, err := evmtypes.DecodeTxResponse(r.Data); err == nil && tr.Failed() {
		return false
	}
	return true
}

func (d *driver) erc20Bal(t token, a common.Address) sdkmath.Int {
	cctx, _ := d.w.Ctx().CacheContext()
	b := d.w.App.Erc20Keeper.BalanceOf(cctx, d.abi, t.addr, a)
	if b == nil {
		return sdkmath.ZeroInt()
	}
	return sdkmath.NewIntFromBigInt(b)
}

func (d *driver) totalSupply(t token) sdkmath.Int {
	cctx, _ := d.w.Ctx().CacheContext()
	res, err := d.w.App.Erc20Keeper.CallEVM(cctx, d.abi, d.modHex, t.addr, false, "totalSupply")
	if err != nil {
		return sdkmath.ZeroInt()
	}
	out, err := d.abi.Unpack("totalSupply", res.Ret)
	if err != nil || len(out) == 0 {
		return sdkmath.ZeroInt()
	}
	return sdkmath.NewIntFromBigInt(out[0].(*big.Int))
}

func (d *driver) coinBal(denom string, a sdk.AccAddress) sdkmath.Int {
	return d.w.App.BankKeeper.GetBalance(d.w.Ctx(), a, denom).Amount
}

func pick(cls string, base sdkmath.Int) sdkmath.Int {
	switch cls {
	case "1":
		return sdkmath.NewInt(1)
	case "half":
		return base.QuoRaw(2)
	case "all":
		return base
	default:
		return base.AddRaw(1)
	}
}

func (d *driver) viol(res *engine.Result, t token, op, breach, what string, p []string, detail map[string]any) {
	sig := fmt.Sprintf("C10|pair=%s|token=%s|op=%s|breach=%s", t.origin, t.name, op, breach)
	if d.via != nil && op == "inv" {
		sig += "|via=" + d.via(t, p)
	}
	res.AddViolation(engine.Violation{Signature: sig, What: what, Path: p, Detail: detail})
}

type view struct{ coinS, coinR, tokS, tokR, supplyCoin, modTok, modCoin, totTok sdkmath.Int }

func (v view) String() string {
	return fmt.Sprintf("coinS=%s coinR=%s tokS=%s tokR=%s supplyCoin=%s modTok=%s modCoin=%s totTok=%s", v.coinS, v.coinR, v.tokS, v.tokR, v.supplyCoin, v.modTok, v.modCoin, v.totTok)
}

func (d *driver) view(t token, s, r int) view {
	w := d.w
	return view{
		coinS: d.coinBal(t.denom, w.Addrs[s]), coinR: d.coinBal(t.denom, w.Addrs[r]),
		tokS: d.erc20Bal(t, w.Eth[s]), tokR: d.erc20Bal(t, w.Eth[r]),
		supplyCoin: w.App.BankKeeper.GetSupply(w.Ctx(), t.denom).Amount,
		modTok:     d.erc20Bal(t, d.modHex), modCoin: d.coinBal(t.denom, d.mod), totTok: d.totalSupply(t),
	}
}

func (d *driver) ops(w *world.World, depth int, path []string) []engine.Op {
	var out []engine.Op
	add := func(name string, f func(p []string, res *engine.Result) string) {
		out = append(out, engine.Op{Name: name, Apply: func(w *world.World, p []string, res *engine.Result) string {
			for len(d.burned) <= len(p) {
				d.burned = append(d.burned, sdkmath.ZeroInt())
			}
			d.burned[len(p)] = d.burned[len(p)-1]
			// once a token contract is gone only coin -> token conversions are still judged for it
			// (nothing else can be observed about a contract that does not answer)
			for _, t := range d.toks {
				if strings.Contains(name, "("+t.name+",") || strings.Contains(name, "("+t.name+")") {
					if d.gone(t) && !strings.HasPrefix(name, "convertCoin(") {
						d.lastBurned = d.burned[len(p)].String()
						return "skip"
					}
				}
			}
			r := f(p, res)
			d.lastBurned = d.burned[len(p)].String()
			return r
		}})
	}
	classes := []string{"1", "half", "all", "all+1"}
	const S, R = 1, 2
	for _, t := range d.toks {
		t := t
		for _, cls := range classes {
			cls := cls
			// coin -> token by message
			add(fmt.Sprintf("convertCoin(%s,%s)", t.name, cls), func(p []string, res *engine.Result) string {
				a := d.view(t, S, R)
				amt := pick(cls, a.coinS)
				if !amt.IsPositive() {
					return "skip"
				}
				_, err := w.RunMsg(w.Ctx(), erc20types.NewMsgConvertCoin(sdk.NewCoin(t.denom, amt), w.Eth[R], w.Addrs[S]))
				b := d.view(t, S, R)
				res.Evaluations++
				if err != nil {
					if b.String() != a.String() {
						d.viol(res, t, "convertCoin", "partial", "a failed conversion changed balances", p, map[string]any{"before": a.String(), "after": b.String()})
					}
					return engine.ErrClass(err)
				}
				if d.gone(t) {
					// nothing can be credited any more: the message may succeed (the pair is dropped) but must
					// not take the coins
					if !b.coinS.Equal(a.coinS) || !b.modCoin.Equal(a.modCoin) {
						d.viol(res, t, "convertCoin", "partial", "a conversion against a token contract that no longer exists took the coins", p,
							map[string]any{"coin_debit": a.coinS.Sub(b.coinS).String(), "module_coins": b.modCoin.Sub(a.modCoin).String()})
					}
					return "ok:contract-gone"
				}
				if !a.coinS.Sub(b.coinS).Equal(amt) || !b.tokR.Sub(a.tokR).Equal(amt) {
					d.viol(res, t, "convertCoin", "notexact", "coin -> token conversion did not debit and credit exactly the amount", p,
						map[string]any{"amount": amt.String(), "coin_debit": a.coinS.Sub(b.coinS).String(), "token_credit": b.tokR.Sub(a.tokR).String()})
				}
				res.Nontrivial[fmt.Sprintf("cc|%s|%s", t.name, cls)] = true
				return "ok"
			})
			// token -> coin by message
			add(fmt.Sprintf("convertERC20(%s,%s)", t.name, cls), func(p []string, res *engine.Result) string {
				a := d.view(t, S, R)
				amt := pick(cls, a.tokS)
				if !amt.IsPositive() {
					return "skip"
				}
				_, err := w.RunMsg(w.Ctx(), erc20types.NewMsgConvertERC20(amt, w.Addrs[R], t.addr, w.Eth[S]))
				b := d.view(t, S, R)
				res.Evaluations++
				if err != nil {
					if b.String() != a.String() {
						d.viol(res, t, "convertERC20", "partial", "a failed conversion changed balances", p, map[string]any{"before": a.String(), "after": b.String()})
					}
					return engine.ErrClass(err)
				}
				if !a.tokS.Sub(b.tokS).Equal(amt) || !b.coinR.Sub(a.coinR).Equal(amt) {
					d.viol(res, t, "convertERC20", "notexact", "token -> coin conversion did not debit and credit exactly the amount", p,
						map[string]any{"amount": amt.String(), "token_debit": a.tokS.Sub(b.tokS).String(), "coin_credit": b.coinR.Sub(a.coinR).String()})
				}
				res.Nontrivial[fmt.Sprintf("ce|%s|%s", t.name, cls)] = true
				return "ok"
			})
		}
		// the token contract self-destructed (its account and code are deleted at the end of that
		// transaction): coins of the pair may still be in circulation
		if t.origin == "erc20" && t.name == "honest" {
			add(fmt.Sprintf("contractGone(%s)", t.name), func(p []string, res *engine.Result) string {
				if d.gone(t) {
					return "skip"
				}
				if err := w.App.EvmKeeper.DeleteAccount(w.App.BaseApp.VerifDeliverCtx(), t.addr); err != nil {
					return engine.ErrClass(err)
				}
				return "ok"
			})
		}
		// a router contract holding tokens sends them to the module address in two transfers of one
		// transaction (two Transfer logs in one receipt): each is converted for exactly its own amount
		if t.origin == "erc20" && t.name == "honest" {
			add(fmt.Sprintf("routerTransfersTwice(%s)", t.name), func(p []string, res *engine.Result) string {
				a := d.view(t, S, R)
				x := a.tokS.QuoRaw(8)
				if !x.IsPositive() {
					return "skip"
				}
				router := world.ContractAddr(0x70)
				asm := evmasm.New()
				for _, amt := range []sdkmath.Int{x, x.MulRaw(2)} {
					data, err := d.abi.Pack("transfer", d.modHex, amt.BigInt())
					if err != nil {
						panic(err)
					}
					idx := asm.Data(data)
					ln := uint64(asm.CopyDataToMem(idx, 0))
					asm.Call(evmasm.CALL, 0, t.addr, big.NewInt(0), 0, ln, 0, 0).Op(evmasm.POP)
				}
				asm.Stop()
				w.InstallContract(w.App.BaseApp.VerifDeliverCtx(), router, asm.Bytes(), nil)
				if !d.call(S, t.addr, "transfer", router, x.MulRaw(3).BigInt()) {
					return "rejected"
				}
				rAcc := sdk.AccAddress(router.Bytes())
				preCoin, preEsc := d.coinBal(t.denom, rAcc), d.erc20Bal(t, d.modHex)
				nonce := w.App.AccountKeeper.GetAccount(w.Ctx(), w.Addrs[S]).GetSequence()
				bz, err := world.WrapEth(w.SignEth(w.Keys[S], world.EthSpec{Nonce: nonce, Gas: 3000000, To: &router, GasPrice: big.NewInt(0)}))
				if err != nil {
					panic(err)
				}
				r := w.Deliver(bz)
				res.Evaluations++
				credited, escrowed := d.coinBal(t.denom, rAcc).Sub(preCoin), d.erc20Bal(t, d.modHex).Sub(preEsc)
				if r.Code != 0 {
					return "rejected"
				}
				enabled := true
				if id := w.App.Erc20Keeper.GetERC20Map(w.Ctx(), t.addr); len(id) > 0 {
					if pr, ok := w.App.Erc20Keeper.GetTokenPair(w.Ctx(), id); ok {
						enabled = pr.Enabled
					}
				}
				if !enabled {
					// not a conversion: the module keeps the tokens, nothing is credited
					if !credited.IsZero() {
						d.viol(res, t, "hook", "disabled-converted", "coins were credited although the pair is disabled", p, nil)
					}
					return "ok:disabled"
				}
				if !credited.Equal(escrowed) {
					d.viol(res, t, "hook", "notexact-multilog", "two transfers to the module in one transaction were not converted for exactly their amounts", p,
						map[string]any{"coin_credit": credited.String(), "escrow_increase": escrowed.String()})
				}
				res.Nontrivial["router|"+t.name] = true
				return "ok"
			})
		}
		// an approval for the module address moves nothing and converts nothing
		add(fmt.Sprintf("approveModule(%s,half)", t.name), func(p []string, res *engine.Result) string {
			a := d.view(t, S, R)
			amt := pick("half", a.tokS)
			if !amt.IsPositive() {
				return "skip"
			}
			ok := d.call(S, t.addr, "approve", d.modHex, amt.BigInt())
			b := d.view(t, S, R)
			res.Evaluations++
			if !b.coinS.Equal(a.coinS) || !b.tokS.Equal(a.tokS) || !b.modTok.Equal(a.modTok) || !b.totTok.Equal(a.totTok) {
				d.viol(res, t, "hook", "approve-converted", "an approval for the module address changed coin or token balances", p,
					map[string]any{"tx_ok": ok, "coin_credit": b.coinS.Sub(a.coinS).String(), "token_debit": a.tokS.Sub(b.tokS).String()})
			}
			if !ok {
				return "rejected"
			}
			return "ok"
		})
		for _, cls := range []string{"1", "half", "all"} {
			cls := cls
			// token -> coin by an ERC20 transfer to the module address inside an Ethereum tx (hook path)
			add(fmt.Sprintf("transferToModule(%s,%s)", t.name, cls), func(p []string, res *engine.Result) string {
				a := d.view(t, S, R)
				amt := pick(cls, a.tokS)
				if t.name == "fakelog" {
					amt = sdkmath.NewInt(1000)
				}
				if !amt.IsPositive() {
					return "skip"
				}
				ok := d.call(S, t.addr, "transfer", d.modHex, amt.BigInt())
				b := d.view(t, S, R)
				res.Evaluations++
				if !ok {
					if b.String() != a.String() {
						d.viol(res, t, "hook", "partial", "a failed transfer to the module changed balances", p, nil)
					}
					return "rejected"
				}
				credited := b.coinS.Sub(a.coinS)
				debited := a.tokS.Sub(b.tokS)
				escrowed := b.modTok.Sub(a.modTok)
				enabled := true
				if id := w.App.Erc20Keeper.GetERC20Map(w.Ctx(), t.addr); len(id) > 0 {
					if pr, ok := w.App.Erc20Keeper.GetTokenPair(w.Ctx(), id); ok {
						enabled = pr.Enabled
					}
				}
				switch {
				case !enabled:
					// not a conversion: the transfer is let through on purpose and the module keeps the tokens
					if !credited.IsZero() {
						d.viol(res, t, "hook", "disabled-converted", "coins were credited although the pair is disabled", p, nil)
					}
					res.Observe("an ERC20 transfer to the module address while the pair is disabled is let through without conversion: the module keeps the tokens (over-collateralised, nothing unbacked)")
				case t.origin == "erc20":
					// the contract may move something else than asked (thief tokens): what counts is that the
					// coins credited equal the tokens the module actually received in escrow
					if !credited.Equal(escrowed) {
						d.viol(res, t, "hook", "notexact", "the hook credited coins that do not match the tokens the module received in escrow", p,
							map[string]any{"coin_credit": credited.String(), "escrow_increase": escrowed.String(), "token_debit": debited.String()})
					}
				default:
					if !credited.Equal(debited) || !a.totTok.Sub(b.totTok).Equal(debited) {
						d.viol(res, t, "hook", "notexact", "the hook did not burn the tokens given up and release exactly as many coins", p,
							map[string]any{"coin_credit": credited.String(), "token_debit": debited.String(), "supply_decrease": a.totTok.Sub(b.totTok).String()})
					}
				}
				res.Nontrivial[fmt.Sprintf("hook|%s|%s", t.name, cls)] = true
				return "ok"
			})
		}
		// the bank-send wrapper
		add(fmt.Sprintf("bankSend(%s,half)", t.name), func(p []string, res *engine.Result) string {
			a := d.view(t, S, R)
			tot := a.coinS.Add(a.tokS)
			amt := tot.QuoRaw(2)
			if !amt.IsPositive() {
				return "skip"
			}
			_, err := w.RunMsg(w.Ctx(), banktypes.NewMsgSend(w.Addrs[S], w.Addrs[R], sdk.NewCoins(sdk.NewCoin(t.denom, amt))))
			b := d.view(t, S, R)
			res.Evaluations++
			if err != nil {
				if b.String() != a.String() {
					d.viol(res, t, "bankSend", "partial", "a failed send changed balances", p, nil)
				}
				return engine.ErrClass(err)
			}
			gotS := a.coinS.Add(a.tokS).Sub(b.coinS.Add(b.tokS))
			gotR := b.coinR.Add(b.tokR).Sub(a.coinR.Add(a.tokR))
			if !gotS.Equal(amt) || !gotR.Equal(amt) {
				d.viol(res, t, "bankSend", "notexact", "a send of a paired denomination did not move exactly the amount across both representations", p,
					map[string]any{"amount": amt.String(), "sender_total_delta": gotS.String(), "recipient_total_delta": gotR.String()})
			}
			return "ok"
		})
		add(fmt.Sprintf("toggle(%s)", t.name), func(p []string, res *engine.Result) string {
			if _, err := w.App.Erc20Keeper.ToggleConversion(w.Ctx(), t.addr.Hex()); err != nil {
				return engine.ErrClass(err)
			}
			return "ok"
		})
	}
	// a holder burns its own coin-pair tokens (the one sanctioned way to have supply < escrow)
	add("holderBurn(coin,1)", func(p []string, res *engine.Result) string {
		t := d.toks[0]
		if d.erc20Bal(t, w.Eth[R]).IsZero() {
			return "skip"
		}
		if !d.call(R, t.addr, "burn", big.NewInt(1)) {
			return "rejected"
		}
		d.burned[len(p)] = d.burned[len(p)].AddRaw(1)
		return "ok"
	})
	return out
}

// gone: the token contract no longer exists (it self-destructed): its pair is beyond any backing
// invariant, but a conversion still moves both sides or nothing.
func (d *driver) gone(t token) bool {
	return t.origin == "erc20" && len(d.w.App.EvmKeeper.GetCode(d.w.Ctx(), common.BytesToHash(d.w.App.EvmKeeper.GetAccountOrEmpty(d.w.Ctx(), t.addr).CodeHash))) == 0
}

func (d *driver) invariant(w *world.World, p []string, res *engine.Result) {
	for _, t := range d.toks {
		res.Evaluations++
		if d.gone(t) {
			continue
		}
		if t.origin == "coin" {
			tot, esc := d.totalSupply(t), d.coinBal(t.denom, d.mod)
			if tot.GT(esc) {
				d.viol(res, t, "inv", "unbacked", "ERC20 total supply exceeds the coins escrowed in the module account", p, map[string]any{"total_supply": tot.String(), "escrow": esc.String()})
			}
			burned := sdkmath.ZeroInt()
			if t.name == "coin" {
				burned = d.burned[len(p)]
			}
			if !esc.Sub(tot).Equal(burned) {
				d.viol(res, t, "inv", "escrow-mismatch", "escrow minus ERC20 supply differs from what holders burned", p, map[string]any{"total_supply": tot.String(), "escrow": esc.String(), "holder_burns": burned.String()})
			}
		} else {
			sup, esc := w.App.BankKeeper.GetSupply(w.Ctx(), t.denom).Amount, d.erc20Bal(t, d.modHex)
			if sup.GT(esc) {
				d.viol(res, t, "inv", "unbacked", "coin supply exceeds the tokens escrowed by the module", p, map[string]any{"coin_supply": sup.String(), "escrowed_tokens": esc.String()})
			}
		}
	}
}

func bounds(tier string) int {
	if tier == "thorough" {
		return 4
	}
	return 3
}

func Worker(shard, n int, tier string) *engine.Result {
	d := newDriver(tier)
	res := engine.NewResult(Prop)
	// state = bank + erc20 + evm stores + the model's burn counter; account sequences (acc store) are
	// left out on purpose: they only number the transactions and nothing the property observes depends on them
	e := &engine.Explorer{W: d.w, Res: res, Stores: []string{"bank", "erc20", "evm"}, Ops: d.ops, Invariant: d.invariant, MaxDepth: bounds(tier),
		Shard: shard, NShards: n, Deadline: time.Now().Add(25 * time.Minute), Extra: func(w *world.World) string { return d.lastBurned }}
	e.Run()
	// part B: IBC legs; B1 over the well-behaved pairs, B2 over the misbehaving tokens
	for bi, rogue := range []bool{false, true} {
		di := newIBCDriver(tier, rogue)
		sub := engine.NewResult(Prop)
		depthB := 4
		if tier == "thorough" {
			depthB = 5
		}
		eb := &engine.Explorer{W: di.w, Res: sub, Stores: []string{"bank", "erc20", "evm", "ibc", "transfer"}, Ops: di.ops, Invariant: di.invariant, MaxDepth: depthB,
			Shard: shard, NShards: n, Deadline: time.Now().Add(25 * time.Minute), Extra: func(w *world.World) string {
				return di.lastBurned + "|" + di.lastPend + "|" + fmt.Sprint(w.Header.Time.Unix())
			}}
		eb.Run()
		res.Counters[fmt.Sprintf("partB%d_transitions", bi+1)] += int64(sub.Transitions)
		for k, v := range sub.States {
			res.States[fmt.Sprintf("B%d|%s", bi+1, k)] = v
		}
		sub.States = map[string]int{}
		res.Merge(sub)
	}
	return res
}

func Run(tier string) int {
	start := time.Now()
	res := engine.RunSharded(Prop, tier, 16, Worker)
	res.TracesImpl = res.Transitions
	res.Sample(map[string]any{"path": []string{"convertERC20(directmanip,half)", "transferToModule(honest,all)"}})
	return engine.Finish(res, engine.Meta{
		Property: Prop, Tier: tier, Level: "model_checking", Start: start,
		Rule:   "all sequences <= depth over 63 operations: for each of 5 pairs (coin-origin; ERC20-origin honest / malicious-delayed / direct-balance-manipulation / fake-Transfer-log) convertCoin and convertERC20 with {1, half, all, all+1}, ERC20 transfer to the module address (hook path) with {1, half, all}, bank send of the paired denomination, pair toggle; plus a holder burn; backing invariants after every operation, exact-or-nothing step oracle; part B: all sequences <= 4 (thorough 5) over 30 operations on a fixture with a sixth pair (the IBC voucher of the coin-origin denomination): ibcSend of {coin-origin, voucher going home, ERC20-origin} x {1, all of coins+tokens, all+1} to a valid / garbage receiver, ibcRecv, ack, timeout, convertCoin / convertERC20 of both users, pair toggles - the sender's coins+tokens fall by exactly the amount and the channel escrow grows / the voucher supply falls by it, the recipient's coins+tokens of the arriving denomination rise by exactly the amount, an error acknowledgement or timeout gives the sender exactly the amount back, every rejected step changes nothing, backing invariants and constant supply of the coin-origin denomination in every state; part B2: the same legs for the rogue tokens (direct balance manipulation, delayed) incl. transfer to the module, a third party's transferFrom, and vouchers sent back home; non-trivial = successful conversion distinct by (path, token, amount class)",
		Bounds: map[string]any{"depth": bounds(tier)},
		Assumptions: []string{
			"IBC legs (part B) run over two transfer channel ends written on ibc-go's sentinel localhost connection: packets loop back to the same chain through the real MsgTransfer wrapper, MsgRecvPacket, MsgAcknowledgement and MsgTimeout handlers; at most one packet is in flight",
			"the fake-log token is registered by writing the pair directly (what a passed RegisterERC20 proposal stores); its code is synthesised bytecode",
			"messages through the msg-service router on cache contexts; Ethereum transactions through DeliverTx with gas price 0",
		},
	})
}
