// Package engine holds what all drivers share: the result/evidence/finding plumbing, the
// canonical state digest, the depth-bounded explicit-state explorer over the real app (E1),
// and process-level sharding.
package engine

import (
	"crypto/sha256"
	"encoding/hex"
	"encoding/json"
	"fmt"
	"os"
	"os/exec"
	"path/filepath"
	"sort"
	"strconv"
	"strings"
	"sync"
	"time"

	"github.com/cosmos/cosmos-sdk/store/rootmulti"
	storetypes "github.com/cosmos/cosmos-sdk/store/types"
	sdk "github.com/cosmos/cosmos-sdk/types"

	"verif/harness/world"
)

// Root of the /verif tree (env VERIF_ROOT, default /verif).
func Root() string {
	if r := os.Getenv("VERIF_ROOT"); r != "" {
		return r
	}
	return "/verif"
}

// ---------------------------------------------------------------------------------------------
// Violations, results

type Violation struct {
	Property  string         `json:"property"`
	Signature string         `json:"signature"`
	What      string         `json:"what"`
	Fixture   string         `json:"fixture,omitempty"`
	Path      []string       `json:"path"`
	Detail    map[string]any `json:"detail,omitempty"`
	// Shard / NShards / Tier name the exploration that reported it.  ReplayMode "exploration-order"
	// marks a violation that a fresh replay of its path alone does not reproduce but a re-run of that
	// (deterministic) exploration does: the breach depends on something a DISCARDED branch - which is
	// what a rejected transaction is - left behind outside the stores (keeper memory, globals).
	Shard      int    `json:"shard,omitempty"`
	NShards    int    `json:"nshards,omitempty"`
	Tier       string `json:"tier,omitempty"`
	ReplayMode string `json:"replay_mode,omitempty"`
}

// Result is what a driver (or one shard of it) reports.
type Result struct {
	Property     string           `json:"property"`
	States       map[string]int   `json:"states"` // digest -> min depth (merged across shards)
	Transitions  int64            `json:"transitions"`
	Evaluations  int64            `json:"evaluations"`
	Nontrivial   map[string]bool  `json:"nontrivial"` // distinct non-trivial case ids
	Outcomes     map[string]int64 `json:"outcomes"`
	Violations   []Violation      `json:"violations"`
	Samples      []any            `json:"samples"`
	TracesImpl   int64            `json:"traces_impl"`
	MaxDepth     int              `json:"max_depth"`
	CapHit       bool             `json:"cap_hit"`
	Observations []string         `json:"observations"`
	Extra        map[string]any   `json:"extra"`
	Counters     map[string]int64 `json:"counters"`
	HarnessErr   string           `json:"harness_err,omitempty"`
	ViolCount    int64            `json:"viol_count"`
	sigSeen      map[string]bool
}

func NewResult(prop string) *Result {
	return &Result{
		Property: prop, States: map[string]int{}, Nontrivial: map[string]bool{}, Outcomes: map[string]int64{},
		Extra: map[string]any{}, Counters: map[string]int64{}, sigSeen: map[string]bool{},
	}
}

// AddViolation keeps the first (shortest, since alphabets are ordered simplest-first)
// witness per signature and counts the rest.
func (r *Result) AddViolation(v Violation) {
	if r.sigSeen == nil {
		r.sigSeen = map[string]bool{}
	}
	r.Counters["viol:"+v.Signature]++
	if !knownSig(r.Property, v.Signature) {
		r.ViolCount++ // known findings do not prune the exploration below them
	}
	if r.sigSeen[v.Signature] {
		return
	}
	r.sigSeen[v.Signature] = true
	v.Property = r.Property
	v.Path = append([]string{}, v.Path...)
	r.Violations = append(r.Violations, v)
}

func (r *Result) Sample(s any) {
	if len(r.Samples) < 6 {
		r.Samples = append(r.Samples, s)
	}
}

func (r *Result) Observe(s string) {
	for _, o := range r.Observations {
		if o == s {
			return
		}
	}
	if len(r.Observations) < 40 {
		r.Observations = append(r.Observations, s)
	}
}

func (r *Result) Merge(o *Result) {
	for k, d := range o.States {
		if old, ok := r.States[k]; !ok || d < old {
			r.States[k] = d
		}
	}
	r.Transitions += o.Transitions
	r.Evaluations += o.Evaluations
	r.TracesImpl += o.TracesImpl
	for k := range o.Nontrivial {
		r.Nontrivial[k] = true
	}
	for k, v := range o.Outcomes {
		r.Outcomes[k] += v
	}
	for k, v := range o.Counters {
		r.Counters[k] += v
	}
	for _, v := range o.Violations {
		c := r.Counters["viol:"+v.Signature]
		r.AddViolation(v)
		r.Counters["viol:"+v.Signature] = c // already merged through Counters
	}
	for _, s := range o.Samples {
		r.Sample(s)
	}
	for _, s := range o.Observations {
		r.Observe(s)
	}
	if o.MaxDepth > r.MaxDepth {
		r.MaxDepth = o.MaxDepth
	}
	r.CapHit = r.CapHit || o.CapHit
	for k, v := range o.Extra {
		if _, ok := r.Extra[k]; !ok {
			r.Extra[k] = v
		}
	}
	if o.HarnessErr != "" && r.HarnessErr == "" {
		r.HarnessErr = o.HarnessErr
	}
}

// ---------------------------------------------------------------------------------------------
// Canonical digest of a set of stores in the current (branched) deliver state

func Digest(w *world.World, stores []string, extra ...string) string {
	ctx := w.App.BaseApp.VerifDeliverCtx()
	h := sha256.New()
	var lenbuf [8]byte
	put := func(b []byte) {
		n := len(b)
		for i := 0; i < 8; i++ {
			lenbuf[i] = byte(n >> (8 * i))
		}
		h.Write(lenbuf[:])
		h.Write(b)
	}
	for _, name := range stores {
		k := w.App.GetKey(name)
		if k == nil {
			panic("verif: unknown store " + name)
		}
		put([]byte(name))
		it := ctx.KVStore(k).Iterator(nil, nil)
		for ; it.Valid(); it.Next() {
			put(it.Key())
			put(it.Value())
		}
		it.Close()
	}
	for _, e := range extra {
		put([]byte(e))
	}
	return hex.EncodeToString(h.Sum(nil)[:12])
}

// AllStores lists every persistent store of the app, sorted.
func AllStores(w *world.World) []string {
	var out []string
	rs := w.App.CommitMultiStore().(*rootmulti.Store)
	for name, k := range rs.StoreKeysByName() {
		if _, ok := k.(*storetypes.KVStoreKey); ok {
			out = append(out, name)
		}
	}
	sort.Strings(out)
	return out
}

// DumpStore returns the content of a store as hex key -> hex value (used by fork differentials).
func DumpStore(ctx sdk.Context, w *world.World, name string) map[string]string {
	out := map[string]string{}
	it := ctx.KVStore(w.App.GetKey(name)).Iterator(nil, nil)
	defer it.Close()
	for ; it.Valid(); it.Next() {
		out[hex.EncodeToString(it.Key())] = hex.EncodeToString(it.Value())
	}
	return out
}

// DiffStores compares two dumps and returns "key: a -> b" lines (sorted).
func DiffStores(a, b map[string]string) []string {
	var out []string
	for k, va := range a {
		if vb, ok := b[k]; !ok {
			out = append(out, k+": "+va+" -> <absent>")
		} else if va != vb {
			out = append(out, k+": "+va+" -> "+vb)
		}
	}
	for k, vb := range b {
		if _, ok := a[k]; !ok {
			out = append(out, k+": <absent> -> "+vb)
		}
	}
	sort.Strings(out)
	return out
}

// ---------------------------------------------------------------------------------------------
// E1: depth-bounded explicit-state explorer with digest dedup

// Op is one transition of the alphabet.  Apply performs it on the world's current branch through
// a real entry point and returns an outcome class ("ok", "err:...").  It reports violations of
// step oracles itself (it knows pre- and post-state).
type Op struct {
	Name  string
	Apply func(w *world.World, path []string, res *Result) string
}

type Explorer struct {
	W         *world.World
	Res       *Result
	Stores    []string                    // stores hashed into the digest
	Extra     func(w *world.World) string // additional digest input (block time, model state)
	Ops       func(w *world.World, depth int, path []string) []Op
	Invariant func(w *world.World, path []string, res *Result) // evaluated in every visited state
	MaxDepth  int
	NoDedup   bool
	Deadline  time.Time
	// Shard selection over the ops at depth ShardDepth (default 0: first-level ops); the levels above
	// are run by every shard.
	Shard, NShards int
	ShardDepth     int
	// ExpandFailed: also expand below transitions whose outcome is not "ok" (default false: a failed
	// op must leave the digest unchanged, which is asserted, so there is nothing new below it).
	ExpandFailed bool
	// ExpandViolating: keep exploring below a transition that reported a violation (default false).
	ExpandViolating bool
	// FailedMustNotChange: report a violation if a failed op changed the digest.
	FailedMustNotChange func(op string) (sig string, on bool)
	deepest             []string
}

func (e *Explorer) digest() string {
	if e.Extra != nil {
		return Digest(e.W, e.Stores, e.Extra(e.W))
	}
	return Digest(e.W, e.Stores)
}

func (e *Explorer) Run() {
	if e.NShards == 0 {
		e.NShards = 1
	}
	root := e.digest()
	e.Res.States[root] = 0
	e.Res.Extra["root_digest"] = root
	if e.Invariant != nil {
		e.invariantGuarded(nil)
		e.Res.Evaluations++
	}
	if Replaying() {
		e.ExpandFailed, e.ExpandViolating, e.NoDedup = true, true, true
		if len(ReplayPath) < e.MaxDepth {
			e.MaxDepth = len(ReplayPath)
		}
		e.visit(0, nil, root)
		return
	}
	// iterative deepening: the first witness recorded for a signature is a shortest one
	for dmax := 1; dmax < e.MaxDepth; dmax++ {
		scratch := NewResult(e.Res.Property)
		sub := *e
		sub.Res = scratch
		sub.MaxDepth = dmax
		scratch.States[root] = 0
		sub.visit(0, nil, root)
		for _, v := range scratch.Violations {
			e.Res.AddViolation(v)
			e.Res.Counters["viol:"+v.Signature]--
		}
		if scratch.CapHit {
			e.Res.CapHit = true
			return
		}
	}
	e.visit(0, nil, root)
	if len(e.deepest) > 0 {
		e.Res.Sample(map[string]any{"deepest_path": e.deepest})
	}
}

func (e *Explorer) visit(depth int, path []string, cur string) {
	if depth >= e.MaxDepth {
		return
	}
	ops := e.Ops(e.W, depth, path)
	for i, op := range ops {
		if Replaying() {
			if op.Name != ReplayPath[depth] {
				continue
			}
		} else if depth == e.ShardDepth && i%e.NShards != e.Shard {
			continue
		}
		if !e.Deadline.IsZero() && time.Now().After(e.Deadline) {
			e.Res.CapHit = true
			return
		}
		restore := e.W.Branch()
		p := append(path, op.Name)
		violBefore := e.Res.ViolCount
		outcome := e.applyGuarded(op, p)
		e.Res.Transitions++
		e.Res.Outcomes[outcome]++
		d := e.digest()
		ok := outcome == "ok" || strings.HasPrefix(outcome, "ok")
		if !ok && e.FailedMustNotChange != nil && d != cur {
			if sig, on := e.FailedMustNotChange(op.Name); on {
				e.Res.AddViolation(Violation{Signature: sig, What: "a failed operation changed state", Path: p,
					Detail: map[string]any{"outcome": outcome}})
			}
		}
		if ok || e.ExpandFailed {
			if e.Invariant != nil {
				e.invariantGuarded(p)
				e.Res.Evaluations++
			}
			if e.Res.ViolCount != violBefore && !e.ExpandViolating {
				// the state disagrees with the reference model: everything below would only
				// report consequences of the same breach
				restore()
				continue
			}
			if depth+1 > e.Res.MaxDepth {
				e.Res.MaxDepth = depth + 1
				e.deepest = append([]string{}, p...)
			}
			old, seen := e.Res.States[d]
			if e.NoDedup || !seen || depth+1 < old {
				if !seen || depth+1 < old {
					e.Res.States[d] = depth + 1
				}
				e.visit(depth+1, p, d)
			}
		}
		restore()
	}
}

// invariantGuarded evaluates the invariant; a panic of the code under test inside it (an accessor
// of a state so inconsistent that it cannot be read) is a violation of its own, not a harness error.
func (e *Explorer) invariantGuarded(p []string) {
	GuardInvariant(e.Res, p, func() { e.Invariant(e.W, p, e.Res) })
}

// GuardInvariant runs inv and turns a panic inside it into a violation (also used by replayers).
func GuardInvariant(res *Result, p []string, inv func()) {
	defer func() {
		if r := recover(); r != nil {
			last := "init"
			if len(p) > 0 {
				last = p[len(p)-1]
				if i := strings.IndexByte(last, '('); i > 0 {
					last = last[:i]
				}
			}
			res.AddViolation(Violation{Signature: fmt.Sprintf("%s|invariant-panic|after=%s|%s", res.Property, last, firstLine(fmt.Sprint(r))),
				What: "the state reached cannot be read: an accessor of the code under test panicked while the invariant was evaluated", Path: p,
				Detail: map[string]any{"panic": firstLine(fmt.Sprint(r))}})
		}
	}()
	inv()
}

func (e *Explorer) applyGuarded(op Op, p []string) (outcome string) {
	defer func() {
		if r := recover(); r != nil {
			outcome = "panic:" + firstLine(fmt.Sprint(r))
		}
	}()
	return op.Apply(e.W, p, e.Res)
}

func firstLine(s string) string {
	if i := strings.IndexByte(s, '\n'); i >= 0 {
		s = s[:i]
	}
	if len(s) > 120 {
		s = s[:120]
	}
	return s
}

// ErrClass turns an error into a short outcome class.
func ErrClass(err error) string {
	if err == nil {
		return "ok"
	}
	s := err.Error()
	if i := strings.LastIndex(s, ": "); i >= 0 && i+2 < len(s) {
		s = s[i+2:]
	}
	// strip numbers so classes stay few
	var b strings.Builder
	for _, c := range s {
		if c >= '0' && c <= '9' {
			continue
		}
		b.WriteRune(c)
	}
	return "err:" + firstLine(b.String())
}

// ---------------------------------------------------------------------------------------------
// Sharding over worker processes

// ShardFunc runs shard i of n and returns its result.
type ShardFunc func(shard, n int, tier string) *Result

// RunSharded re-executes this binary n times ("worker <prop> <tier> <i> <n>") and merges the
// results.  With VERIF_INPROC=1 or n==1 it runs in-process.
func RunSharded(prop, tier string, n int, f ShardFunc) *Result {
	if n <= 1 || os.Getenv("VERIF_INPROC") == "1" {
		res := NewResult(prop)
		for i := 0; i < n; i++ {
			res.Merge(f(i, n, tier))
		}
		return res
	}
	tmp := filepath.Join(Root(), "build", "tmp")
	_ = os.MkdirAll(tmp, 0o755)
	res := NewResult(prop)
	var mu sync.Mutex
	var wg sync.WaitGroup
	for i := 0; i < n; i++ {
		wg.Add(1)
		go func(i int) {
			defer wg.Done()
			out := filepath.Join(tmp, fmt.Sprintf("%s-%s-%d-%d-%d.json", prop, tier, os.Getpid(), i, n))
			cmd := exec.Command(os.Args[0], "worker", prop, tier, strconv.Itoa(i), strconv.Itoa(n), out)
			cmd.Stderr = os.Stderr
			cmd.Env = append(os.Environ(), "GOMAXPROCS=2")
			err := cmd.Run()
			mu.Lock()
			defer mu.Unlock()
			if err != nil {
				res.HarnessErr = fmt.Sprintf("worker %d/%d failed: %v", i, n, err)
				return
			}
			bz, err := os.ReadFile(out)
			if err != nil {
				res.HarnessErr = fmt.Sprintf("worker %d/%d: %v", i, n, err)
				return
			}
			_ = os.Remove(out)
			var r Result
			if err := json.Unmarshal(bz, &r); err != nil {
				res.HarnessErr = fmt.Sprintf("worker %d/%d: %v", i, n, err)
				return
			}
			for k := range r.Violations {
				if r.Violations[k].NShards == 0 {
					r.Violations[k].Shard, r.Violations[k].NShards, r.Violations[k].Tier = i, n, tier
				}
			}
			res.Merge(&r)
		}(i)
	}
	wg.Wait()
	return res
}

// RerunShard runs one shard of an exploration again in a fresh process and returns its violations.
func RerunShard(prop, tier string, shard, n int) ([]Violation, error) {
	tmp := filepath.Join(Root(), "build", "tmp")
	_ = os.MkdirAll(tmp, 0o755)
	out := filepath.Join(tmp, fmt.Sprintf("%s-%s-%d-rerun-%d-%d.json", prop, tier, os.Getpid(), shard, n))
	cmd := exec.Command(os.Args[0], "worker", prop, tier, strconv.Itoa(shard), strconv.Itoa(n), out)
	cmd.Stderr = os.Stderr
	cmd.Env = append(os.Environ(), "GOMAXPROCS=2")
	if err := cmd.Run(); err != nil {
		return nil, err
	}
	defer os.Remove(out)
	bz, err := os.ReadFile(out)
	if err != nil {
		return nil, err
	}
	var r Result
	if err := json.Unmarshal(bz, &r); err != nil {
		return nil, err
	}
	return r.Violations, nil
}

// WriteWorkerResult is called by the worker sub-command.
func WriteWorkerResult(path string, r *Result) {
	bz, err := json.Marshal(r)
	if err != nil {
		panic(err)
	}
	if err := os.WriteFile(path, bz, 0o644); err != nil {
		panic(err)
	}
}

var knownCache map[string]bool

func knownSig(prop, sig string) bool {
	if knownCache == nil {
		knownCache = map[string]bool{}
		for _, k := range LoadKnown() {
			if k.Status == "known" {
				knownCache[k.Property+"\x00"+k.Signature] = true
			}
		}
	}
	return knownCache[prop+"\x00"+sig]
}
