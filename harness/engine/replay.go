package engine

import "os"

// ReplayPath, when non-nil, turns every driver into a replayer of one recorded violation: explorers
// follow exactly this operation path (no sharding, no dedup, no pruning below failures or
// violations) and scenario enumerations skip every scenario whose description differs from the
// first element.  Setting VERIF_ONLY=<scenario description> has the same filtering effect for a
// single-element path (used for debugging).
var ReplayPath []string

func init() {
	if only := os.Getenv("VERIF_ONLY"); only != "" {
		ReplayPath = []string{only}
	}
}

func Replaying() bool { return ReplayPath != nil }

// SkipScenario tells a scenario enumeration whether to skip the scenario with this description.
func SkipScenario(desc string) bool {
	return ReplayPath != nil && len(ReplayPath) > 0 && ReplayPath[0] != desc
}
