package engine

import (
	"encoding/json"
	"fmt"
	"os"
	"path/filepath"
	"regexp"
	"sort"
	"strconv"
	"strings"
	"time"
)

type KnownFinding struct {
	Property  string `json:"property"`
	Signature string `json:"signature"`
	Status    string `json:"status"` // known | fixed
	Commit    string `json:"commit,omitempty"`
	What      string `json:"what"`
	Witness   any    `json:"witness,omitempty"`
}

type knownFile struct {
	Findings []KnownFinding `json:"findings"`
}

func LoadKnown() []KnownFinding {
	bz, err := os.ReadFile(filepath.Join(Root(), "known_findings.json"))
	if err != nil {
		return nil
	}
	var f knownFile
	if err := json.Unmarshal(bz, &f); err != nil {
		fmt.Fprintln(os.Stderr, "known_findings.json: ", err)
		os.Exit(2)
	}
	return f.Findings
}

// Meta describes a check run for the evidence file.
type Meta struct {
	Property    string
	Tier        string
	Level       string // model_checking
	Rule        string
	Assumptions []string
	Bounds      map[string]any
	Alphabet    []string
	Start       time.Time
	// Replayer re-executes a violation's path from scratch and returns the signatures of the
	// violations it observes (nil if not supported).
	Replayer func(v Violation) []string
}

var sigSan = regexp.MustCompile(`[^A-Za-z0-9_.=-]+`)

func seed() int {
	if s := os.Getenv("VERIF_SEED"); s != "" {
		if n, err := strconv.Atoi(s); err == nil {
			return n
		}
	}
	return 0
}

// Finish writes the evidence file, prints KNOWN-FINDING / VIOLATION lines and returns the
// process exit code (0 held / only known findings, 1 new violation, 2 harness error).
func Finish(res *Result, m Meta) int {
	known := LoadKnown()
	isKnown := func(sig string) *KnownFinding {
		for i := range known {
			if known[i].Property == m.Property && known[i].Status == "known" && known[i].Signature == sig {
				return &known[i]
			}
		}
		return nil
	}

	exit := 0
	if res.HarnessErr != "" {
		fmt.Printf("HARNESS-ERROR property=%s %s\n", m.Property, res.HarnessErr)
		exit = 2
	}
	// vacuity guard: at least two outcome classes unless the driver has a single outcome by nature
	sort.Slice(res.Violations, func(i, j int) bool { return res.Violations[i].Signature < res.Violations[j].Signature })
	var knownSeen []string
	newViol := 0
	for _, v := range res.Violations {
		if kf := isKnown(v.Signature); kf != nil {
			fmt.Printf("KNOWN-FINDING: property=%s %s [%s]\n", m.Property, kf.What, v.Signature)
			knownSeen = append(knownSeen, v.Signature)
			continue
		}
		// replay twice before believing it
		if m.Replayer != nil {
			a := m.Replayer(v)
			b := m.Replayer(v)
			if !contains(a, v.Signature) || !contains(b, v.Signature) {
				// the path alone does not reproduce it.  The exploration is deterministic: if running the
				// same shard again in a fresh process reports the same breach on the same path, the code
				// under test keeps state outside the stores that a discarded branch (= a rejected
				// transaction) does not take back.  Otherwise the harness itself is not reproducible.
				again := false
				if v.NShards > 0 {
					if vs, err := RerunShard(m.Property, v.Tier, v.Shard, v.NShards); err == nil {
						for _, x := range vs {
							if x.Signature == v.Signature && strings.Join(x.Path, "|") == strings.Join(v.Path, "|") {
								again = true
							}
						}
					}
				}
				if !again {
					fmt.Printf("HARNESS-ERROR property=%s violation %q did not reproduce on replay (%v / %v)\n", m.Property, v.Signature, a, b)
					exit = 2
					continue
				}
				v.ReplayMode = "exploration-order"
				if v.Detail == nil {
					v.Detail = map[string]any{}
				}
				v.Detail["replay_note"] = "not reproducible from its path on a fresh fixture, reproducible by re-running the exploration shard: the breach depends on state outside the stores left by a discarded branch (a rejected transaction)"
			}
		}
		dir := filepath.Join(Root(), "replays")
		_ = os.MkdirAll(dir, 0o755)
		name := fmt.Sprintf("%s-%s.json", m.Property, sigSan.ReplaceAllString(v.Signature, "_"))
		if len(name) > 180 {
			name = name[:180] + ".json"
		}
		path := filepath.Join(dir, name)
		bz, _ := json.MarshalIndent(v, "", " ")
		_ = os.WriteFile(path, bz, 0o644)
		fmt.Printf("VIOLATION property=%s replay=%s\n", m.Property, path)
		fmt.Printf("  signature: %s\n  what: %s\n  path: %v\n", v.Signature, v.What, v.Path)
		newViol++
		if exit == 0 {
			exit = 1
		}
	}

	nontrivial := len(res.Nontrivial)
	cov := map[string]any{
		"states":                        max(len(res.States), 1),
		"transitions":                   max64(res.Transitions, 1),
		"traces_validated_against_impl": res.TracesImpl,
		"evaluations":                   max64(res.Evaluations, 1),
		"distinct_nontrivial":           nontrivial,
		"rule":                          m.Rule,
		"samples":                       res.Samples,
		"exhaustive":                    !res.CapHit,
		"cap_hit":                       res.CapHit,
		"max_depth":                     res.MaxDepth,
		"outcomes":                      res.Outcomes,
		"bounds":                        m.Bounds,
		"alphabet":                      m.Alphabet,
		"known_findings_seen":           knownSeen,
		"observations":                  res.Observations,
		"counters":                      res.Counters,
	}
	for k, v := range res.Extra {
		cov[k] = v
	}
	if len(res.Samples) == 0 {
		cov["samples"] = []any{"(no sample recorded)"}
	}
	ev := map[string]any{
		"property_id": m.Property,
		"tier":        m.Tier,
		"seed":        seed(),
		"level":       m.Level,
		"coverage":    cov,
		"assumptions": m.Assumptions,
		"wall_s":      time.Since(m.Start).Seconds(),
		"violations":  newViol,
	}
	_ = os.MkdirAll(filepath.Join(Root(), "evidence"), 0o755)
	bz, _ := json.MarshalIndent(ev, "", " ")
	// a per-tier copy is kept next to it, so that the record of the last thorough run survives the
	// next quick run
	_ = os.MkdirAll(filepath.Join(Root(), "evidence", "by-tier"), 0o755)
	_ = os.WriteFile(filepath.Join(Root(), "evidence", "by-tier", m.Property+"-"+m.Tier+".json"), bz, 0o644)
	if err := os.WriteFile(filepath.Join(Root(), "evidence", m.Property+".json"), bz, 0o644); err != nil {
		fmt.Println("HARNESS-ERROR cannot write evidence:", err)
		return 2
	}
	var oc []string
	for k, v := range res.Outcomes {
		oc = append(oc, fmt.Sprintf("%s=%d", k, v))
	}
	sort.Strings(oc)
	if len(oc) > 12 {
		oc = append(oc[:12], "...")
	}
	fmt.Printf("%s %s: states=%d transitions=%d evaluations=%d nontrivial=%d traces_impl=%d depth=%d exhaustive=%v known=%d new=%d wall=%.1fs\n  outcomes: %s\n",
		m.Property, m.Tier, len(res.States), res.Transitions, res.Evaluations, nontrivial, res.TracesImpl, res.MaxDepth, !res.CapHit,
		len(knownSeen), newViol, time.Since(m.Start).Seconds(), strings.Join(oc, " "))
	return exit
}

func contains(xs []string, s string) bool {
	for _, x := range xs {
		if x == s {
			return true
		}
	}
	return false
}

func max64(a, b int64) int64 {
	if a > b {
		return a
	}
	return b
}
