// Package calltree synthesises bounded families of EVM call trees as contract bytecode.
//
// A Frame is one contract (own address) whose program is: skip-switch prologue, optional SSTORE,
// optional LOG, a list of items (call a child frame, call a precompile leaf, send value to an
// EOA), optional SSTORE, and an ending (STOP / REVERT / INVALID).  Every call's success flag is
// stored in the frame's own storage so a run is self-describing.  The skip switch (storage slot
// 99 != 0 -> REVERT at entry) lets the harness build, with IDENTICAL code, the execution in which
// the frames that fail did nothing at all: the reference of the fork differential.
package calltree

import (
	"fmt"
	"math/big"
	"strings"

	sdk "github.com/cosmos/cosmos-sdk/types"
	"github.com/ethereum/go-ethereum/common"

	"verif/harness/evmasm"
	"verif/harness/world"
)

const (
	SlotPre  = 1
	SlotPost = 2
	SlotFlag = 10 // + item index
	SlotSkip = 99
	// ChildGas is what the root gives to its child; every level down gets a quarter of it.
	ChildGas = 2000000
)

type Leaf struct {
	Name   string
	To     common.Address
	Data   []byte
	Static bool
	Value  int64
	// ExpectOK: whether the call is expected to succeed in the fixture (informational)
}

type Item struct {
	Child  *Frame
	Leaf   *Leaf
	EOA    *common.Address
	Value  int64
	All    bool // plain send only: the frame's whole balance (SELFBALANCE) instead of Value
	Bubble bool // revert this frame if the call failed
}

type Frame struct {
	ID    int
	Pre   bool
	Post  bool
	Log   bool
	Items []Item
	End   string // stop | revert | invalid
}

func (f *Frame) Addr() common.Address { return world.ContractAddr(byte(0x10 + f.ID)) }

func (f *Frame) String() string {
	var parts []string
	if f.Pre {
		parts = append(parts, "S")
	}
	if f.Log {
		parts = append(parts, "L")
	}
	for _, it := range f.Items {
		b := ""
		if it.Bubble {
			b = "!"
		}
		v := ""
		if it.Value > 0 {
			v = fmt.Sprintf("$%d", it.Value)
		}
		switch {
		case it.Child != nil:
			parts = append(parts, fmt.Sprintf("call%s%s(%s)", b, v, it.Child))
		case it.Leaf != nil:
			s := ""
			if it.Leaf.Static {
				s = "static:"
			}
			parts = append(parts, fmt.Sprintf("pc%s%s[%s%s]", b, v, s, it.Leaf.Name))
		default:
			parts = append(parts, fmt.Sprintf("send%s%s", b, v))
		}
	}
	if f.Post {
		parts = append(parts, "S'")
	}
	if f.Log {
		parts = append(parts, "L'")
	}
	return fmt.Sprintf("F%d{%s;%s}", f.ID, strings.Join(parts, " "), f.End)
}

// Code assembles the frame's program.
func (f *Frame) Code() []byte {
	a := evmasm.New()
	// skip switch
	a.PushU(SlotSkip).Op(evmasm.SLOAD).Op(evmasm.ISZERO).PushLabel("go").Op(evmasm.JUMPI)
	a.Revert()
	a.Label("go")
	if f.Pre {
		a.SStore(SlotPre, 1)
	}
	if f.Log {
		// LOG1 with a topic naming the frame and the position (before / after its items)
		a.PushU(uint64(2*f.ID + 1)).PushU(0).PushU(0).Op(evmasm.LOG1)
	}
	for i, it := range f.Items {
		var to common.Address
		var inLen uint64
		kind := byte(evmasm.CALL)
		val := it.Value
		switch {
		case it.Child != nil:
			to = it.Child.Addr()
		case it.Leaf != nil:
			to = it.Leaf.To
			idx := a.Data(it.Leaf.Data)
			inLen = uint64(a.CopyDataToMem(idx, 0))
			if it.Leaf.Static {
				kind = evmasm.STATICCALL
			}
			if it.Leaf.Value > 0 {
				val = it.Leaf.Value
			}
		default:
			to = *it.EOA
		}
		// child frames get a fixed gas allowance (an INVALID ending burns all gas it was given; with
		// "all but 1/64th" the rest of the parent would starve and the comparison with the
		// reference execution would measure gas, not revert semantics); leaves and plain sends
		// get whatever is left
		gas := uint64(0)
		if it.Child != nil {
			gas = ChildGas >> uint(2*f.ID)
		}
		if it.All && it.EOA != nil {
			a.PushU(0).PushU(0).PushU(0).PushU(0).Op(evmasm.SELFBALANCE).PushAddr(to).Op(evmasm.GAS).Op(evmasm.CALL)
		} else {
			a.Call(kind, gas, to, big.NewInt(val), 0, inLen, 0, 0)
		}
		// stack: success
		a.Op(evmasm.DUP1).SStoreTop(uint64(SlotFlag + i))
		if it.Bubble {
			a.BubbleIfZero(fmt.Sprintf("ok%d", i))
		} else {
			a.Op(evmasm.POP)
		}
	}
	if f.Post {
		a.SStore(SlotPost, 1)
	}
	if f.Log {
		a.PushU(uint64(2*f.ID + 2)).PushU(0).PushU(0).Op(evmasm.LOG1)
	}
	switch f.End {
	case "revert":
		a.Revert()
	case "invalid":
		a.Invalid()
	default:
		a.Stop()
	}
	return a.Bytes()
}

// Frames lists f and all descendants.
func (f *Frame) Frames() []*Frame {
	out := []*Frame{f}
	for _, it := range f.Items {
		if it.Child != nil {
			out = append(out, it.Child.Frames()...)
		}
	}
	return out
}

// Fails is the reference's own evaluation of the tree: a frame fails iff it ends abnormally or a
// bubbled child (or leaf known to fail) failed.  leafFails tells which leaves fail.
func (f *Frame) Fails(leafFails func(*Leaf) bool) bool {
	for _, it := range f.Items {
		if !it.Bubble {
			continue
		}
		if it.Child != nil && it.Child.Fails(leafFails) {
			return true
		}
		if it.Leaf != nil && leafFails != nil && leafFails(it.Leaf) {
			return true
		}
	}
	return f.End != "stop"
}

// TopFailed: outermost failing frames (their whole subtree has no effect).
func (f *Frame) FailedFrames(leafFails func(*Leaf) bool) []*Frame {
	if f.Fails(leafFails) {
		return []*Frame{f}
	}
	var out []*Frame
	for _, it := range f.Items {
		if it.Child != nil {
			out = append(out, it.Child.FailedFrames(leafFails)...)
		}
	}
	return out
}

// Install writes every frame's code on the given context; skip lists frame IDs whose skip
// switch is set.
func Install(w *world.World, ctx sdk.Context, root *Frame, skip map[int]bool) {
	for _, f := range root.Frames() {
		st := map[uint64]uint64{}
		if skip[f.ID] {
			st[SlotSkip] = 1
		}
		w.InstallContract(ctx, f.Addr(), f.Code(), st)
	}
}
