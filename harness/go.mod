module verif/harness

go 1.22

require (
	cosmossdk.io/api v0.3.1
	cosmossdk.io/core v0.5.1
	cosmossdk.io/depinject v1.0.0-alpha.4
	cosmossdk.io/errors v1.0.1
	cosmossdk.io/math v1.3.0
	cosmossdk.io/simapp v0.0.0-20230608160436-666c345ad23d
	cosmossdk.io/tools/rosetta v0.2.1
	github.com/armon/go-metrics v0.4.1
	github.com/btcsuite/btcd v0.23.4
	github.com/btcsuite/btcd/btcutil v1.1.3
	github.com/cometbft/cometbft v0.37.9
	github.com/cometbft/cometbft-db v0.8.0
	github.com/cosmos/cosmos-proto v1.0.0-beta.5
	github.com/cosmos/cosmos-sdk v0.47.12
	github.com/cosmos/go-bip39 v1.0.0
	github.com/cosmos/gogoproto v1.4.10
	github.com/cosmos/ibc-apps/middleware/packet-forward-middleware/v7 v7.1.3
	github.com/cosmos/ibc-go/v7 v7.4.0
	github.com/davecgh/go-spew v1.1.2-0.20180830191138-d8f796af33cc
	github.com/ethereum/go-ethereum v1.11.5
	github.com/gogo/protobuf v1.3.3
	github.com/golang/protobuf v1.5.4
	github.com/gorilla/mux v1.8.0
	github.com/gorilla/websocket v1.5.0
	github.com/grpc-ecosystem/grpc-gateway v1.16.0
	github.com/hashicorp/go-version v1.6.0
	github.com/improbable-eng/grpc-web v0.15.0
	github.com/onsi/ginkgo/v2 v2.14.0
	github.com/onsi/gomega v1.30.0
	github.com/ory/dockertest/v3 v3.9.1
	github.com/pkg/errors v0.9.1
	github.com/rakyll/statik v0.1.7
	github.com/rs/cors v1.8.3
	github.com/spf13/cast v1.6.0
	github.com/spf13/cobra v1.8.0
	github.com/spf13/viper v1.18.2
	github.com/stretchr/testify v1.9.0
	github.com/tidwall/gjson v1.14.0
	github.com/tidwall/sjson v1.2.4
	github.com/tyler-smith/go-bip39 v1.1.0
	github.com/zondax/hid v0.9.2
	go.opencensus.io v0.24.0
	golang.org/x/crypto v0.23.0
	golang.org/x/exp v0.0.0-20230905200255-921286631fa9
	golang.org/x/net v0.25.0
	golang.org/x/text v0.15.0
	google.golang.org/genproto/googleapis/api v0.0.0-20240123012728-ef4313101c80
	google.golang.org/grpc v1.62.1
	google.golang.org/protobuf v1.33.0
	sigs.k8s.io/yaml v1.4.0
)

require (
	cloud.google.com/go v0.112.0 // indirect
	cloud.google.com/go/compute v1.23.3 // indirect
	cloud.google.com/go/compute/metadata v0.2.3 // indirect
	cloud.google.com/go/iam v1.1.5 // indirect
	cloud.google.com/go/storage v1.36.0 // indirect
	cosmossdk.io/log v1.3.1 // indirect
	filippo.io/edwards25519 v1.0.0 // indirect
	github.com/99designs/go-keychain v0.0.0-20191008050251-8e49817e8af4 // indirect
	github.com/99designs/keyring v1.2.1 // indirect
	github.com/Azure/go-ansiterm v0.0.0-20210617225240-d185dfc1b5a1 // indirect
	github.com/ChainSafe/go-schnorrkel v1.0.0 // indirect
	github.com/Microsoft/go-winio v0.6.1 // indirect
	github.com/Nvveen/Gotty v0.0.0-20120604004816-cd527374f1e5 // indirect
	github.com/StackExchange/wmi v1.2.1 // indirect
	github.com/VictoriaMetrics/fastcache v1.6.0 // indirect
	github.com/allegro/bigcache v1.2.1 // indirect
	github.com/aws/aws-sdk-go v1.44.203 // indirect
	github.com/beorn7/perks v1.0.1 // indirect
	github.com/bgentry/go-netrc v0.0.0-20140422174119-9fd32a8b3d3d // indirect
	github.com/bgentry/speakeasy v0.1.1-0.20220910012023-760eaf8b6816 // indirect
	github.com/btcsuite/btcd/btcec/v2 v2.3.2 // indirect
	github.com/btcsuite/btcd/chaincfg/chainhash v1.0.1 // indirect
	github.com/cenkalti/backoff/v4 v4.1.3 // indirect
	github.com/cespare/xxhash v1.1.0 // indirect
	github.com/cespare/xxhash/v2 v2.2.0 // indirect
	github.com/chzyer/readline v1.5.1 // indirect
	github.com/cockroachdb/apd/v2 v2.0.2 // indirect
	github.com/cockroachdb/errors v1.10.0 // indirect
	github.com/cockroachdb/logtags v0.0.0-20230118201751-21c54148d20b // indirect
	github.com/cockroachdb/redact v1.1.5 // indirect
	github.com/coinbase/rosetta-sdk-go v0.7.9 // indirect
	github.com/confio/ics23/go v0.9.0 // indirect
	github.com/containerd/continuity v0.3.0 // indirect
	github.com/cosmos/btcutil v1.0.5 // indirect
	github.com/cosmos/gogogateway v1.2.0 // indirect
	github.com/cosmos/iavl v0.20.1 // indirect
	github.com/cosmos/ics23/go v0.10.0 // indirect
	github.com/cosmos/ledger-cosmos-go v0.12.4 // indirect
	github.com/cosmos/rosetta-sdk-go v0.10.0 // indirect
	github.com/creachadair/taskgroup v0.4.2 // indirect
	github.com/danieljoos/wincred v1.1.2 // indirect
	github.com/deckarep/golang-set v1.8.0 // indirect
	github.com/decred/dcrd/dcrec/secp256k1/v4 v4.1.0 // indirect
	github.com/desertbit/timer v0.0.0-20180107155436-c41aec40b27f // indirect
	github.com/dgraph-io/badger/v2 v2.2007.4 // indirect
	github.com/dgraph-io/ristretto v0.1.1 // indirect
	github.com/dgryski/go-farm v0.0.0-20200201041132-a6ae2369ad13 // indirect
	github.com/dlclark/regexp2 v1.4.1-0.20201116162257-a2a8dda75c91 // indirect
	github.com/docker/cli v20.10.21+incompatible // indirect
	github.com/docker/docker v24.0.7+incompatible // indirect
	github.com/docker/go-connections v0.4.0 // indirect
	github.com/docker/go-units v0.5.0 // indirect
	github.com/dop251/goja v0.0.0-20220405120441-9037c2b61cbf // indirect
	github.com/dustin/go-humanize v1.0.1 // indirect
	github.com/dvsekhvalnov/jose2go v1.6.0 // indirect
	github.com/edsrzf/mmap-go v1.0.0 // indirect
	github.com/felixge/httpsnoop v1.0.4 // indirect
	github.com/fsnotify/fsnotify v1.7.0 // indirect
	github.com/gballet/go-libpcsclite v0.0.0-20190607065134-2772fd86a8ff // indirect
	github.com/getsentry/sentry-go v0.23.0 // indirect
	github.com/go-kit/kit v0.12.0 // indirect
	github.com/go-kit/log v0.2.1 // indirect
	github.com/go-logfmt/logfmt v0.6.0 // indirect
	github.com/go-logr/logr v1.4.2 // indirect
	github.com/go-logr/stdr v1.2.2 // indirect
	github.com/go-ole/go-ole v1.2.6 // indirect
	github.com/go-sourcemap/sourcemap v2.1.3+incompatible // indirect
	github.com/go-stack/stack v1.8.0 // indirect
	github.com/go-task/slim-sprig v0.0.0-20230315185526-52ccab3ef572 // indirect
	github.com/godbus/dbus v0.0.0-20190726142602-4481cbc300e2 // indirect
	github.com/gogo/googleapis v1.4.1 // indirect
	github.com/golang/glog v1.2.0 // indirect
	github.com/golang/groupcache v0.0.0-20210331224755-41bb18bfe9da // indirect
	github.com/golang/mock v1.6.0 // indirect
	github.com/golang/snappy v0.0.4 // indirect
	github.com/google/btree v1.1.2 // indirect
	github.com/google/go-cmp v0.6.0 // indirect
	github.com/google/orderedcode v0.0.1 // indirect
	github.com/google/pprof v0.0.0-20240424215950-a892ee059fd6 // indirect
	github.com/google/s2a-go v0.1.7 // indirect
	github.com/google/shlex v0.0.0-20191202100458-e7afc7fbc510 // indirect
	github.com/google/uuid v1.6.0 // indirect
	github.com/googleapis/enterprise-certificate-proxy v0.3.2 // indirect
	github.com/googleapis/gax-go/v2 v2.12.0 // indirect
	github.com/gorilla/handlers v1.5.1 // indirect
	github.com/grpc-ecosystem/go-grpc-middleware v1.3.0 // indirect
	github.com/gsterjov/go-libsecret v0.0.0-20161001094733-a6f4afe4910c // indirect
	github.com/gtank/merlin v0.1.1 // indirect
	github.com/gtank/ristretto255 v0.1.2 // indirect
	github.com/haqq-network/haqq v0.0.0
	github.com/hashicorp/go-cleanhttp v0.5.2 // indirect
	github.com/hashicorp/go-getter v1.7.1 // indirect
	github.com/hashicorp/go-immutable-radix v1.3.1 // indirect
	github.com/hashicorp/go-safetemp v1.0.0 // indirect
	github.com/hashicorp/golang-lru v0.5.5-0.20210104140557-80c98217689d // indirect
	github.com/hashicorp/golang-lru/v2 v2.0.7 // indirect
	github.com/hashicorp/hcl v1.0.0 // indirect
	github.com/hdevalence/ed25519consensus v0.1.0 // indirect
	github.com/holiman/bloomfilter/v2 v2.0.3 // indirect
	github.com/holiman/uint256 v1.2.1 // indirect
	github.com/huandu/skiplist v1.2.0 // indirect
	github.com/huin/goupnp v1.0.3 // indirect
	github.com/iancoleman/orderedmap v0.2.0 // indirect
	github.com/imdario/mergo v0.3.13 // indirect
	github.com/inconshreveable/mousetrap v1.1.0 // indirect
	github.com/jackpal/go-nat-pmp v1.0.2 // indirect
	github.com/jmespath/go-jmespath v0.4.0 // indirect
	github.com/jmhodges/levigo v1.0.0 // indirect
	github.com/klauspost/compress v1.17.0 // indirect
	github.com/kr/pretty v0.3.1 // indirect
	github.com/kr/text v0.2.0 // indirect
	github.com/lib/pq v1.10.7 // indirect
	github.com/linxGnu/grocksdb v1.7.16 // indirect
	github.com/magiconair/properties v1.8.7 // indirect
	github.com/manifoldco/promptui v0.9.0 // indirect
	github.com/mattn/go-colorable v0.1.13 // indirect
	github.com/mattn/go-isatty v0.0.20 // indirect
	github.com/mattn/go-runewidth v0.0.9 // indirect
	github.com/matttproud/golang_protobuf_extensions v1.0.4 // indirect
	github.com/mimoo/StrobeGo v0.0.0-20210601165009-122bf33a46e0 // indirect
	github.com/minio/highwayhash v1.0.2 // indirect
	github.com/mitchellh/go-homedir v1.1.0 // indirect
	github.com/mitchellh/go-testing-interface v1.14.1 // indirect
	github.com/mitchellh/mapstructure v1.5.0 // indirect
	github.com/moby/term v0.0.0-20220808134915-39b0c02b01ae // indirect
	github.com/mtibben/percent v0.2.1 // indirect
	github.com/olekukonko/tablewriter v0.0.5 // indirect
	github.com/onsi/ginkgo v1.16.5 // indirect
	github.com/opencontainers/go-digest v1.0.0 // indirect
	github.com/opencontainers/image-spec v1.1.0-rc2 // indirect
	github.com/opencontainers/runc v1.1.4 // indirect
	github.com/pelletier/go-toml/v2 v2.1.0 // indirect
	github.com/petermattis/goid v0.0.0-20230317030725-371a4b8eda08 // indirect
	github.com/pmezard/go-difflib v1.0.1-0.20181226105442-5d4384ee4fb2 // indirect
	github.com/prometheus/client_golang v1.14.0 // indirect
	github.com/prometheus/client_model v0.3.0 // indirect
	github.com/prometheus/common v0.42.0 // indirect
	github.com/prometheus/procfs v0.9.0 // indirect
	github.com/prometheus/tsdb v0.10.0 // indirect
	github.com/rcrowley/go-metrics v0.0.0-20201227073835-cf1acfcdf475 // indirect
	github.com/rjeczalik/notify v0.9.2 // indirect
	github.com/rogpeppe/go-internal v1.11.0 // indirect
	github.com/rs/zerolog v1.32.0 // indirect
	github.com/sagikazarmark/locafero v0.4.0 // indirect
	github.com/sagikazarmark/slog-shim v0.1.0 // indirect
	github.com/sasha-s/go-deadlock v0.3.1 // indirect
	github.com/shirou/gopsutil v3.21.4-0.20210419000835-c7a38de76ee5+incompatible // indirect
	github.com/sirupsen/logrus v1.9.0 // indirect
	github.com/sourcegraph/conc v0.3.0 // indirect
	github.com/spf13/afero v1.11.0 // indirect
	github.com/spf13/pflag v1.0.5 // indirect
	github.com/status-im/keycard-go v0.0.0-20200402102358-957c09536969 // indirect
	github.com/stretchr/objx v0.5.2 // indirect
	github.com/subosito/gotenv v1.6.0 // indirect
	github.com/syndtr/goleveldb v1.0.1-0.20220721030215-126854af5e6d // indirect
	github.com/tendermint/go-amino v0.16.0 // indirect
	github.com/tidwall/btree v1.6.0 // indirect
	github.com/tidwall/match v1.1.1 // indirect
	github.com/tidwall/pretty v1.2.0 // indirect
	github.com/tklauser/go-sysconf v0.3.10 // indirect
	github.com/tklauser/numcpus v0.4.0 // indirect
	github.com/ulikunitz/xz v0.5.11 // indirect
	github.com/xeipuuv/gojsonpointer v0.0.0-20190905194746-02993c407bfb // indirect
	github.com/xeipuuv/gojsonreference v0.0.0-20180127040603-bd5ef7bd5415 // indirect
	github.com/xeipuuv/gojsonschema v1.2.0 // indirect
	github.com/zondax/ledger-go v0.14.3 // indirect
	go.etcd.io/bbolt v1.3.7 // indirect
	go.opentelemetry.io/contrib/instrumentation/google.golang.org/grpc/otelgrpc v0.46.1 // indirect
	go.opentelemetry.io/contrib/instrumentation/net/http/otelhttp v0.46.1 // indirect
	go.opentelemetry.io/otel v1.21.0 // indirect
	go.opentelemetry.io/otel/metric v1.21.0 // indirect
	go.opentelemetry.io/otel/trace v1.21.0 // indirect
	go.uber.org/atomic v1.10.0 // indirect
	go.uber.org/multierr v1.9.0 // indirect
	golang.org/x/mod v0.17.0 // indirect
	golang.org/x/oauth2 v0.16.0 // indirect
	golang.org/x/sync v0.7.0 // indirect
	golang.org/x/sys v0.21.0 // indirect
	golang.org/x/term v0.20.0 // indirect
	golang.org/x/time v0.5.0 // indirect
	golang.org/x/tools v0.21.0 // indirect
	google.golang.org/api v0.155.0 // indirect
	google.golang.org/appengine v1.6.8 // indirect
	google.golang.org/genproto v0.0.0-20240123012728-ef4313101c80 // indirect
	google.golang.org/genproto/googleapis/rpc v0.0.0-20240123012728-ef4313101c80 // indirect
	gopkg.in/ini.v1 v1.67.0 // indirect
	gopkg.in/natefinch/npipe.v2 v2.0.0-20160621034901-c1b8fa8bdcce // indirect
	gopkg.in/yaml.v2 v2.4.0 // indirect
	gopkg.in/yaml.v3 v3.0.1 // indirect
	nhooyr.io/websocket v1.8.7 // indirect
	pgregory.net/rapid v1.1.0 // indirect
)

replace (
	// use cosmos fork of keyring
	github.com/99designs/keyring => github.com/cosmos/keyring v1.2.0
	// use Cosmos-SDK fork to enable Ledger functionality
	github.com/cosmos/cosmos-sdk => github.com/evmos/cosmos-sdk v0.47.12-evmos.2
	// use Evmos geth fork
	github.com/ethereum/go-ethereum => github.com/evmos/go-ethereum v1.10.26-evmos-rc4
	// use cosmos flavored protobufs
	// Security Advisory https://github.com/advisories/GHSA-h395-qcrw-5vmq
	github.com/gin-gonic/gin => github.com/gin-gonic/gin v1.9.1
	// use cosmos flavored protobufs
	github.com/gogo/protobuf => github.com/regen-network/protobuf v1.3.3-alpha.regen.1
	// replace broken goleveldb
	github.com/syndtr/goleveldb => github.com/syndtr/goleveldb v1.0.1-0.20210819022825-2ae1ddf74ef7
	// need this replace with cosmos-sdk v0.47.11 (more info here https://github.com/cosmos/cosmos-sdk/issues/20159)
	golang.org/x/exp => golang.org/x/exp v0.0.0-20230711153332-06a737ee72cb
)

replace github.com/haqq-network/haqq => /repo
