package world

import (
	"fmt"

	sdk "github.com/cosmos/cosmos-sdk/types"
)

// RunMsg executes one message the way baseapp.runMsgs does for a single-message transaction:
// ValidateBasic, then the app's own msg-service router handler on a cache context that is
// written back only on success.  No ante handler, no gas limit.
func (w *World) RunMsg(ctx sdk.Context, msg sdk.Msg) (res *sdk.Result, err error) {
	if err := msg.ValidateBasic(); err != nil {
		return nil, err
	}
	h := w.App.MsgServiceRouter().Handler(msg)
	if h == nil {
		return nil, fmt.Errorf("no handler for %T", msg)
	}
	cctx, write := ctx.CacheContext()
	defer func() {
		if r := recover(); r != nil {
			err = fmt.Errorf("panic: %v", r)
			res = nil
		}
	}()
	res, err = h(cctx, msg)
	if err == nil {
		write()
	}
	return res, err
}
