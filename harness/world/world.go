// Package world builds the deterministic fixture chain every check starts from: fixed keys,
// fixed genesis time, real app.NewHaqq over a MemDB, real InitChain / BeginBlock / Commit.
package world

import (
	"encoding/json"
	"fmt"
	"math/big"
	"sort"
	"time"

	sdkmath "cosmossdk.io/math"
	dbm "github.com/cometbft/cometbft-db"
	abci "github.com/cometbft/cometbft/abci/types"
	"github.com/cometbft/cometbft/crypto/tmhash"
	"github.com/cometbft/cometbft/libs/log"
	tmproto "github.com/cometbft/cometbft/proto/tendermint/types"
	tmversion "github.com/cometbft/cometbft/proto/tendermint/version"
	"github.com/cometbft/cometbft/version"
	tmtypes "github.com/cometbft/cometbft/types"
	"github.com/cosmos/cosmos-sdk/baseapp"
	codectypes "github.com/cosmos/cosmos-sdk/codec/types"
	cryptocodec "github.com/cosmos/cosmos-sdk/crypto/codec"
	"github.com/cosmos/cosmos-sdk/crypto/keys/ed25519"
	sdk "github.com/cosmos/cosmos-sdk/types"
	authtypes "github.com/cosmos/cosmos-sdk/x/auth/types"
	banktypes "github.com/cosmos/cosmos-sdk/x/bank/types"
	govtypes "github.com/cosmos/cosmos-sdk/x/gov/types"
	govv1 "github.com/cosmos/cosmos-sdk/x/gov/types/v1"
	slashingtypes "github.com/cosmos/cosmos-sdk/x/slashing/types"
	stakingtypes "github.com/cosmos/cosmos-sdk/x/staking/types"
	"github.com/ethereum/go-ethereum/common"
	"github.com/ethereum/go-ethereum/crypto"

	"github.com/haqq-network/haqq/app"
	"github.com/haqq-network/haqq/crypto/ethsecp256k1"
	"github.com/haqq-network/haqq/encoding"
	haqqtypes "github.com/haqq-network/haqq/types"
	"github.com/haqq-network/haqq/utils"
	coinomicstypes "github.com/haqq-network/haqq/x/coinomics/types"
	evmtypes "github.com/haqq-network/haqq/x/evm/types"
	feemarkettypes "github.com/haqq-network/haqq/x/feemarket/types"
)

const (
	// DefaultChainID is a TestEdge2 id: the mainnet id would enable the IBC firewall allow-list.
	DefaultChainID = "haqq_54211-3"
	Denom          = utils.BaseDenom
)

var GenesisTime = time.Date(2024, 1, 1, 0, 0, 0, 0, time.UTC)

// Options selects the fixture variant. The zero value is the default fixture.
type Options struct {
	ChainID     string
	NumVals     int // default 1
	NumAccounts int // default 6
	// Balance of every EOA in aISLM base units (default 10^24).
	Balance sdkmath.Int
	// ExtraCoins are given to every EOA in addition (e.g. a second denom).
	ExtraCoins sdk.Coins
	// ValOperators: validator index -> account index whose address operates it (default: an
	// address nobody holds a key for, derived from the consensus key).
	ValOperators map[int]int
	// ValTokens: tokens bonded to each genesis validator by account 0 (default 10^18).
	ValTokens sdkmath.Int
	// Fee market: default NoBaseFee=true, MinGasPrice=0.
	FeeMarket *feemarkettypes.Params
	// Coinomics: default disabled.
	Coinomics *coinomicstypes.Params
	// Gov: short voting period and tiny deposit when set.
	FastGov bool
	// BondDenom of the staking module (default: Denom).
	BondDenom string
	// SlashWindow sets a small signed-blocks window (for downtime slashing) when > 0.
	SlashWindow int64
	// Patch lets a driver edit the genesis further.
	Patch func(a *app.Haqq, gs haqqtypes.GenesisState) haqqtypes.GenesisState
	DB    dbm.DB
	// MaxGas of the consensus params (default -1 = unlimited).
	MaxGas int64
	// SkipFirstBlock: leave the chain right after InitChain (no block 1 commit).
	SkipFirstBlock bool
	// Contracts are installed in genesis (auth EthAccount with code hash + evm genesis account).
	Contracts []GenesisContract
	// UnbondingTime of the staking module (default 3 days).
	UnbondingTime time.Duration
	// CommunityTax (default 0 so the community pool has no other inflow).
	CommunityTax *sdk.Dec
}

// GenesisContract is a contract present from genesis on.
type GenesisContract struct {
	Addr    common.Address
	Code    []byte
	Storage map[uint64]uint64
	Balance int64
}

// World is a running fixture chain positioned inside an open block (after BeginBlock).
type World struct {
	Opts     Options
	App      *app.Haqq
	DB       dbm.DB
	ChainID  string
	Keys     []*ethsecp256k1.PrivKey
	Addrs    []sdk.AccAddress
	Eth      []common.Address
	ValKeys  []*ed25519.PrivKey
	ValAddr  []sdk.ValAddress  // operator addresses
	ValCons  []sdk.ConsAddress // consensus addresses
	Header   tmproto.Header    // header of the currently open block
	Genesis  []byte
	ValPower int64 // consensus power of each genesis validator
	InitReq  abci.RequestInitChain
}

func Key(i int) *ethsecp256k1.PrivKey {
	h := crypto.Keccak256([]byte(fmt.Sprintf("verif-key-%d", i)))
	return &ethsecp256k1.PrivKey{Key: h}
}

func ValKey(i int) *ed25519.PrivKey {
	seed := crypto.Keccak256([]byte(fmt.Sprintf("verif-val-%d", i)))
	return ed25519.GenPrivKeyFromSecret(seed)
}

// NodeConfig holds node-local settings (what an operator writes into app.toml): they must not
// influence what a node computes from blocks.  nil = defaults.
var NodeConfig map[string]interface{}

type appOpts map[string]interface{}

func (m appOpts) Get(k string) interface{} { return m[k] }

func NewApp(db dbm.DB, chainID string) *app.Haqq {
	opts := appOpts{"home": app.DefaultNodeHome}
	for k, v := range NodeConfig {
		opts[k] = v
	}
	var bopts []func(*baseapp.BaseApp)
	if mgp, ok := NodeConfig["minimum-gas-prices"].(string); ok {
		bopts = append(bopts, baseapp.SetMinGasPrices(mgp))
	}
	bopts = append(bopts, baseapp.SetChainID(chainID))
	return app.NewHaqq(
		log.NewNopLogger(), db, nil, true, map[int64]bool{}, app.DefaultNodeHome, 0,
		encoding.MakeConfig(app.ModuleBasics),
		opts,
		bopts...,
	)
}

func pow10(n int) sdkmath.Int {
	return sdkmath.NewIntFromBigInt(new(big.Int).Exp(big.NewInt(10), big.NewInt(int64(n)), nil))
}

// New builds the fixture and leaves it inside block 2 (block 1 is committed), unless
// SkipFirstBlock is set.
func New(o Options) *World {
	if o.ChainID == "" {
		o.ChainID = DefaultChainID
	}
	if o.NumVals == 0 {
		o.NumVals = 1
	}
	if o.NumAccounts == 0 {
		o.NumAccounts = 6
	}
	if o.Balance.IsNil() {
		o.Balance = pow10(24)
	}
	if o.ValTokens.IsNil() {
		o.ValTokens = pow10(18)
	}
	if o.DB == nil {
		o.DB = dbm.NewMemDB()
	}
	if o.MaxGas == 0 {
		o.MaxGas = -1
	}
	w := &World{Opts: o, DB: o.DB, ChainID: o.ChainID}
	w.App = NewApp(o.DB, o.ChainID)
	cdc := w.App.AppCodec()

	for i := 0; i < o.NumAccounts; i++ {
		k := Key(i)
		w.Keys = append(w.Keys, k)
		a := sdk.AccAddress(k.PubKey().Address().Bytes())
		w.Addrs = append(w.Addrs, a)
		w.Eth = append(w.Eth, common.BytesToAddress(a))
	}

	gs := app.NewDefaultGenesisState()

	// auth
	emptyCodeHash := crypto.Keccak256Hash(nil).String()
	var genAccs []authtypes.GenesisAccount
	var balances []banktypes.Balance
	total := sdk.NewCoins()
	for i, a := range w.Addrs {
		genAccs = append(genAccs, &haqqtypes.EthAccount{
			BaseAccount: authtypes.NewBaseAccount(a, nil, uint64(i), 0),
			CodeHash:    emptyCodeHash,
		})
		coins := sdk.NewCoins(sdk.NewCoin(Denom, o.Balance)).Add(o.ExtraCoins...)
		balances = append(balances, banktypes.Balance{Address: a.String(), Coins: coins})
		total = total.Add(coins...)
	}
	var evmAccs []evmtypes.GenesisAccount
	for i, c := range o.Contracts {
		a := sdk.AccAddress(c.Addr.Bytes())
		genAccs = append(genAccs, &haqqtypes.EthAccount{
			BaseAccount: authtypes.NewBaseAccount(a, nil, uint64(len(w.Addrs)+i), 1),
			CodeHash:    crypto.Keccak256Hash(c.Code).String(),
		})
		ga := evmtypes.GenesisAccount{Address: c.Addr.Hex(), Code: common.Bytes2Hex(c.Code)}
		var ks []uint64
		for k := range c.Storage {
			ks = append(ks, k)
		}
		sort.Slice(ks, func(i, j int) bool { return ks[i] < ks[j] })
		for _, k := range ks {
			ga.Storage = append(ga.Storage, evmtypes.State{Key: common.BigToHash(new(big.Int).SetUint64(k)).Hex(), Value: common.BigToHash(new(big.Int).SetUint64(c.Storage[k])).Hex()})
		}
		evmAccs = append(evmAccs, ga)
		if c.Balance > 0 {
			coins := sdk.NewCoins(sdk.NewInt64Coin(Denom, c.Balance))
			balances = append(balances, banktypes.Balance{Address: a.String(), Coins: coins})
			total = total.Add(coins...)
		}
	}
	gs[authtypes.ModuleName] = cdc.MustMarshalJSON(authtypes.NewGenesisState(authtypes.DefaultParams(), genAccs))

	// staking
	var tmVals []*tmtypes.Validator
	var validators []stakingtypes.Validator
	var delegations []stakingtypes.Delegation
	for i := 0; i < o.NumVals; i++ {
		vk := ValKey(i)
		w.ValKeys = append(w.ValKeys, vk)
		tmpk, err := cryptocodec.ToTmPubKeyInterface(vk.PubKey())
		if err != nil {
			panic(err)
		}
		tv := tmtypes.NewValidator(tmpk, o.ValTokens.Quo(pow10(18)).Int64())
		tmVals = append(tmVals, tv)
		pkAny, err := codectypes.NewAnyWithValue(vk.PubKey())
		if err != nil {
			panic(err)
		}
		valAddr := sdk.ValAddress(tv.Address)
		if k, ok := o.ValOperators[i]; ok {
			valAddr = sdk.ValAddress(w.Addrs[k])
		}
		w.ValAddr = append(w.ValAddr, valAddr)
		w.ValCons = append(w.ValCons, sdk.ConsAddress(tv.Address))
		validators = append(validators, stakingtypes.Validator{
			OperatorAddress:   valAddr.String(),
			ConsensusPubkey:   pkAny,
			Status:            stakingtypes.Bonded,
			Tokens:            o.ValTokens,
			DelegatorShares:   sdk.NewDecFromInt(o.ValTokens),
			Description:       stakingtypes.Description{Moniker: fmt.Sprintf("v%d", i)},
			UnbondingTime:     time.Unix(0, 0).UTC(),
			Commission:        stakingtypes.NewCommission(sdk.NewDecWithPrec(10, 2), sdk.NewDecWithPrec(20, 2), sdk.NewDecWithPrec(1, 2)),
			MinSelfDelegation: sdkmath.ZeroInt(),
		})
		delegations = append(delegations, stakingtypes.NewDelegation(w.Addrs[0], valAddr, sdk.NewDecFromInt(o.ValTokens)))
	}
	sp := stakingtypes.DefaultParams()
	bondDenom := Denom
	if o.BondDenom != "" {
		bondDenom = o.BondDenom
	}
	sp.BondDenom = bondDenom
	sp.UnbondingTime = 3 * 24 * time.Hour
	if o.UnbondingTime > 0 {
		sp.UnbondingTime = o.UnbondingTime
	}
	gs[stakingtypes.ModuleName] = cdc.MustMarshalJSON(stakingtypes.NewGenesisState(sp, validators, delegations))
	bonded := sdk.NewCoin(bondDenom, o.ValTokens.MulRaw(int64(o.NumVals)))
	balances = append(balances, banktypes.Balance{
		Address: authtypes.NewModuleAddress(stakingtypes.BondedPoolName).String(),
		Coins:   sdk.NewCoins(bonded),
	})
	total = total.Add(bonded)
	gs[banktypes.ModuleName] = cdc.MustMarshalJSON(banktypes.NewGenesisState(
		banktypes.DefaultGenesisState().Params, balances, total, []banktypes.Metadata{}, []banktypes.SendEnabled{}))

	// fee market
	fm := feemarkettypes.DefaultParams()
	fm.NoBaseFee = true
	fm.MinGasPrice = sdk.ZeroDec()
	if o.FeeMarket != nil {
		fm = *o.FeeMarket
	}
	fmgs := feemarkettypes.DefaultGenesisState()
	fmgs.Params = fm
	gs[feemarkettypes.ModuleName] = cdc.MustMarshalJSON(fmgs)

	// coinomics
	cp := coinomicstypes.DefaultParams()
	cp.EnableCoinomics = false
	if o.Coinomics != nil {
		cp = *o.Coinomics
	}
	cg := coinomicstypes.DefaultGenesisState()
	cg.Params = cp
	gs[coinomicstypes.ModuleName] = cdc.MustMarshalJSON(cg)

	// evm: default params (denom aISLM), no accounts
	eg := evmtypes.DefaultGenesisState()
	eg.Accounts = evmAccs
	gs[evmtypes.ModuleName] = cdc.MustMarshalJSON(eg)

	// distribution: community tax 0 unless asked otherwise
	{
		var dg map[string]json.RawMessage
		if err := json.Unmarshal(gs["distribution"], &dg); err != nil {
			panic(err)
		}
		var params map[string]json.RawMessage
		if err := json.Unmarshal(dg["params"], &params); err != nil {
			panic(err)
		}
		tax := sdk.ZeroDec()
		if o.CommunityTax != nil {
			tax = *o.CommunityTax
		}
		params["community_tax"], _ = json.Marshal(tax.String())
		dg["params"], _ = json.Marshal(params)
		gs["distribution"], _ = json.Marshal(dg)
	}

	if o.FastGov {
		gg := govv1.DefaultGenesisState()
		vp := 10 * time.Second
		dp := 10 * time.Second
		gg.Params.VotingPeriod = &vp
		gg.Params.MaxDepositPeriod = &dp
		gg.Params.MinDeposit = sdk.NewCoins(sdk.NewCoin(Denom, sdkmath.NewInt(1000)))
		gs[govtypes.ModuleName] = cdc.MustMarshalJSON(gg)
	}
	{
		sg := slashingtypes.DefaultGenesisState()
		if o.SlashWindow > 0 {
			sg.Params.SignedBlocksWindow = o.SlashWindow
			sg.Params.MinSignedPerWindow = sdk.NewDecWithPrec(5, 1)
			sg.Params.DowntimeJailDuration = 60 * time.Second
		}
		for _, c := range w.ValCons {
			sg.SigningInfos = append(sg.SigningInfos, slashingtypes.SigningInfo{
				Address:              c.String(),
				ValidatorSigningInfo: slashingtypes.NewValidatorSigningInfo(c, 0, 0, time.Unix(0, 0).UTC(), false, 0),
			})
		}
		gs[slashingtypes.ModuleName] = cdc.MustMarshalJSON(sg)
	}

	if o.Patch != nil {
		gs = o.Patch(w.App, gs)
	}

	stateBytes, err := json.Marshal(gs)
	if err != nil {
		panic(err)
	}
	w.Genesis = stateBytes
	w.ValPower = o.ValTokens.Quo(pow10(18)).Int64()

	cparams := *app.DefaultConsensusParams
	blk := *cparams.Block
	blk.MaxGas = o.MaxGas
	cparams.Block = &blk

	var valUpdates []abci.ValidatorUpdate
	for _, tv := range tmVals {
		valUpdates = append(valUpdates, tmtypes.TM2PB.ValidatorUpdate(tv))
	}
	w.InitReq = abci.RequestInitChain{
		ChainId:         o.ChainID,
		Time:            GenesisTime,
		Validators:      valUpdates,
		ConsensusParams: &cparams,
		AppStateBytes:   stateBytes,
		InitialHeight:   1,
	}
	w.App.InitChain(w.InitReq)

	w.Header = tmproto.Header{
		ChainID:         o.ChainID,
		Height:          1,
		Time:            GenesisTime.Add(6 * time.Second),
		ProposerAddress: w.ValCons[0],
		ValidatorsHash:  tmhash.Sum([]byte("vals")),
		// a header that passes ValidateBasic, as every real one does (the EVM's BLOCKHASH decodes the
		// stored headers and answers zero for one that does not)
		Version: tmversion.Consensus{Block: version.BlockProtocol},
	}
	w.App.BeginBlock(abci.RequestBeginBlock{Header: w.Header, LastCommitInfo: w.CommitInfo(nil)})
	if !o.SkipFirstBlock {
		w.NextBlock(6 * time.Second)
	}
	return w
}

// CommitInfo returns a LastCommitInfo in which every validator signed, except those listed.
func (w *World) CommitInfo(absent map[int]bool) abci.CommitInfo {
	var votes []abci.VoteInfo
	for i, c := range w.ValCons {
		votes = append(votes, abci.VoteInfo{
			Validator:       abci.Validator{Address: c, Power: w.ValPower},
			SignedLastBlock: !absent[i],
		})
	}
	return abci.CommitInfo{Votes: votes}
}

// NextBlock runs the real EndBlock + Commit and begins the next block dt later.
func (w *World) NextBlock(dt time.Duration) (abci.ResponseEndBlock, abci.ResponseCommit, abci.ResponseBeginBlock) {
	return w.NextBlockWith(dt, nil, nil)
}

func (w *World) NextBlockWith(dt time.Duration, absent map[int]bool, evidence []abci.Misbehavior) (abci.ResponseEndBlock, abci.ResponseCommit, abci.ResponseBeginBlock) {
	eb := w.App.EndBlock(abci.RequestEndBlock{Height: w.Header.Height})
	cm := w.App.Commit()
	w.Header.Height++
	w.Header.Time = w.Header.Time.Add(dt)
	w.Header.AppHash = cm.Data
	bb := w.App.BeginBlock(abci.RequestBeginBlock{
		Header:              w.Header,
		LastCommitInfo:      w.CommitInfo(absent),
		ByzantineValidators: evidence,
	})
	return eb, cm, bb
}

// Ctx returns the context of the deliver state (the current branch, if branched).
func (w *World) Ctx() sdk.Context {
	return w.App.BaseApp.VerifDeliverCtx().WithEventManager(sdk.NewEventManager())
}

// Branch forks the deliver state; the returned function drops the fork.
func (w *World) Branch() func() {
	h := w.Header
	r := w.App.BaseApp.VerifBranchDeliverState()
	return func() {
		r()
		w.Header = h
	}
}

// Transient store names cleared at Commit.
var transientKeys = []string{"transient_params", evmtypes.TransientKey, feemarkettypes.TransientKey}

// VirtualNextBlock ends the current block and begins the next one on the current branch
// without committing: real EndBlocker, transient stores cleared (what Commit does to them),
// real BeginBlock (height check skipped).
func (w *World) VirtualNextBlock(dt time.Duration, absent map[int]bool, evidence []abci.Misbehavior) (abci.ResponseEndBlock, abci.ResponseBeginBlock) {
	eb := w.VirtualEndBlock()
	bb := w.VirtualBeginBlock(dt, absent, evidence)
	return eb, bb
}

// VirtualEndBlock runs the real EndBlock of the open block on the current branch.
func (w *World) VirtualEndBlock() abci.ResponseEndBlock {
	return w.App.EndBlock(abci.RequestEndBlock{Height: w.Header.Height})
}

// VirtualBeginBlock clears the transient stores (as Commit does) and begins the next block.
func (w *World) VirtualBeginBlock(dt time.Duration, absent map[int]bool, evidence []abci.Misbehavior) abci.ResponseBeginBlock {
	ctx := w.App.BaseApp.VerifDeliverCtx()
	for _, name := range transientKeys {
		k := w.App.GetTKey(name)
		if k == nil {
			panic("verif: unknown transient key " + name)
		}
		st := ctx.TransientStore(k)
		it := st.Iterator(nil, nil)
		var keys [][]byte
		for ; it.Valid(); it.Next() {
			keys = append(keys, append([]byte{}, it.Key()...))
		}
		it.Close()
		for _, kk := range keys {
			st.Delete(kk)
		}
	}
	w.Header.Height++
	w.Header.Time = w.Header.Time.Add(dt)
	return w.App.BaseApp.VerifBeginBlock(abci.RequestBeginBlock{
		Header:              w.Header,
		LastCommitInfo:      w.CommitInfo(absent),
		ByzantineValidators: evidence,
	})
}

// Reopen simulates a node restart: a new application object is constructed on the same database
// (LoadLatestVersion), nothing else is carried over.
func (w *World) Reopen() {
	w.App = NewApp(w.DB, w.ChainID)
}

// ReopenOnCopy restarts the node on a key-by-key copy of the database.
func (w *World) ReopenOnCopy() {
	ndb := dbm.NewMemDB()
	it, err := w.DB.Iterator(nil, nil)
	if err != nil {
		panic(err)
	}
	for ; it.Valid(); it.Next() {
		if err := ndb.Set(append([]byte{}, it.Key()...), append([]byte{}, it.Value()...)); err != nil {
			panic(err)
		}
	}
	it.Close()
	w.DB = ndb
	w.App = NewApp(ndb, w.ChainID)
}

// Peek returns the world itself; it exists so that call sites that only count what a builder
// would produce are recognisable.
func (w *World) Peek() *World { return w }
