package world

import (
	"fmt"
	"math/big"

	abci "github.com/cometbft/cometbft/abci/types"
	"github.com/cosmos/cosmos-sdk/client"
	clienttx "github.com/cosmos/cosmos-sdk/client/tx"
	"github.com/cosmos/cosmos-sdk/codec"
	codectypes "github.com/cosmos/cosmos-sdk/codec/types"
	sdk "github.com/cosmos/cosmos-sdk/types"
	txtypes "github.com/cosmos/cosmos-sdk/types/tx"
	"github.com/cosmos/cosmos-sdk/types/tx/signing"
	"github.com/cosmos/cosmos-sdk/x/auth/migrations/legacytx"
	authsigning "github.com/cosmos/cosmos-sdk/x/auth/signing"
	authtx "github.com/cosmos/cosmos-sdk/x/auth/tx"
	"github.com/cosmos/gogoproto/proto"
	"github.com/ethereum/go-ethereum/common"
	ethtypes "github.com/ethereum/go-ethereum/core/types"
	"github.com/ethereum/go-ethereum/crypto"
	"github.com/ethereum/go-ethereum/signer/core/apitypes"

	"github.com/haqq-network/haqq/app"
	"github.com/haqq-network/haqq/crypto/ethsecp256k1"
	"github.com/haqq-network/haqq/encoding"
	"github.com/haqq-network/haqq/ethereum/eip712"
	haqqtypes "github.com/haqq-network/haqq/types"
	evmtypes "github.com/haqq-network/haqq/x/evm/types"
)

var encCfg = encoding.MakeConfig(app.ModuleBasics)

func TxConfig() client.TxConfig { return encCfg.TxConfig }

// EIP155 returns the numeric chain id of the world's chain.
func (w *World) EIP155() *big.Int {
	id, err := haqqtypes.ParseChainID(w.ChainID)
	if err != nil {
		panic(err)
	}
	return id
}

// ---- Ethereum transactions ---------------------------------------------------------------------

type EthSpec struct {
	Type     int // 0 legacy, 1 access list, 2 dynamic fee
	Nonce    uint64
	GasPrice *big.Int // legacy / access list
	Tip, Cap *big.Int // dynamic
	Gas      uint64
	To       *common.Address
	Value    *big.Int
	Data     []byte
	AL       ethtypes.AccessList
	ChainID  *big.Int // nil: the world's chain id
	// Unprotected: sign a legacy tx with the Homestead signer (v = 27/28)
	Unprotected bool
}

func nz(b *big.Int) *big.Int {
	if b == nil {
		return new(big.Int)
	}
	return b
}

func (w *World) BuildEth(s EthSpec) *ethtypes.Transaction {
	ch := s.ChainID
	if ch == nil {
		ch = w.EIP155()
	}
	switch s.Type {
	case 0:
		return ethtypes.NewTx(&ethtypes.LegacyTx{Nonce: s.Nonce, GasPrice: nz(s.GasPrice), Gas: s.Gas, To: s.To, Value: nz(s.Value), Data: s.Data})
	case 1:
		return ethtypes.NewTx(&ethtypes.AccessListTx{ChainID: ch, Nonce: s.Nonce, GasPrice: nz(s.GasPrice), Gas: s.Gas, To: s.To, Value: nz(s.Value), Data: s.Data, AccessList: s.AL})
	default:
		return ethtypes.NewTx(&ethtypes.DynamicFeeTx{ChainID: ch, Nonce: s.Nonce, GasTipCap: nz(s.Tip), GasFeeCap: nz(s.Cap), Gas: s.Gas, To: s.To, Value: nz(s.Value), Data: s.Data, AccessList: s.AL})
	}
}

func (w *World) SignEth(key *ethsecp256k1.PrivKey, s EthSpec) *ethtypes.Transaction {
	ch := s.ChainID
	if ch == nil {
		ch = w.EIP155()
	}
	var signer ethtypes.Signer = ethtypes.LatestSignerForChainID(ch)
	if s.Unprotected {
		signer = ethtypes.HomesteadSigner{}
	}
	priv, err := key.ToECDSA()
	if err != nil {
		panic(err)
	}
	tx, err := ethtypes.SignTx(w.BuildEth(s), signer, priv)
	if err != nil {
		panic(err)
	}
	return tx
}

// WrapEth builds the Cosmos envelope of one or more Ethereum transactions the way the JSON-RPC
// server does (BuildTx for one; the multi-message form sums fees and gas).
func WrapEth(txs ...*ethtypes.Transaction) ([]byte, error) {
	return WrapEthWith(nil, txs...)
}

// WrapEthWith lets the caller edit the messages / builder before encoding.
func WrapEthWith(edit func(msgs []*evmtypes.MsgEthereumTx, b authtx.ExtensionOptionsTxBuilder), txs ...*ethtypes.Transaction) ([]byte, error) {
	b := encCfg.TxConfig.NewTxBuilder().(authtx.ExtensionOptionsTxBuilder)
	opt, err := codectypes.NewAnyWithValue(&evmtypes.ExtensionOptionsEthereumTx{})
	if err != nil {
		return nil, err
	}
	b.SetExtensionOptions(opt)
	var msgs []*evmtypes.MsgEthereumTx
	var sdkMsgs []sdk.Msg
	fee := new(big.Int)
	var gas uint64
	for _, tx := range txs {
		m := &evmtypes.MsgEthereumTx{}
		if err := m.FromEthereumTx(tx); err != nil {
			return nil, err
		}
		msgs = append(msgs, m)
		sdkMsgs = append(sdkMsgs, m)
		td, err := evmtypes.UnpackTxData(m.Data)
		if err != nil {
			return nil, err
		}
		fee.Add(fee, td.Fee())
		gas += tx.Gas()
	}
	if err := b.SetMsgs(sdkMsgs...); err != nil {
		return nil, err
	}
	fees := sdk.Coins{}
	if fee.Sign() > 0 {
		fees = sdk.Coins{sdk.NewCoin(Denom, sdk.NewIntFromBigInt(fee))}
	}
	b.SetFeeAmount(fees)
	b.SetGasLimit(gas)
	if edit != nil {
		edit(msgs, b)
	}
	return encCfg.TxConfig.TxEncoder()(b.GetTx())
}

// ---- Cosmos transactions -----------------------------------------------------------------------

type CosmosSpec struct {
	Key      *ethsecp256k1.PrivKey
	Msgs     []sdk.Msg
	Gas      uint64
	Fee      sdk.Coins
	Memo     string
	Timeout  uint64
	Mode     signing.SignMode // default DIRECT
	ChainID  string           // default: the world's
	AccNum   *uint64          // default: from state
	Seq      *uint64          // default: from state
	ExtOpts  []*codectypes.Any
	NonCrit  []*codectypes.Any
	FeePayer sdk.AccAddress
	Granter  sdk.AccAddress
}

func (w *World) accInfo(ctx sdk.Context, addr sdk.AccAddress) (num, seq uint64) {
	acc := w.App.AccountKeeper.GetAccount(ctx, addr)
	if acc == nil {
		return 0, 0
	}
	return acc.GetAccountNumber(), acc.GetSequence()
}

func (w *World) cosmosBuilder(s CosmosSpec) (authtx.ExtensionOptionsTxBuilder, error) {
	b := encCfg.TxConfig.NewTxBuilder().(authtx.ExtensionOptionsTxBuilder)
	if err := b.SetMsgs(s.Msgs...); err != nil {
		return nil, err
	}
	b.SetGasLimit(s.Gas)
	b.SetFeeAmount(s.Fee)
	b.SetMemo(s.Memo)
	b.SetTimeoutHeight(s.Timeout)
	if s.FeePayer != nil {
		b.SetFeePayer(s.FeePayer)
	}
	if s.Granter != nil {
		b.SetFeeGranter(s.Granter)
	}
	if len(s.ExtOpts) > 0 {
		b.SetExtensionOptions(s.ExtOpts...)
	}
	if len(s.NonCrit) > 0 {
		b.SetNonCriticalExtensionOptions(s.NonCrit...)
	}
	return b, nil
}

// CosmosTx builds and signs a Cosmos transaction (DIRECT or LEGACY_AMINO_JSON) with an
// eth_secp256k1 key.
func (w *World) CosmosTx(ctx sdk.Context, s CosmosSpec) ([]byte, error) {
	b, err := w.cosmosBuilder(s)
	if err != nil {
		return nil, err
	}
	if s.Mode == signing.SignMode_SIGN_MODE_UNSPECIFIED {
		s.Mode = signing.SignMode_SIGN_MODE_DIRECT
	}
	addr := sdk.AccAddress(s.Key.PubKey().Address().Bytes())
	num, seq := w.accInfo(ctx, addr)
	if s.AccNum != nil {
		num = *s.AccNum
	}
	if s.Seq != nil {
		seq = *s.Seq
	}
	chain := s.ChainID
	if chain == "" {
		chain = w.ChainID
	}
	sig := signing.SignatureV2{PubKey: s.Key.PubKey(), Data: &signing.SingleSignatureData{SignMode: s.Mode}, Sequence: seq}
	if err := b.SetSignatures(sig); err != nil {
		return nil, err
	}
	sd := authsigning.SignerData{ChainID: chain, AccountNumber: num, Sequence: seq, Address: addr.String(), PubKey: s.Key.PubKey()}
	sig, err = clienttx.SignWithPrivKey(s.Mode, sd, b, s.Key, encCfg.TxConfig, seq)
	if err != nil {
		return nil, err
	}
	if err := b.SetSignatures(sig); err != nil {
		return nil, err
	}
	return encCfg.TxConfig.TxEncoder()(b.GetTx())
}

// EIP712Spec: legacy EIP-712 (ExtensionOptionsWeb3Tx) Cosmos transaction.
type EIP712Spec struct {
	CosmosSpec
	TypedDataChainID *uint64 // default: the world's numeric chain id
	// ForgeBy, if set, is the key that signs the typed data and is named as fee payer in the
	// extension, while account number, sequence, messages and the signer-info public key stay
	// those of Key's account (what somebody else would submit in the account's name)
	ForgeBy *ethsecp256k1.PrivKey
	// FeePayerInExt: default the signer
	// SignChainID: chain id string in the sign doc (default the world's)
}

// EIP712Tx builds a legacy EIP-712 transaction: sign doc = amino StdSignBytes, typed data via the
// repository's LegacyWrapTxToTypedData, signature in the Web3Tx extension.
func (w *World) EIP712Tx(ctx sdk.Context, s EIP712Spec) ([]byte, error) {
	addr := sdk.AccAddress(s.Key.PubKey().Address().Bytes())
	num, seq := w.accInfo(ctx, addr)
	if s.AccNum != nil {
		num = *s.AccNum
	}
	if s.Seq != nil {
		seq = *s.Seq
	}
	chain := s.ChainID
	if chain == "" {
		chain = w.ChainID
	}
	cid := w.EIP155().Uint64()
	if s.TypedDataChainID != nil {
		cid = *s.TypedDataChainID
	}
	fee := legacytx.NewStdFee(s.Gas, s.Fee) //nolint:staticcheck
	data := legacytx.StdSignBytes(chain, num, seq, s.Timeout, fee, s.Msgs, s.Memo, nil)
	signKey, payer := s.Key, addr
	if s.ForgeBy != nil {
		signKey, payer = s.ForgeBy, sdk.AccAddress(s.ForgeBy.PubKey().Address().Bytes())
	}
	td, err := eip712.LegacyWrapTxToTypedData(encCfg.Codec, cid, s.Msgs[0], data, &eip712.FeeDelegationOptions{FeePayer: payer})
	if err != nil {
		return nil, err
	}
	hash, _, err := apitypes.TypedDataAndHash(td)
	if err != nil {
		return nil, err
	}
	sigBz, err := signKey.Sign(hash)
	if err != nil {
		// PrivKey.Sign hashes again for non-32-byte input; for 32 bytes it signs the digest
		return nil, err
	}
	sigBz[crypto.RecoveryIDOffset] += 27
	b, err := w.cosmosBuilder(s.CosmosSpec)
	if err != nil {
		return nil, err
	}
	opt, err := codectypes.NewAnyWithValue(&haqqtypes.ExtensionOptionsWeb3Tx{FeePayer: payer.String(), TypedDataChainID: cid, FeePayerSig: sigBz})
	if err != nil {
		return nil, err
	}
	b.SetExtensionOptions(append([]*codectypes.Any{opt}, s.ExtOpts...)...)
	sig := signing.SignatureV2{PubKey: s.Key.PubKey(), Data: &signing.SingleSignatureData{SignMode: signing.SignMode_SIGN_MODE_LEGACY_AMINO_JSON}, Sequence: seq}
	if err := b.SetSignatures(sig); err != nil {
		return nil, err
	}
	return encCfg.TxConfig.TxEncoder()(b.GetTx())
}

// MutateTx decodes raw tx bytes into body / auth info / signatures, lets f edit them, and
// re-encodes (signatures are NOT recomputed: this is how post-signing mutations are produced).
func MutateTx(bz []byte, f func(body *txtypes.TxBody, auth *txtypes.AuthInfo, sigs *[][]byte)) ([]byte, error) {
	// plain protobuf (no interface unpacking): unknown Any types must survive the round trip
	var raw txtypes.TxRaw
	if err := raw.Unmarshal(bz); err != nil {
		return nil, err
	}
	var body txtypes.TxBody
	var auth txtypes.AuthInfo
	if err := body.Unmarshal(raw.BodyBytes); err != nil {
		return nil, err
	}
	if err := auth.Unmarshal(raw.AuthInfoBytes); err != nil {
		return nil, err
	}
	sigs := raw.Signatures
	f(&body, &auth, &sigs)
	bb, err := body.Marshal()
	if err != nil {
		return nil, err
	}
	ab, err := auth.Marshal()
	if err != nil {
		return nil, err
	}
	out := txtypes.TxRaw{BodyBytes: bb, AuthInfoBytes: ab, Signatures: sigs}
	return out.Marshal()
}

// Deliver runs the real DeliverTx on the current (possibly branched) deliver state.
func (w *World) Deliver(bz []byte) abci.ResponseDeliverTx {
	return w.App.DeliverTx(abci.RequestDeliverTx{Tx: bz})
}

func MustAny(m proto.Message) *codectypes.Any {
	a, err := codectypes.NewAnyWithValue(m)
	if err != nil {
		panic(fmt.Sprint(err))
	}
	return a
}

func Codec() codec.Codec { return encCfg.Codec }

// CosmosTxEIP712Sig builds a Cosmos transaction whose (DIRECT-mode) signature is the EIP-712
// typed-data signature over the sign doc, the form wallets produce without the legacy extension.
func (w *World) CosmosTxEIP712Sig(ctx sdk.Context, s CosmosSpec) ([]byte, error) {
	b, err := w.cosmosBuilder(s)
	if err != nil {
		return nil, err
	}
	mode := signing.SignMode_SIGN_MODE_DIRECT
	addr := sdk.AccAddress(s.Key.PubKey().Address().Bytes())
	num, seq := w.accInfo(ctx, addr)
	if s.AccNum != nil {
		num = *s.AccNum
	}
	if s.Seq != nil {
		seq = *s.Seq
	}
	chain := s.ChainID
	if chain == "" {
		chain = w.ChainID
	}
	sig := signing.SignatureV2{PubKey: s.Key.PubKey(), Data: &signing.SingleSignatureData{SignMode: mode}, Sequence: seq}
	if err := b.SetSignatures(sig); err != nil {
		return nil, err
	}
	sd := authsigning.SignerData{ChainID: chain, AccountNumber: num, Sequence: seq, Address: addr.String(), PubKey: s.Key.PubKey()}
	signBytes, err := encCfg.TxConfig.SignModeHandler().GetSignBytes(mode, sd, b.GetTx())
	if err != nil {
		return nil, err
	}
	eipBytes, err := eip712.GetEIP712BytesForMsg(signBytes)
	if err != nil {
		return nil, err
	}
	sigBz, err := s.Key.Sign(eipBytes)
	if err != nil {
		return nil, err
	}
	sig.Data = &signing.SingleSignatureData{SignMode: mode, Signature: sigBz}
	if err := b.SetSignatures(sig); err != nil {
		return nil, err
	}
	return encCfg.TxConfig.TxEncoder()(b.GetTx())
}

// UnsignedTx builds a Cosmos envelope without signatures or signer infos.
func (w *World) UnsignedTx(s CosmosSpec) ([]byte, error) {
	b, err := w.cosmosBuilder(s)
	if err != nil {
		return nil, err
	}
	return encCfg.TxConfig.TxEncoder()(b.GetTx())
}
