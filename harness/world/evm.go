package world

import (
	"math/big"

	sdk "github.com/cosmos/cosmos-sdk/types"
	"github.com/ethereum/go-ethereum/common"
	"github.com/ethereum/go-ethereum/crypto"

	"github.com/haqq-network/haqq/x/evm/statedb"
)

// InstallContract writes code (and optional storage) at addr directly through the EVM keeper, as
// if it had been deployed earlier; no constructor transaction is involved.
func (w *World) InstallContract(ctx sdk.Context, addr common.Address, code []byte, storage map[uint64]uint64) {
	h := crypto.Keccak256(code)
	w.App.EvmKeeper.SetCode(ctx, h, code)
	bal := w.App.EvmKeeper.GetBalance(ctx, addr)
	if err := w.App.EvmKeeper.SetAccount(ctx, addr, statedb.Account{Nonce: 1, Balance: bal, CodeHash: h}); err != nil {
		panic(err)
	}
	for k, v := range storage {
		w.App.EvmKeeper.SetState(ctx, addr, common.BigToHash(new(big.Int).SetUint64(k)), common.BigToHash(new(big.Int).SetUint64(v)).Bytes())
	}
}

// ContractAddr returns a fixed fixture address: 0xC0..<n>.
func ContractAddr(n byte) common.Address {
	var a common.Address
	a[0] = 0xC0
	a[19] = n
	return a
}

// Slot reads a storage slot of a contract.
func (w *World) Slot(ctx sdk.Context, addr common.Address, k uint64) *big.Int {
	return w.App.EvmKeeper.GetState(ctx, addr, common.BigToHash(new(big.Int).SetUint64(k))).Big()
}
