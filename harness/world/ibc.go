package world

import (
	"fmt"

	sdk "github.com/cosmos/cosmos-sdk/types"
	channeltypes "github.com/cosmos/ibc-go/v7/modules/core/04-channel/types"
	host "github.com/cosmos/ibc-go/v7/modules/core/24-host"
)

const (
	IBCPort     = "transfer"
	IBCChannelA = "channel-0" // our side
	IBCChannelB = "channel-1" // the looped-back counterparty, on the same chain
	localConn   = "connection-localhost"
)

// OpenLocalhostChannels writes two OPEN unordered transfer channel ends on ibc-go's sentinel
// localhost connection (no light client needed), with sequences and capabilities, so that ICS-20
// packets can be sent and looped back through the real RecvPacket / Acknowledgement / Timeout
// handlers on the same chain.  Call it on the fixture's deliver context before exploration (the
// capability keeper also keeps an in-memory map, which branches do not fork).
func (w *World) OpenLocalhostChannels(ctx sdk.Context) error {
	ck := w.App.IBCKeeper.ChannelKeeper
	if _, found := w.App.IBCKeeper.ConnectionKeeper.GetConnection(ctx, localConn); !found {
		return fmt.Errorf("sentinel localhost connection not found")
	}
	for _, pr := range [][2]string{{IBCChannelA, IBCChannelB}, {IBCChannelB, IBCChannelA}} {
		ch := channeltypes.NewChannel(channeltypes.OPEN, channeltypes.UNORDERED, channeltypes.NewCounterparty(IBCPort, pr[1]), []string{localConn}, "ics20-1")
		ck.SetChannel(ctx, IBCPort, pr[0], ch)
		ck.SetNextSequenceSend(ctx, IBCPort, pr[0], 1)
		ck.SetNextSequenceRecv(ctx, IBCPort, pr[0], 1)
		ck.SetNextSequenceAck(ctx, IBCPort, pr[0], 1)
		name := host.ChannelCapabilityPath(IBCPort, pr[0])
		cap, err := w.App.ScopedIBCKeeper.NewCapability(ctx, name)
		if err != nil {
			return err
		}
		if err := w.App.ScopedTransferKeeper.ClaimCapability(ctx, cap, name); err != nil {
			return err
		}
	}
	ck.SetNextChannelSequence(ctx, 2)
	return nil
}
