package world

import (
	"encoding/hex"
	"fmt"

	sdk "github.com/cosmos/cosmos-sdk/types"
	transfertypes "github.com/cosmos/ibc-go/v7/modules/apps/transfer/types"
	clienttypes "github.com/cosmos/ibc-go/v7/modules/core/02-client/types"
	channeltypes "github.com/cosmos/ibc-go/v7/modules/core/04-channel/types"
	host "github.com/cosmos/ibc-go/v7/modules/core/24-host"
)

const (
	IBCPort     = "transfer"
	IBCChannelA = "channel-0" // our side
	IBCChannelB = "channel-1" // the looped-back counterparty, on the same chain
	localConn   = "connection-localhost"
)

// OpenLocalhostChannels writes two OPEN unordered transfer channel ends on ibc-go's sentinel
// localhost connection (no light client needed), with sequences and capabilities, so that ICS-20
// packets can be sent and looped back through the real RecvPacket / Acknowledgement / Timeout
// handlers on the same chain.  Call it on the fixture's deliver context before exploration (the
// capability keeper also keeps an in-memory map, which branches do not fork).
func (w *World) OpenLocalhostChannels(ctx sdk.Context) error {
	ck := w.App.IBCKeeper.ChannelKeeper
	if _, found := w.App.IBCKeeper.ConnectionKeeper.GetConnection(ctx, localConn); !found {
		return fmt.Errorf("sentinel localhost connection not found")
	}
	for _, pr := range [][2]string{{IBCChannelA, IBCChannelB}, {IBCChannelB, IBCChannelA}} {
		ch := channeltypes.NewChannel(channeltypes.OPEN, channeltypes.UNORDERED, channeltypes.NewCounterparty(IBCPort, pr[1]), []string{localConn}, "ics20-1")
		ck.SetChannel(ctx, IBCPort, pr[0], ch)
		ck.SetNextSequenceSend(ctx, IBCPort, pr[0], 1)
		ck.SetNextSequenceRecv(ctx, IBCPort, pr[0], 1)
		ck.SetNextSequenceAck(ctx, IBCPort, pr[0], 1)
		name := host.ChannelCapabilityPath(IBCPort, pr[0])
		cap, err := w.App.ScopedIBCKeeper.NewCapability(ctx, name)
		if err != nil {
			return err
		}
		if err := w.App.ScopedTransferKeeper.ClaimCapability(ctx, cap, name); err != nil {
			return err
		}
	}
	ck.SetNextChannelSequence(ctx, 2)
	return nil
}

// Packet describes an ICS-20 packet in flight between the two looped-back channel ends.
type Packet struct {
	P   channeltypes.Packet
	Ack []byte // acknowledgement bytes written by the receiving end (nil until received)
}

// IBCSend sends coins with MsgTransfer (through the app's message router, i.e. Haqq's transfer
// wrapper and the erc20 middleware) on srcCh and returns the packet as the counterparty end will
// see it.  The packet is rebuilt from the message; the receiving handler verifies it against the
// commitment the sender really stored, so a wrong reconstruction cannot go unnoticed.
func (w *World) IBCSend(ctx sdk.Context, srcCh string, sender sdk.AccAddress, receiver string, coin sdk.Coin, timeoutTs uint64) (*Packet, error) {
	dst := IBCChannelB
	if srcCh == IBCChannelB {
		dst = IBCChannelA
	}
	seq, _ := w.App.IBCKeeper.ChannelKeeper.GetNextSequenceSend(ctx, IBCPort, srcCh)
	full := coin.Denom
	if h := mustHash(coin.Denom); h != nil {
		if tr, ok := w.App.TransferKeeper.GetDenomTrace(ctx, h); ok {
			full = tr.GetFullDenomPath()
		}
	}
	msg := transfertypes.NewMsgTransfer(IBCPort, srcCh, coin, sender.String(), receiver, clienttypes.ZeroHeight(), timeoutTs, "")
	if _, err := w.RunMsg(ctx, msg); err != nil {
		return nil, err
	}
	data := transfertypes.NewFungibleTokenPacketData(full, coin.Amount.String(), sender.String(), receiver, "")
	return &Packet{P: channeltypes.NewPacket(data.GetBytes(), seq, IBCPort, srcCh, IBCPort, dst, clienttypes.ZeroHeight(), timeoutTs)}, nil
}

// IBCRecv delivers the packet to the destination end (MsgRecvPacket with the localhost sentinel
// proof) and records the acknowledgement it wrote.
func (w *World) IBCRecv(ctx sdk.Context, p *Packet, relayer sdk.AccAddress) error {
	res, err := w.RunMsg(ctx, channeltypes.NewMsgRecvPacket(p.P, []byte{0x01}, clienttypes.NewHeight(0, 1), relayer.String()))
	if err != nil {
		return err
	}
	for _, ev := range res.GetEvents() {
		if ev.Type != channeltypes.EventTypeWriteAck {
			continue
		}
		for _, a := range ev.Attributes {
			if a.Key == channeltypes.AttributeKeyAckHex {
				bz, err := hex.DecodeString(a.Value)
				if err != nil {
					return err
				}
				p.Ack = bz
			}
		}
	}
	if p.Ack == nil {
		return fmt.Errorf("no acknowledgement written")
	}
	return nil
}

// IBCAck delivers the recorded acknowledgement to the sending end.
func (w *World) IBCAck(ctx sdk.Context, p *Packet, relayer sdk.AccAddress) error {
	_, err := w.RunMsg(ctx, channeltypes.NewMsgAcknowledgement(p.P, p.Ack, []byte{0x01}, clienttypes.NewHeight(0, 1), relayer.String()))
	return err
}

// IBCTimeout times the packet out on the sending end (the block time must have passed the
// packet's timeout timestamp and the packet must not have been received).
func (w *World) IBCTimeout(ctx sdk.Context, p *Packet, relayer sdk.AccAddress) error {
	_, err := w.RunMsg(ctx, channeltypes.NewMsgTimeout(p.P, 1, []byte{0x01}, clienttypes.NewHeight(0, 1), relayer.String()))
	return err
}

// VoucherDenom is the ibc/HASH denomination base arrives under when sent from srcCh to its peer.
func VoucherDenom(dstCh, base string) string {
	return transfertypes.ParseDenomTrace(fmt.Sprintf("%s/%s/%s", IBCPort, dstCh, base)).IBCDenom()
}

func mustHash(denom string) []byte {
	if len(denom) > 4 && denom[:4] == "ibc/" {
		if h, err := transfertypes.ParseHexHash(denom[4:]); err == nil {
			return h
		}
	}
	return nil
}
