#!/usr/bin/env python3
"""Generate the go build overlay used by every /verif check.

Nothing in /repo is instrumented.  The overlay REPLACES four files that live outside /repo
(Go runtime, time, cosmos-sdk baseapp) with patched copies generated from the *installed*
sources.  Every anchor is asserted to occur exactly once, so a different Go / SDK patch level
fails loudly instead of silently not instrumenting.

Output: /verif/build/overlay/{map.go,time.go,state.go,baseapp.go} and /verif/build/overlay.json
Extra entries (mutants of /repo files) can be merged by the caller: see ./check --mutant.
"""
import json
import os
import subprocess
import sys

ROOT = os.path.dirname(os.path.dirname(os.path.abspath(__file__)))
OUT = os.path.join(ROOT, "build", "overlay")
HARNESS = os.path.join(ROOT, "harness")

ENV = dict(os.environ, GOFLAGS="-mod=mod", GOPROXY="off", GOSUMDB="off", GOTOOLCHAIN="local")


def sh(*a, cwd=None):
    return subprocess.check_output(a, cwd=cwd, env=ENV, text=True).strip()


def patch_once(src, anchor, repl, name):
    n = src.count(anchor)
    if n != 1:
        sys.exit(f"overlay/gen.py: anchor for {name} occurs {n} times (expected 1): {anchor!r}")
    return src.replace(anchor, repl)


def main():
    os.makedirs(OUT, exist_ok=True)
    goroot = sh("go", "env", "GOROOT")
    gover = sh("go", "env", "GOVERSION")
    if not gover.startswith("go1.23"):
        sys.exit(f"overlay/gen.py: expected go1.23.x (bucket maps), got {gover}")
    sdk = sh("go", "list", "-m", "-f", "{{.Dir}}", "github.com/cosmos/cosmos-sdk", cwd=HARNESS)

    overlay = {}

    # 1. runtime/map.go: controlled iteration start
    p = os.path.join(goroot, "src", "runtime", "map.go")
    s = open(p).read()
    s = patch_once(
        s,
        "\tr := uintptr(rand())\n\tit.startBucket = r & bucketMask(h.B)\n",
        "\tr := uintptr(rand())\n\tif verifMapIterOn {\n\t\tr = verifMapIterSeed\n\t}\n\tit.startBucket = r & bucketMask(h.B)\n",
        "mapiterinit",
    )
    s += """
// ---- verif overlay ----
var (
	verifMapIterOn   bool
	verifMapIterSeed uintptr
)

//go:linkname verifSetMapIter
func verifSetMapIter(on bool, seed uintptr) {
	verifMapIterOn = on
	verifMapIterSeed = seed
}
"""
    q = os.path.join(OUT, "map.go")
    open(q, "w").write(s)
    overlay[p] = q

    # 2. time/time.go: wall-clock offset
    p = os.path.join(goroot, "src", "time", "time.go")
    s = open(p).read()
    s = patch_once(
        s,
        "\tsec, nsec, mono := now()\n\tmono -= startNano\n\tsec += unixToInternal - minWall\n",
        "\tsec, nsec, mono := now()\n\tsec += verifOffsetSec\n\tmono -= startNano\n\tsec += unixToInternal - minWall\n",
        "time.Now",
    )
    if "_ \"unsafe\"" not in s and "\"unsafe\"" not in s:
        s = patch_once(s, "import (\n", "import (\n\t_ \"unsafe\"\n", "time imports")
    s += """
// ---- verif overlay ----
var verifOffsetSec int64

//go:linkname verifSetOffset
func verifSetOffset(sec int64) { verifOffsetSec = sec }
"""
    q = os.path.join(OUT, "time.go")
    open(q, "w").write(s)
    overlay[p] = q

    # 3. baseapp/state.go: branch / restore the deliver state, virtual BeginBlock
    p = os.path.join(sdk, "baseapp", "state.go")
    s = open(p).read()
    s = patch_once(
        s,
        "import (\n\tsdk \"github.com/cosmos/cosmos-sdk/types\"\n)\n",
        "import (\n\tabci \"github.com/cometbft/cometbft/abci/types\"\n\tstoretypes \"github.com/cosmos/cosmos-sdk/store/types\"\n\tsdk \"github.com/cosmos/cosmos-sdk/types\"\n)\n",
        "state.go imports",
    )
    s += """
// ---- verif overlay ----

var verifSkipHeightCheck bool

// VerifBranchDeliverState replaces the deliver state by a cache-wrapped branch of itself and
// returns a function that drops the branch (and everything written to it) again.
func (app *BaseApp) VerifBranchDeliverState() (restore func()) {
	old := app.deliverState
	oldVotes := app.voteInfos
	ms := old.ms.CacheMultiStore()
	ctx := old.ctx.WithMultiStore(ms)
	if bgm := old.ctx.BlockGasMeter(); bgm != nil {
		var clone storetypes.GasMeter
		if bgm.Limit() == 0 || bgm.Limit() == ^uint64(0) {
			clone = storetypes.NewInfiniteGasMeter()
		} else {
			clone = storetypes.NewGasMeter(bgm.Limit())
		}
		func() {
			defer func() { _ = recover() }()
			clone.ConsumeGas(bgm.GasConsumed(), "verif: parent consumption")
		}()
		ctx = ctx.WithBlockGasMeter(clone)
	}
	app.deliverState = &state{ms: ms, ctx: ctx}
	return func() {
		app.deliverState = old
		app.voteInfos = oldVotes
	}
}

// VerifDeliverCtx returns the context of the current deliver state (the branch, if any).
func (app *BaseApp) VerifDeliverCtx() sdk.Context { return app.deliverState.ctx }

// VerifSetDeliverCtx replaces the context of the current deliver state (multistore must be kept).
func (app *BaseApp) VerifSetDeliverCtx(ctx sdk.Context) { app.deliverState.ctx = ctx }

// VerifBeginBlock is BeginBlock without the last-committed-height check, so that a new block can
// be started on a branch of the deliver state.
func (app *BaseApp) VerifBeginBlock(req abci.RequestBeginBlock) abci.ResponseBeginBlock {
	verifSkipHeightCheck = true
	defer func() { verifSkipHeightCheck = false }()
	return app.BeginBlock(req)
}

// VerifHasDeliverState reports whether a deliver state exists (between BeginBlock and Commit).
func (app *BaseApp) VerifHasDeliverState() bool { return app.deliverState != nil }
"""
    q = os.path.join(OUT, "state.go")
    open(q, "w").write(s)
    overlay[p] = q

    # 4. baseapp/baseapp.go: validateHeight early return
    p = os.path.join(sdk, "baseapp", "baseapp.go")
    s = open(p).read()
    s = patch_once(
        s,
        "func (app *BaseApp) validateHeight(req abci.RequestBeginBlock) error {\n",
        "func (app *BaseApp) validateHeight(req abci.RequestBeginBlock) error {\n\tif verifSkipHeightCheck {\n\t\treturn nil\n\t}\n",
        "validateHeight",
    )
    q = os.path.join(OUT, "baseapp.go")
    open(q, "w").write(s)
    overlay[p] = q

    with open(os.path.join(ROOT, "build", "overlay.json"), "w") as f:
        json.dump({"Replace": overlay}, f, indent=1)
    print("overlay written:", os.path.join(ROOT, "build", "overlay.json"))


if __name__ == "__main__":
    main()
