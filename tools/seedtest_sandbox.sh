#!/bin/bash
# tools/seedtest_sandbox.sh <seed-dir> <prop> [tier] : like ../seedtest.sh, but on scratch copies, so
# that /repo and /verif stay untouched (a detached worktree of /repo's HEAD under /tmp/repo-seed and
# an rsync copy of /verif under /tmp/verif-seed; both are created on demand, remove them afterwards:
#   git -C /repo worktree remove --force /tmp/repo-seed; rm -rf /tmp/verif-seed).
# Usable as SEEDTEST=tools/seedtest_sandbox.sh ./seed_regress.sh while other checks run on /repo.
D="$1"; P="$2"; T="${3:-quick}"
RS=${SANDBOX_REPO:-/tmp/repo-seed}; VS=${SANDBOX_VERIF:-/tmp/verif-seed}
[ -d "$RS" ] || git -C /repo worktree add --detach -q "$RS" HEAD || exit 2
mkdir -p "$VS"
rsync -a --exclude .git --exclude replays --exclude bin --exclude evidence --exclude build /verif/ "$VS"/
cd "$RS" || exit 2
git checkout -q --detach "$(git -C /repo rev-parse HEAD)" 2>/dev/null
git checkout -- . ; git clean -fdq
git apply "$D/patch.diff" || { echo "patch does not apply"; exit 2; }
( cd "$VS" && VERIF_REPO="$RS" ./check "$P" "$T" ); rc=$?
git checkout -- . ; git clean -fdq
echo "seedtest_sandbox: $D $P exit=$rc"
exit $rc
