#!/usr/bin/env python3
"""Prints the measured-coverage table of DESIGN.md §7.2 from evidence/by-tier/*.json
(what the last committed quick and thorough runs of every check actually covered)."""
import json, os, sys
root = os.path.dirname(os.path.dirname(os.path.abspath(__file__)))
bt = os.path.join(root, "evidence", "by-tier")
def row(pid, tier):
    f = os.path.join(bt, f"{pid}-{tier}.json")
    if not os.path.exists(f):
        return "-"
    d = json.load(open(f)); c = d["coverage"]
    ex = "exhaustive" if c.get("exhaustive") else "capped"
    return "%s states, %s transitions, %s evaluations, depth %s, %s, %.0f s" % (
        c.get("states"), c.get("transitions"), c.get("evaluations"), c.get("max_depth"), ex, d.get("wall_s", 0))
print("| id | quick | thorough |")
print("|---|---|---|")
for i in range(1, 21):
    pid = "C%02d" % i
    print("| %s | %s | %s |" % (pid, row(pid, "quick"), row(pid, "thorough")))
