#!/bin/bash
# ./keep_seed.sh <tmp-seed-dir> <seed-id> <property> "<needs>" "<caught-by / result>"
set -e
S="$1"; ID="$2"; P="$3"; NEEDS="$4"; RES="$5"
D=/verif/seeded/$ID; mkdir -p "$D"
cp "$S/patch.diff" "$D/patch.diff"; cp "$S/demo_test.go" "$D/demo_test.go"
[ -f "$S/notes.md" ] && cp "$S/notes.md" "$D/notes.md"
[ -f "$S/confirm.log" ] && tail -n 3 "$S/confirm.log" > "$D/confirm.txt"
python3 - "$D" "$ID" "$P" "$NEEDS" "$RES" <<'PY'
import json,sys,os
d,i,p,needs,res=sys.argv[1:6]
conf=open(os.path.join(d,'confirm.txt')).read().strip().splitlines()[-1] if os.path.exists(os.path.join(d,'confirm.txt')) else ''
json.dump({"id":i,"property":p,"needs_to_manifest":needs,"confirmed":conf,
 "what_i_ran":["./confirm_seed.sh (scratch worktree: demo passes without / fails with the patch; go build ./...; touched packages' tests + ./app/... pass with the patch)","./seedtest.sh (git apply to /repo, ./check "+p+" quick, git checkout)"],
 "check_result":res},open(os.path.join(d,'meta.json'),'w'),indent=1)
PY
echo kept $D
