#!/bin/bash
# ./seed_regress.sh [ids...] : every kept seed must still be caught by its property's quick check.
# Applies each patch to /repo in turn (and undoes it): do not run checks concurrently.
# SEEDTEST=<script> substitutes another seed runner with the same interface (e.g. one working on scratch copies).
cd /verif
ids="$@"; [ -z "$ids" ] && ids=$(ls seeded)
miss=0
for id in $ids; do
  p=$(python3 -c "import json;print(json.load(open('/verif/seeded/$id/meta.json'))['property'])")
  out=$(${SEEDTEST:-./seedtest.sh} /verif/seeded/$id $p 2>&1)
  if echo "$out" | grep -q "^VIOLATION property=$p"; then echo "caught $id ($p)"; else echo "MISSED $id ($p): $(echo "$out" | grep "^$p \|patch does\|HARNESS" | head -2)"; miss=$((miss+1)); fi
done
echo "seed regression: missed=$miss"
[ $miss -eq 0 ]
