#!/bin/bash
# ./baseline_check.sh : runs the repository's own suite (guard off, no overlay) on a scratch worktree
# of /repo's HEAD and compares with /root/.vp/BASELINE.json: every test in stable_pass must pass.
set -u
export GOFLAGS=-mod=mod GOPROXY=off GOSUMDB=off GOTOOLCHAIN=local
WT=/tmp/wt-baseline-$$
git -C /repo worktree add --detach -q "$WT" HEAD || exit 2
( cd "$WT" && go test -json -vet=off -count=1 -p 6 -timeout 25m ./... > /tmp/baseline-$$.json 2>/tmp/baseline-$$.err )
python3 - /tmp/baseline-$$.json <<'PY'
import json,sys
res={}
for l in open(sys.argv[1]):
    try: e=json.loads(l)
    except Exception: continue
    if e.get('Action') in ('pass','fail','skip') and e.get('Test'):
        res[e['Package']+'::'+e['Test']]=e['Action']
b=json.load(open('/root/.vp/BASELINE.json'))
sp=b['stable_pass']
bad=[t for t in sp if res.get(t)!='pass']
print(f"stable_pass={len(sp)} ran={len(res)} not_passing={len(bad)}")
for t in bad[:40]: print("  ",t,res.get(t))
sys.exit(1 if bad else 0)
PY
rc=$?
git -C /repo worktree remove --force "$WT"; rm -f /tmp/baseline-$$.json /tmp/baseline-$$.err
exit $rc
